"""C05 — sharpening keeps exactly the programs that satisfy the written constraints.

A case = a small DSL + type request + CFG.depth_constraint parameters, 0-3 constraint strings and
an optional sketch.  Constraint strings are rendered from a constraint AST drawn from the
documented syntax (docs/source/sharpening.md: NSet = names | ^names | _ ; rules (NSet R1..Rk),
#NSet<=N, #NSet>=N, plus the sub-tree tokens >NSet, >^NSet used by the library's tests), so the
documented MEANING of every string is known to the harness without parsing it.

  impl    : the real synth.filter.constraints.dfta_constraints.add_dfta_constraints end to end,
            and the same pipeline re-run step by step with the real functions (__cfg2dfta__,
            parse_specification, __process__, DFTA.reduce/minimise/read_product) for the
            intermediate sizes; DFTAFilter(dfta).accept for "readable"
  model   : PS.C05.addDftaConstraints ∘ parse ∘ cfg2dfta (lean/PS/Model/Constraints*.lean), driver
            op c05.sharpen on the SAME strings: parsed tokens, base rule table, sizes after each
            step, acceptance / readability of every program
  spec    : PS.C05.sharpenSpec (lean/PS/Spec/Constraints.lean) evaluated by the driver on the AST
            (op c05.tokens) — the documented meaning, no automaton
  oracle  : `o_*` below: the documented meaning evaluated directly on every program, and the base
            language by exhaustive top-down expansion of cfg.rules (never `in`, never the DFTA)
Programs: EVERY term of the base language (capped) and a neighbourhood outside it.

Failures: oracle = the automaton returned by the library accepts a program it should not / rejects
one it should keep (input in hand); corr = library and model differ on parsed tokens, the base
table, intermediate sizes, readability.
Known-defect regions are decided on the CASE (never on the output), see `regions`.
"""
import itertools
import json
import os

from harness import gen as G
from harness import wire as W
from harness.sexp import Sym

CASE_TIMEOUT = {"quick": 150, "thorough": 400}
MAX_LANG = {"quick": 400, "thorough": 1500}
HERE = os.path.dirname(os.path.abspath(__file__))


def _tt(t):
    return tuple(_tt(x) for x in t) if isinstance(t, list) else t


# ------------------------------------------------------------------ constraint ASTs
# ["any"] | ["set", [names], neg] | ["cnt", "most"|"least", set, n] | ["sub", "force"|"forbid", [names]]
# | ["func", [names], neg, [args]]            set = ["all"] | ["names", [names]]
# styles (rendering choices, all inside the documented syntax unless marked odd):
#   count/sub-tree sets in parentheses or bare; `_` in a count as `#_` (works) or `#(_)` (finding C05-F4)

def render(ast, style):
    k = ast[0]
    if k == "any":
        return "_"
    if k == "set":
        s = ",".join(ast[1])
        if ast[2]:
            return "^(" + s + ")" if style.get("neg_paren") else "^" + s
        return s
    if k == "cnt":
        st = ast[2]
        if st[0] == "all":
            body = "(_)" if style.get("all_paren") else "_"
        else:
            body = ",".join(st[1])
            if style.get("cnt_paren", True) or "," in body:
                body = "(" + body + ")"
        return "#" + body + ("<=" if ast[1] == "most" else ">=") + str(ast[3])
    if k == "sub":
        body = ",".join(ast[2])
        if style.get("sub_paren", True):
            body = "(" + body + ")"
        return ">" + ("^" if ast[1] == "forbid" else "") + body
    if k == "func":
        head = ("^" if ast[2] else "") + ",".join(ast[1])
        return "(" + " ".join([head] + [render(a, style) for a in ast[3]]) + ")"
    raise ValueError(ast)


def ast_nodes(ast, nested=False):
    yield ast, nested
    if ast[0] == "func":
        for a in ast[3]:
            yield from ast_nodes(a, True)


def names_of(ast):
    out = []
    for a, _ in ast_nodes(ast):
        if a[0] in ("set", "func"):
            out += a[1]
        elif a[0] == "cnt" and a[2][0] == "names":
            out += a[2][1]
        elif a[0] == "sub":
            out += a[2]
    return out


def repeated_head(ast, heads=()):
    """the documented exception: a nested pattern repeats a head symbol of an enclosing pattern"""
    if ast[0] != "func":
        return False
    hs = set(ast[1])
    if not ast[2] and hs & set(heads):
        return True
    return any(repeated_head(a, tuple(heads) + tuple(hs)) for a in ast[3])


def means_any(a, all_names=()):
    """the pattern is `_` for the parser: `_`, a complement that excludes no symbol of the grammar, or a
    pattern with such a complement as head and only such arguments"""
    if a[0] == "any":
        return True
    if a[0] == "set":
        return bool(a[2]) and not (set(a[1]) & set(all_names))
    if a[0] == "func":
        return bool(a[2]) and not (set(a[1]) & set(all_names)) and all(means_any(x, all_names) for x in a[3])
    return False


def trivial_func(ast, all_names=()):
    """every argument pattern means `_`"""
    return ast[0] == "func" and all(means_any(a, all_names) for a in ast[3])


def regions(item, is_sketch, used_vars, all_names, has_consts=False):
    """decidable classifiers of the known-defect regions, on the case only"""
    r = set()
    ast, style = item["ast"], item.get("style", {})
    if ast is None:
        return r
    for a, nested in ast_nodes(ast):
        # C05-F2: a pattern all of whose arguments are `_` collapses to `_` (nested, or as a sketch)
        if trivial_func(a, all_names) and (nested or is_sketch):
            sel = set(a[1])
            eff = (set(all_names) - sel) if a[2] else (sel & set(all_names))
            # harmless only when the head set is EVERY symbol of the grammar (a Constant is in no named set)
            if eff != set(all_names) or has_consts:
                r.add("C05-F2")
        # with Constants in the grammar, a complement that excludes nothing is read as `_` (which a Constant matches)
        if has_consts and a[0] in ("set", "func") and a[2] and not (set(a[1]) & set(all_names)):
            r.add("C05-F2")
        if a[0] == "cnt" and a[2][0] == "all" and style.get("all_paren"):
            r.add("C05-F4")
        if a[0] == "set" and a[2] and style.get("neg_paren"):
            r.add("C05-F4")
    # C05-F3: varN is resolved by position among the USED variables
    sv = sorted(used_vars)
    for n in names_of(ast):
        if n.startswith("var") and n[3:].isdigit():
            k = int(n[3:])
            if not (k < len(sv) and sv[k] == k):
                r.add("C05-F3")
    return r


# ------------------------------------------------------------------ the documented meaning (independent oracle)
def o_sel(names, neg, label):
    """label None = a Constant: not a member of P (primitive names and variables), so of no set"""
    if label is None:
        return False
    return (label not in names) if neg else (label in names)


def o_cnt(st, t):
    me = 1 if (t[0] is not None and (st[0] == "all" or t[0] in st[1])) else 0
    return me + sum(o_cnt(st, k) for k in t[1])


def o_match(ast, t):
    k = ast[0]
    if k == "any":
        return True
    if k == "set":
        return o_sel(ast[1], ast[2], t[0])
    if k == "cnt":
        c = o_cnt(ast[2], t)
        return c <= ast[3] if ast[1] == "most" else c >= ast[3]
    if k == "sub":
        c = o_cnt(["names", ast[2]], t)
        return c >= 1 if ast[1] == "force" else c == 0
    if k == "func":
        return o_sel(ast[1], ast[2], t[0]) and all(o_match(a, kid) for a, kid in zip(ast[3], t[1]))
    raise ValueError(ast)


def o_local(ast, t):
    """for each occurrence of a head symbol, the arguments match"""
    ok = (not o_sel(ast[1], ast[2], t[0])) or all(o_match(a, kid) for a, kid in zip(ast[3], t[1]))
    return ok and all(o_local(ast, k) for k in t[1])


def o_keep(local_asts, sketch_ast, t):
    return all(o_local(a, t) for a in local_asts if a[0] == "func") and (sketch_ast is None or o_match(sketch_ast, t))


# ------------------------------------------------------------------ wire
def ast_wire(ast, all_names):
    """AST -> token for the driver (op c05.tokens): complements resolved against the grammar symbols"""
    def pos(names, neg):
        return [n for n in all_names if (n not in names) == bool(neg)] if neg else [n for n in names if n in all_names]
    k = ast[0]
    if k == "any":
        return [Sym("any")]
    if k == "set":
        return [Sym("allow")] + pos(ast[1], ast[2])
    if k == "cnt":
        ns = list(all_names) if ast[2][0] == "all" else pos(ast[2][1], False)
        return [Sym("atmost" if ast[1] == "most" else "atleast"), ns, ast[3]]
    if k == "sub":
        return [Sym("force" if ast[1] == "force" else "forbid")] + pos(ast[2], False)
    if k == "func":
        return [Sym("func"), pos(ast[1], ast[2])] + [ast_wire(a, all_names) for a in ast[3]]
    raise ValueError(ast)


def canon_tok(x):
    """driver token text -> canonical nested tuple with sorted symbol sets"""
    if x == "error":
        return "error"
    k = str(x[0])
    if k == "any":
        return ("any",)
    if k in ("allow", "forbid", "force"):
        return (k, tuple(sorted(set(str(s) for s in x[1:]))))
    if k in ("atmost", "atleast"):
        return (k, tuple(sorted(set(str(s) for s in x[1]))), int(x[2]))
    if k == "func":
        return ("func", tuple(sorted(set(str(s) for s in x[1]))), tuple(canon_tok(a) for a in x[2:]))
    raise ValueError(x)


def canon_impl_tok(tok):
    from synth.filter.constraints import parsing as P
    def ss(l):
        return tuple(sorted(set(f"{p}:{p.type}" for p in l)))
    if isinstance(tok, P.TokenAnything):
        return ("any",)
    if isinstance(tok, P.TokenAllow):
        return ("allow", ss(tok.allowed))
    if isinstance(tok, P.TokenForbidSubtree):
        return ("forbid", ss(tok.forbidden))
    if isinstance(tok, P.TokenForceSubtree):
        return ("force", ss(tok.forced))
    if isinstance(tok, P.TokenAtMost):
        return ("atmost", ss(tok.to_count), int(tok.count))
    if isinstance(tok, P.TokenAtLeast):
        return ("atleast", ss(tok.to_count), int(tok.count))
    if isinstance(tok, P.TokenFunction):
        return ("func", ss(tok.function.allowed), tuple(canon_impl_tok(a) for a in tok.args))
    return ("?", repr(tok))


# ------------------------------------------------------------------ programs
def expand_rules(cfg, limit):
    """language of the rule table by exhaustive top-down expansion (no `in`, no enumerator)"""
    memo = {}

    def go(S):
        if S in memo:
            return memo[S]
        memo[S] = None
        out = []
        for P, (args, _) in cfg.rules[S].items():
            subs = []
            ok = True
            for a in args:
                nS = (a[0], (a[1], None))
                r = go(nS) if nS in cfg.rules else []
                if r is None:
                    raise RecursionError("cyclic rule table")
                if not r:
                    ok = False
                    break
                subs.append(r)
            if not ok:
                continue
            for combo in itertools.product(*subs):
                out.append((P, tuple(combo)))
                if len(out) > limit:
                    raise OverflowError
        memo[S] = out
        return out
    return go(cfg.start)


def tname(t):
    """the tree the documented meaning is evaluated on: labels are NAMES (a word of a constraint denotes
    every letter with that name, whatever its type); a Constant has no name"""
    from synth.syntax.program import Constant
    return (None if isinstance(t[0], Constant) else str(t[0]), tuple(tname(k) for k in t[1]))


def tstr(t):
    h = "<const>" if t[0] is None else t[0]
    return h if not t[1] else "(" + " ".join([h] + [tstr(k) for k in t[1]]) + ")"


def to_prog(t):
    from synth.syntax.program import Function
    return t[0] if not t[1] else Function(t[0], [to_prog(k) for k in t[1]])


def twire(t):
    return [Sym("A"), W.sym_wire(t[0])] + [twire(k) for k in t[1]]


def neighbours(rng, terms, symbols, limit):
    """programs around the language: sub-term replaced by another term / a leaf (depth may grow:
    outside the base language), head swapped for a symbol of the same arity, argument dropped"""
    if not terms:
        return []
    pool = terms if len(terms) <= 150 else rng.sample(terms, 150)
    leaves = [(s, ()) for s in symbols]
    arity = {}
    for t in terms:
        stack = [t]
        while stack:
            u = stack.pop()
            arity.setdefault(len(u[1]), set()).add(u[0])
            stack.extend(u[1])

    def positions(t, path=()):
        yield path
        for i, a in enumerate(t[1]):
            yield from positions(a, path + (i,))

    def at(t, path):
        for i in path:
            t = t[1][i]
        return t

    def replace(t, path, new):
        if not path:
            return new
        kids = list(t[1])
        kids[path[0]] = replace(kids[path[0]], path[1:], new)
        return (t[0], tuple(kids))
    out = []
    for _ in range(limit * 2):
        if len(out) >= limit:
            break
        t = rng.choice(pool)
        p = rng.choice(list(positions(t)))
        sub = at(t, p)
        k = rng.randrange(5)
        if k == 0:
            new = rng.choice(pool)
        elif k == 1:
            new = rng.choice(leaves)
        elif k == 2:
            cands = sorted(arity.get(len(sub[1]), {sub[0]}), key=str)
            new = (rng.choice(cands), sub[1])
        elif k == 3 and sub[1]:
            new = (sub[0], sub[1][:-1])
        else:
            new = (sub[0], tuple(rng.choice(pool) for _ in sub[1])) if sub[1] else rng.choice(pool)
        out.append(replace(t, p, new))
    return out


# ------------------------------------------------------------------ generation
CLASSIC = [
    {"prims": [["+", ["->", "int", ["->", "int", "int"]]], ["-", ["->", "int", ["->", "int", "int"]]], ["1", "int"], ["0", "int"]],
     "request": ["->", "int", "int"]},
    {"prims": [["and", ["->", "bool", ["->", "bool", "bool"]]], ["or", ["->", "bool", ["->", "bool", "bool"]]], ["not", ["->", "bool", "bool"]]],
     "request": ["->", "bool", ["->", "bool", "bool"]]},
    {"prims": [["cons", ["->", "int", ["->", ["list", "int"], ["list", "int"]]]], ["nil", ["list", "int"]], ["len", ["->", ["list", "int"], "int"]],
               ["+", ["->", "int", ["->", "int", "int"]]], ["1", "int"]],
     "request": ["->", ["list", "int"], "int"]},
]


def jl(t):
    return [jl(x) for x in t] if isinstance(t, (list, tuple)) else t


def gen_set(rng, names, p_unknown=0.02):
    k = rng.choice([1, 1, 1, 2, 2, 3])
    if rng.random() < 0.6:
        names = [n for n in names if not n.startswith("var")] or names
    s = rng.sample(names, min(k, len(names)))
    if rng.random() < p_unknown:
        s.append(rng.choice(["foo", "var7", "zz"]))
    return s


def gen_arg(rng, names, funs, depth, heads):
    r = rng.random()
    if r < 0.3:
        return ["any"]
    if r < 0.55:
        return ["set", gen_set(rng, names), rng.random() < 0.3]
    if r < 0.7:
        st = ["all"] if rng.random() < 0.2 else ["names", gen_set(rng, names)]
        return ["cnt", rng.choice(["most", "least"]), st, rng.choice([0, 1, 1, 1, 2, 2, 3])]
    if r < 0.82:
        return ["sub", rng.choice(["force", "forbid"]), gen_set(rng, names)]
    if depth < 3 and funs:
        return gen_func(rng, names, funs, depth + 1, heads)
    return ["any"]


def gen_func(rng, names, funs, depth, heads, avoid_repeat=0.9):
    cands = list(funs)
    if heads and rng.random() < avoid_repeat:
        c2 = [f for f in cands if f[0] not in heads]
        cands = c2 or cands
    f = rng.choice(cands)
    hs = [f[0]]
    if rng.random() < 0.15:
        g = rng.choice(funs)
        if g[0] not in hs:
            hs.append(g[0])
    neg = rng.random() < 0.07
    nargs = f[1]
    r = rng.random()
    if r < 0.08:
        nargs = max(0, nargs - 1)
    elif r < 0.12:
        nargs += 1
    args = [gen_arg(rng, names, funs, depth, heads + hs) for _ in range(nargs)]
    return ["func", hs, neg, args]


ODD = ["dspace", "lead", "trail", "newline", "brackets", "braces", "lone", "empty", "noeq", "badnum", "nestedparen"]


def make_odd(rng, text, ast, names):
    k = rng.choice(ODD)
    if k == "dspace" and " " in text:
        i = [j for j, c in enumerate(text) if c == " "]
        j = rng.choice(i)
        return text[:j] + " " + text[j:], k
    if k == "lead":
        return " " + text, k
    if k == "trail":
        return text + " ", k
    if k == "newline" and " " in text:
        j = rng.choice([j for j, c in enumerate(text) if c == " "])
        return text[:j + 1] + "\n" + text[j + 1:], k
    if k == "brackets":
        return "(" + rng.choice(names) + " #[" + rng.choice(names) + "]<=1 _)", k
    if k == "braces":
        return "(" + rng.choice(names) + " {" + rng.choice(names) + "} _)", k
    if k == "lone":
        return rng.choice(["_", ">^(" + names[0] + ")", "#(" + names[0] + ")<=1", names[0], "^" + names[0]]), k
    if k == "empty":
        return rng.choice(["", "()", "( )"]), k
    if k == "noeq":
        return "(" + names[0] + " #(" + names[-1] + ")<2 _)", k
    if k == "badnum":
        return "(" + names[0] + " #(" + names[-1] + ")<=x _)", k
    if k == "nestedparen":
        return "(" + names[0] + " (" + names[-1] + ") _)", k
    return text + " ", "trail"


POLY = {"head": ("'a list -> 'a", 1), "tail": ("'a list -> 'a list", 1), "cons": ("'a -> 'a list -> 'a list", 2),
        "+": ("int -> int -> int", 2), "1": ("int", 0), "len": ("'a list -> int", 1), "nil": ("'a list", 0),
        "swap": ("'a list -> 'a list", 1), "0": ("int", 0)}
POLY_REQ = ["int list list -> int list -> int", "int list list -> int list", "int list -> int list list -> int list",
            "int list list -> int", "int list -> int -> int list", "int list list list -> int list"]


def gen_poly(rng):
    """a DSL with polymorphic primitives, instantiated by the library at every type of the request's list tower:
    the grammar then uses ONE NAME AT SEVERAL TYPES (several automaton letters)"""
    names = ["head", "tail"] + rng.sample(["cons", "+", "1", "len", "nil", "swap", "0"], rng.randint(1, 4))
    if rng.random() < 0.3:
        names.remove(rng.choice(["head", "tail"]))
    req = rng.choice(POLY_REQ)
    return {"syntax": {n: POLY[n][0] for n in names}, "request": req, "bound": 5}, names, req.count("->")


def gen(rng, i, tier):
    r = rng.random()
    poly = None
    if r < 0.22:
        poly, pnames, pnargs = gen_poly(rng)
        prims = [[n, "poly"] for n in pnames]
        request = poly["request"]
        forbidden = []
        if rng.random() < 0.2:
            forbidden = [[rng.choice(["head", "tail"]), 0, [rng.choice(pnames)]]]
    elif r < 0.3 + 0.15:
        base = rng.choice(CLASSIC)
        prims = [list(p) for p in base["prims"]]
        request = base["request"]
        forbidden = []
        if rng.random() < 0.25:
            funs = [p for p in prims if isinstance(p[1], list) and p[1][0] == "->"]
            f = rng.choice(funs)
            forbidden = [[f[0], rng.randrange(len(G.args_ret(_tt(f[1]))[0])), [rng.choice(prims)[0]]]]
    else:
        syn = G.random_syntax(rng, allow_ho=rng.random() < 0.2)
        prims = [[n, jl(t)] for n, t in syn["prims"]]
        request = jl(G.random_request(rng, syn))
        forbidden = [[k[0], k[1], v] for k, v in syn["forbidden"].items()] if rng.random() < 0.4 else []
    case = {"prims": prims, "forbidden": forbidden, "request": request,
            "max_depth": rng.choice([2, 3, 3, 3, 4]) if r < 0.45 else rng.choice([2, 2, 3, 3, 3]),
            "min_var": rng.choice([0, 0, 0, 0, 1, 1, 2]),
            "n_gram": rng.choice([2, 2, 2, 1, 3]),
            "nseed": rng.randrange(1 << 30)}
    if poly:
        case["poly"] = poly
        case["max_depth"] = rng.choice([3, 3, 4])
        nargs = pnargs
        funs = [(n, POLY[n][1]) for n in pnames if POLY[n][1] > 0]
    else:
        nargs = len(G.args_ret(_tt(request))[0])
        funs = [(p[0], len(G.args_ret(_tt(p[1]))[0])) for p in prims if isinstance(p[1], list) and p[1][0] == "->"]
        if rng.random() < 0.12:
            case["const_types"] = [rng.choice(["int", "bool", "str"])]
    names = [p[0] for p in prims] + [f"var{j}" for j in range(nargs)]
    items = []
    nc = rng.choice([0, 1, 1, 1, 2, 2, 3])
    want_sketch = rng.random() < 0.45 or nc == 0

    def item(is_sketch):
        style = {"cnt_paren": rng.random() < 0.7, "sub_paren": rng.random() < 0.7,
                 "all_paren": rng.random() < 0.25, "neg_paren": rng.random() < 0.08}
        if not funs:
            ast = ["func", [names[0]], False, []]
        else:
            ast = gen_func(rng, names, funs, 1, [])
            if is_sketch and rng.random() < 0.1:       # a sketch may be a count / sub-tree rule on the whole program
                ast = rng.choice([["cnt", rng.choice(["most", "least"]), ["names", gen_set(rng, names, 0)], rng.choice([0, 1, 2])],
                                  ["sub", rng.choice(["force", "forbid"]), gen_set(rng, names, 0)], ["any"]])
        text = render(ast, style)
        it = {"ast": ast, "style": style, "text": text}
        if rng.random() < 0.12:
            t2, kind = make_odd(rng, text, ast, names)
            it = {"ast": None, "style": {}, "text": t2, "odd": kind}
        return it
    case["constraints"] = [item(False) for _ in range(nc)]
    case["sketch"] = item(True) if want_sketch else None
    return case


def corpus():
    """hand-made cases: the library's own tests, and the witnesses of the findings"""
    plus = CLASSIC[0]

    def mk(cs, sk, **kw):
        c = {"prims": plus["prims"], "forbidden": [], "request": plus["request"], "max_depth": 3, "min_var": 0,
             "n_gram": 2, "nseed": 1, "constraints": [], "sketch": None}
        c.update(kw)
        c["constraints"] = [{"ast": a, "style": s, "text": render(a, s)} for a, s in cs]
        if sk is not None:
            c["sketch"] = {"ast": sk[0], "style": sk[1], "text": render(sk[0], sk[1])}
        return c
    one = ["set", ["1"], False]
    f = lambda h, *a: ["func", [h], False, list(a)]  # noqa
    out = [
        mk([(f("+", one, ["any"]), {})], None),
        mk([], (f("+", one, ["any"]), {})),
        mk([], (f("+", one, f("-", ["any"], one)), {})),
        mk([(f("+", one, f("-", ["any"], one)), {})], None),
        mk([(f("-", ["cnt", "most", ["names", ["1"]], 1], ["any"]), {})], None),
        mk([(f("-", ["any"], ["cnt", "least", ["names", ["1"]], 2]), {})], None, max_depth=4),
        mk([(f("+", ["sub", "forbid", ["var0"]], ["any"]), {})], None),
        mk([], (f("+", ["sub", "force", ["var0"]], ["any"]), {})),
        mk([(f("+", one, ["set", ["0"], True]), {}), (f("-", ["any"], ["set", ["0"], True]), {})], None),
        # the documented exception (test_multi_level_hard): nested pattern repeating the head
        mk([(f("+", one, f("+", ["any"], one)), {})], None),
        # C05-F1: min_variable_depth is forgotten by __cfg2dfta__
        mk([(f("+", ["set", ["+"], True], ["any"]), {})], None, min_var=1),
        # C05-F2: trivial patterns collapse to `_`
        mk([], (f("+", ["any"], ["any"]), {})),
        mk([(f("+", f("-", ["any"], ["any"]), ["any"]), {})], None),
        # C05-F4: `_` in parentheses
        mk([(f("+", ["cnt", "most", ["all"], 1], ["any"]), {"all_paren": True})], None),
        # C05-F3: var1 with variables {0, 2} in use
        {"prims": [["+", ["->", "int", ["->", "int", "int"]]], ["1", "int"]], "forbidden": [],
         "request": ["->", "int", ["->", "str", ["->", "int", "int"]]], "max_depth": 2, "min_var": 0, "n_gram": 2, "nseed": 1,
         "constraints": [{"ast": f("+", ["set", ["var1"], False], ["any"]), "style": {}, "text": "(+ var1 _)"}], "sketch": None},
        # one name at two types (polymorphic head / tail): a word denotes every letter with that name (seeded C05-1)
        {"prims": [["head", "poly"], ["tail", "poly"], ["+", "poly"], ["1", "poly"]], "forbidden": [],
         "poly": {"syntax": {"head": "'a list -> 'a", "tail": "'a list -> 'a list", "+": "int -> int -> int", "1": "int"},
                  "request": "int list list -> int list -> int", "bound": 5},
         "request": "int list list -> int list -> int", "max_depth": 4, "min_var": 0, "n_gram": 2, "nseed": 1,
         "constraints": [{"ast": f("head", ["set", ["tail"], True]), "style": {}, "text": "(head ^tail)"},
                         {"ast": f("+", ["cnt", "most", ["names", ["head"]], 1], ["any"]), "style": {}, "text": "(+ #(head)<=1 _)"}],
         "sketch": None},
        {"prims": [["head", "poly"], ["tail", "poly"], ["+", "poly"], ["1", "poly"]], "forbidden": [],
         "poly": {"syntax": {"head": "'a list -> 'a", "tail": "'a list -> 'a list", "+": "int -> int -> int", "1": "int"},
                  "request": "int list list -> int list -> int", "bound": 5},
         "request": "int list list -> int list -> int", "max_depth": 4, "min_var": 0, "n_gram": 2, "nseed": 2,
         "constraints": [{"ast": f("tail", ["set", ["tail", "var0"], False]), "style": {}, "text": "(tail tail,var0)"}],
         "sketch": {"ast": f("+", ["sub", "force", ["head"]], ["sub", "forbid", ["tail"]]), "style": {}, "text": "(+ >(head) >^(tail))"}},
    ]
    return out


def shrink(case):
    for j in range(len(case["constraints"])):
        c = dict(case)
        c["constraints"] = case["constraints"][:j] + case["constraints"][j + 1:]
        yield c
    if case["sketch"] is not None:
        c = dict(case)
        c["sketch"] = None
        yield c
    if case["max_depth"] > 2:
        c = dict(case)
        c["max_depth"] -= 1
        yield c
    if case["forbidden"]:
        c = dict(case)
        c["forbidden"] = []
        yield c
    if case["min_var"]:
        c = dict(case)
        c["min_var"] = 0
        yield c

    def simpler(ast):
        if ast[0] == "func":
            for j, a in enumerate(ast[3]):
                if a[0] != "any":
                    yield ["func", ast[1], ast[2], ast[3][:j] + [["any"]] + ast[3][j + 1:]]
                for s in simpler(a):
                    yield ["func", ast[1], ast[2], ast[3][:j] + [s] + ast[3][j + 1:]]
    for j, it in enumerate(case["constraints"]):
        if it.get("ast"):
            for s in simpler(it["ast"]):
                c = dict(case)
                c["constraints"] = list(case["constraints"])
                c["constraints"][j] = {"ast": s, "style": it["style"], "text": render(s, it["style"])}
                yield c
    it = case["sketch"]
    if it and it.get("ast"):
        for s in simpler(it["ast"]):
            c = dict(case)
            c["sketch"] = {"ast": s, "style": it["style"], "text": render(s, it["style"])}
            yield c
    used = set(n for it in case["constraints"] + ([case["sketch"]] if case["sketch"] else []) for n in (names_of(it["ast"]) if it.get("ast") else [p[0] for p in case["prims"]]))
    for j, p in enumerate(case["prims"]):
        if p[0] not in used and len(case["prims"]) > 1:
            c = dict(case)
            c["prims"] = case["prims"][:j] + case["prims"][j + 1:]
            c["forbidden"] = [fb for fb in case["forbidden"] if fb[0] != p[0] and p[0] not in fb[2]]
            yield c


# ------------------------------------------------------------------ check
_NONCE = [0]


def ask(M, req):
    _NONCE[0] += 1
    n = str(_NONCE[0])
    ans = M.ask(req + [int(n)])
    for _ in range(4):
        if isinstance(ans, list) and ans and ans[-1] == n:
            return ans
        ans = M.sexp.parse(M.p.stdout.readline().rstrip("\n"))
    raise RuntimeError("model driver out of step with the harness")


_KNOWN = {}


def listed_findings():
    """ids of C05 findings the integrator has listed as open in known_findings.json: only those are
    reported as failures carrying `finding`; a proposed (not yet listed) finding is tagged only"""
    if "ids" not in _KNOWN:
        try:
            kf = json.load(open(os.path.join(os.path.dirname(HERE), "known_findings.json")))["findings"]
            _KNOWN["ids"] = {k["id"] for k in kf if k.get("property") == "C05" and k.get("status") == "open"}
        except Exception:
            _KNOWN["ids"] = set()
    return _KNOWN["ids"]


def model_fixes():
    """proposed fixes the integrator has applied to /repo: `model_fixes` of harness/meta/C05.json (the
    parser model then follows the fixed code: Syms.fixF3 / fixF4)"""
    if "fixes" not in _KNOWN:
        try:
            _KNOWN["fixes"] = list(json.load(open(os.path.join(HERE, "meta", "C05.json"))).get("model_fixes", []))
        except Exception:
            _KNOWN["fixes"] = []
        if os.environ.get("C05_MODEL_FIXES"):
            _KNOWN["fixes"] = os.environ["C05_MODEL_FIXES"].split(",")
    return _KNOWN["fixes"]


def run_table(rules, t, memo):
    """bottom-up run over the library's rule dict (dict.get only; never DFTA.read)"""
    r = memo.get(t, memo)
    if r is not memo:
        return r
    qs = []
    out = None
    for k in t[1]:
        q = run_table(rules, k, memo)
        if q is None:
            qs = None
            break
        qs.append(q[0])
    if qs is not None:
        d = rules.get((t[0], tuple(qs)))
        if d is not None:
            out = (d,)
    memo[t] = out
    return out


def impl_steps(mod, cfg, strings, sketch):
    """the body of add_dfta_constraints re-run with the real functions, recording sizes"""
    from synth.filter.constraints.parsing import TokenAnything, TokenFunction, parse_specification
    cfg2dfta = getattr(mod, "__cfg2dfta__")
    process = getattr(mod, "__process__")
    base = cfg2dfta(cfg)
    steps = []
    dfta = None

    def stats1(a):
        return [len(a.rules), len(a.finals)]

    def statsU(a):
        return [len(a.rules), len(a.states), len(a.finals)]
    for s in strings:
        tok = parse_specification(s, cfg)
        if isinstance(tok, TokenAnything) or (isinstance(tok, TokenFunction) and len(tok.function.allowed) == 0):
            steps.append(["skip"])
            continue
        a = process(base, tok, True)
        s1 = stats1(a)
        if dfta is None:
            dfta = a
        else:
            a.reduce()
            dfta = dfta.read_product(a.minimise())
        np_ = len(dfta.rules)
        dfta.reduce()
        dfta = dfta.minimise()
        steps.append([s1, np_, statsU(dfta)])
    sk = None
    if sketch is not None:
        a = process(base, parse_specification(sketch, cfg), False)
        s1 = stats1(a)
        if dfta is None:
            dfta = a
        else:
            a.reduce()
            dfta = dfta.read_product(a.minimise())
        np_ = len(dfta.rules)
        dfta.reduce()
        dfta = dfta.minimise()
        sk = [s1, np_, statsU(dfta)]
    return base, steps, sk


def num(x):
    if isinstance(x, list):
        return [num(y) for y in x]
    try:
        return int(x)
    except ValueError:
        return str(x)


def est_growth(ast, arity):
    """upper bound of the factor by which __process__ multiplies a rule of this arity"""
    if ast is None:
        return 16 ** arity
    k = ast[0]
    if k == "any":
        return 1
    if k == "set":
        return 2 ** arity
    if k == "cnt":
        return (ast[3] + 2) ** arity * 2 ** arity
    if k == "sub":
        return 3 ** arity * 2 ** arity
    f = 2 ** arity * 2 ** arity
    for a in ast[3]:
        f *= est_growth(a, arity)
    return f


IMPL_CAP = 400000     # estimated size of the largest table the library would build (skip the case above)
MODEL_CAP = 900      # largest intermediate rule table for which the Lean model is also run (its
#                       insertion-ordered association lists make every dict write linear)


def check(case, M):
    import random
    from synth.syntax import CFG, DSL
    from synth.syntax.program import Primitive, Variable
    from synth.filter.constraints import dfta_constraints as DC
    from synth.filter.constraints.parsing import parse_specification
    from synth.filter.dfta_filter import DFTAFilter
    tier_cap = MAX_LANG["thorough"]
    rng = random.Random(case["nseed"])
    prims = [(n, _tt(t)) for n, t in case["prims"]]
    forb = {(a, b): set(v) for a, b, v in case["forbidden"]}
    request = _tt(case["request"])
    md, mv, ng = case["max_depth"], case["min_var"], case["n_gram"]
    items = list(case["constraints"])
    sk_item = case["sketch"]
    key = json.dumps([case["prims"], case.get("poly"), case.get("const_types"), case["forbidden"], case["request"], md, mv, ng, [it["text"] for it in items], sk_item["text"] if sk_item else None])
    tags = [f"depth{md}", f"minvar{mv}", f"ngram{ng}", f"constraints{len(items)}", "sketch" if sk_item else "nosketch"]
    if forb:
        tags.append("forbidden")
    failures = []
    res = {"key": key, "nontrivial": False, "tags": tags, "failures": failures,
           "sample": {"constraints": [it["text"] for it in items], "sketch": sk_item["text"] if sk_item else None}}
    if case.get("poly"):
        from synth.syntax import auto_type
        dsl = DSL(auto_type(dict(case["poly"]["syntax"])), {k: set(v) for k, v in forb.items()})
        dsl.instantiate_polymorphic_types(case["poly"].get("bound", 5))
        tr = auto_type(case["poly"]["request"])
        tags.append("polymorphic")
    else:
        dsl = DSL({n: W.tt_repo(t) for n, t in prims}, {k: set(v) for k, v in forb.items()})
        tr = W.tt_repo(request)
    cts = {W.tt_repo(_tt(t)) for t in case.get("const_types", [])}
    if cts:
        tags.append("constant-types")
    try:
        cfg = CFG.depth_constraint(dsl, tr, md, mv, ng, False, cts)
    except KeyError:
        tags.append("empty-language(KeyError)")
        return res
    # ---- the base language, by expansion of the rule table (independent of `in`)
    try:
        lang = expand_rules(cfg, tier_cap)
    except OverflowError:
        tags.append("too-large")
        return res
    if not lang:
        tags.append("empty-language")
        return res
    symbols = sorted({P for S in cfg.rules for P in cfg.rules[S]}, key=str)
    named_syms = [P for P in symbols if isinstance(P, (Primitive, Variable))]     # P of the documentation
    if len(named_syms) != len(symbols):
        tags.append("constants")
    used_vars = sorted(P.variable for P in symbols if isinstance(P, Variable))
    all_names = list(dict.fromkeys(str(P) for P in named_syms))
    if len(all_names) != len(named_syms):
        tags.append("homonyms")          # one name at several types (polymorphic instances): a word denotes all of them
    inlang = set(lang)
    nb = [t for t in neighbours(rng, lang, symbols, max(20, min(150, len(lang)))) if t not in inlang]
    progs = lang + list(dict.fromkeys(nb))
    named = [tname(t) for t in progs]
    wprogs = [twire(t) for t in progs]
    wcfg = W.cfg_wire(cfg)
    tags.append("lang<=10" if len(lang) <= 10 else ("lang<=100" if len(lang) <= 100 else "lang>100"))
    # ---- case classification (on the case only)
    reg = set()
    odd = False
    exception_region = False
    for it, is_sk in [(x, False) for x in items] + ([(sk_item, True)] if sk_item else []):
        if it.get("ast") is None:
            odd = True
            tags.append("odd:" + it.get("odd", "?"))
            continue
        reg |= regions(it, is_sk, used_vars, all_names, len(named_syms) != len(symbols))
        if repeated_head(it["ast"]):
            exception_region = True
        for a, _ in ast_nodes(it["ast"]):
            tags.append("tok:" + (a[0] if a[0] not in ("cnt", "sub") else a[0] + "-" + a[1]))
        if not is_sk and it["ast"][0] != "func":
            odd = True
    reg -= set(model_fixes())
    for r in sorted(reg):
        tags.append("region:" + r)
    if exception_region:
        tags.append("repeated-head(documented exception)")
    base0 = getattr(DC, "__cfg2dfta__")(cfg)
    ars = [len(args) for (_, args) in base0.rules]
    worst = max([sum(est_growth(it.get("ast"), ar) for ar in ars) for it in items + ([sk_item] if sk_item else [])] + [1])
    if worst > IMPL_CAP:
        tags.append("too-large(automaton)")
        return res
    # processing order of add_dfta_constraints :303-304 (language-neutral; replicated for the model)
    order = sorted([(int("var" in it["text"]), it["text"]) for it in items], reverse=True)
    strings = [c for _, c in order]
    by_text = {it["text"]: it for it in items}
    sketch_text = sk_item["text"] if sk_item else None
    # ---- implementation, end to end
    impl_err = None
    dfta = None
    try:
        dfta = DC.add_dfta_constraints(cfg, [it["text"] for it in items], sketch_text, progress=False)
    except Exception as e:  # noqa
        if type(e).__name__ in ("CaseTimeout", "TimeoutError"):
            raise
        impl_err = type(e).__name__
    # ---- implementation, step by step (parsed tokens, sizes)
    impl_toks = []
    for s in strings + ([sketch_text] if sk_item else []):
        try:
            impl_toks.append(canon_impl_tok(parse_specification(s, cfg)))
        except Exception as e:  # noqa
            if type(e).__name__ in ("CaseTimeout", "TimeoutError"):
                raise
            impl_toks.append("error")
    step_err = None
    try:
        ibase, isteps, isk = impl_steps(DC, cfg, strings, sketch_text)
    except Exception as e:  # noqa
        if type(e).__name__ in ("CaseTimeout", "TimeoutError"):
            raise
        step_err = type(e).__name__
        ibase = getattr(DC, "__cfg2dfta__")(cfg)
        isteps, isk = None, None
    tags.append("table<=%d" % next(b for b in (100, 1000, 2500, 10000, 100000, 10**9) if max([len(ibase.rules)] + [max(st[0][0], st[1]) for st in (isteps or []) + ([isk] if isk else []) if st != ["skip"]]) <= b))
    biggest = max([len(ibase.rules)] + [max(st[0][0], st[1]) for st in (isteps or []) + ([isk] if isk else []) if st != ["skip"]])
    # ---- acceptance of every program by the returned automaton
    i_acc = i_read = None
    if dfta is not None:
        memo = {}
        runs = [run_table(dfta.rules, t, memo) for t in progs]
        i_acc = "".join("1" if (r is not None and r[0] in dfta.finals) else "0" for r in runs)
        i_def = "".join("1" if r is not None else "0" for r in runs)
        flt = DFTAFilter(dfta)
        i_read = "".join("1" if flt.accept(to_prog(t)) else "0" for t in progs)
        if i_read != i_def:
            k = next(j for j in range(len(progs)) if i_read[j] != i_def[j])
            failures.append({"kind": "oracle", "what": "DFTAFilter.accept differs from 'the bottom-up run is defined'",
                             "detail": f"{tstr(named[k])}: accept={i_read[k]} run defined={i_def[k]}"})
    # ---- the documented meaning: Lean spec on the AST, and the independent oracle
    local_asts = [] if odd else [by_text[s]["ast"] for s in strings]
    sk_ast = sk_item["ast"] if (sk_item and not odd) else None
    ans2 = ask(M, [Sym("c05.tokens"), wcfg, [W.sym_wire(p) for p in named_syms],
                   [ast_wire(a, all_names) for a in local_asts], [Sym("some"), ast_wire(sk_ast, all_names)] if sk_ast else [Sym("none")],
                   wprogs])
    wf, sigf, exact = [str(x) == "1" for x in ans2[1]]
    spec_ast, ing_bits = str(ans2[2]), str(ans2[3])
    tags.append("exact" if exact else "region:C05-F1(not exact)")
    if not wf or not sigf:
        tags.append("grammar-not-wf")
    o_base = "".join("1" if j < len(lang) else "0" for j in range(len(progs)))
    if ing_bits != o_base:
        raise RuntimeError("Lean spec PS.G.gen and the harness' expansion of the rule table disagree on the base language")
    keep = None
    if not odd:
        keep = "".join("1" if (j < len(lang) and o_keep(local_asts, sk_ast, named[j])) else "0" for j in range(len(progs)))
        if spec_ast != keep:
            k = next(j for j in range(len(progs)) if spec_ast[j] != keep[j])
            raise RuntimeError(f"Lean spec sharpenSpec and the harness oracle disagree on {tstr(named[k])}: {spec_ast[k]} vs {keep[k]}")
        kept = sum(1 for j in range(len(lang)) if keep[j] == "1")
        res["nontrivial"] = 0 < kept < len(lang)
        tags.append("keeps-all" if kept == len(lang) else ("keeps-none" if kept == 0 else "keeps-some"))
    in_region = False
    if keep is not None and i_acc is not None and i_acc != keep:
        added = [j for j in range(len(progs)) if i_acc[j] == "1" and keep[j] == "0"]
        removed = [j for j in range(len(progs)) if i_acc[j] == "0" and keep[j] == "1"]
        # decidable attribution, on the case: which known-defect regions is it in?
        cand = set(reg)
        if not exact:
            cand.add("C05-F1")
        what = "sharpening adds a program" if added else "sharpening removes a program that satisfies every rule"
        k = (added or removed)[0]
        detail = (f"{tstr(named[k])}: accepted={i_acc[k]}, in the base grammar={o_base[k]}, satisfies the written rules="
                  f"{'1' if o_keep(local_asts, sk_ast, named[k]) else '0'}; {len(added)} added, {len(removed)} removed of {len(progs)} programs")
        listed = listed_findings()
        if cand:
            in_region = True
            fid = "+".join(sorted(cand))
            tags.append("observed:" + fid)
            if len(cand) == 1 and fid in listed:
                failures.append({"kind": "oracle", "what": what, "detail": detail, "finding": fid})
        elif exception_region:
            in_region = True
            tags.append("differs-in-documented-exception")
        else:
            failures.append({"kind": "oracle", "what": what, "detail": detail})
    # ---- model
    prim_syms = [P for P in cfg.primitives_used()]
    var_syms = cfg.variables()
    if biggest > MODEL_CAP:
        # the tables are too large for the association-list model: its LANGUAGE is known by theorem C05_sharpen
        # (accepts = sharpenSpec (cfg2dfta G).accepts (parsed tokens)); parsed tokens and the base table are still compared
        tags.append("model-by-theorem(table too large)")
        ans = ask(M, [Sym("c05.lang"), model_fixes(), wcfg, [W.sym_wire(p) for p in prim_syms], [W.sym_wire(v) for v in var_syms],
                      strings, [Sym("some"), sketch_text] if sk_item else [Sym("none")], wprogs])
        stage = None
        if ans[0] == "fail":
            stage = str(ans[1])
            ans = [ans[0]] + ans[2:]
        m_toks = [canon_tok(x) for x in ans[1]] + ([canon_tok(ans[2])] if sk_item else [])
        if m_toks != impl_toks:
            j = next(k for k in range(len(m_toks)) if m_toks[k] != impl_toks[k])
            failures.append({"kind": "corr", "what": "parsed token tree differs from the model",
                             "detail": f"string {(strings + [sketch_text])[j]!r}: library {impl_toks[j]} / model {m_toks[j]}"})
        if stage is not None:
            if impl_err is None:
                failures.append({"kind": "corr", "what": "model raises, library does not", "detail": f"stage {stage}"})
            return res
        if impl_err is not None:
            failures.append({"kind": "corr", "what": "library raises, model does not", "detail": f"{impl_err}"})
            return res
        ib = sorted(json.dumps([str(P), [[str(a[0]), a[1]] for a in args], [str(d[0]), d[1]]]) for (P, args), d in ibase.rules.items())
        mb = sorted(json.dumps([str(r[0]), [[str(a[0]), int(a[1])] for a in r[1]], [str(r[2][0]), int(r[2][1])]]) for r in ans[3])
        if ib != mb:
            failures.append({"kind": "corr", "what": "__cfg2dfta__ rule table differs from the model", "detail": f"{len(ib)} vs {len(mb)} rules"})
        m_acc = str(ans[4])
        if i_acc != m_acc:
            k = next(j for j in range(len(progs)) if i_acc[j] != m_acc[j])
            failures.append({"kind": "corr", "what": "acceptance differs from the model (language by theorem C05_sharpen)",
                             "detail": f"{tstr(named[k])}: library {i_acc[k]} / model {m_acc[k]}"})
        return res
    ans = ask(M, [Sym("c05.sharpen"), model_fixes(), wcfg, [W.sym_wire(p) for p in prim_syms], [W.sym_wire(v) for v in var_syms],
                  strings, [Sym("some"), sketch_text] if sk_item else [Sym("none")], wprogs])
    stage = None
    if ans[0] == "fail":
        stage = str(ans[1])
        ans = [ans[0]] + ans[2:]
    m_toks = [canon_tok(x) for x in ans[1]] + ([canon_tok(ans[2])] if sk_item else [])
    # (1) parsed tokens
    if m_toks != impl_toks:
        j = next(k for k in range(len(m_toks)) if m_toks[k] != impl_toks[k])
        failures.append({"kind": "corr", "what": "parsed token tree differs from the model",
                         "detail": f"string {(strings + [sketch_text])[j]!r}: library {impl_toks[j]} / model {m_toks[j]}"})
    if stage == "parse":
        if impl_err is None:
            failures.append({"kind": "corr", "what": "model parser raises, library does not", "detail": str(ans[1:3])})
        tags.append("parse-error")
        res["nontrivial"] = True
        return res
    hdr = 3
    m_base = ans[hdr]
    # (2) base automaton: rule table as a set
    ib = sorted(json.dumps([str(P), [[str(a[0]), a[1]] for a in args], [str(d[0]), d[1]]]) for (P, args), d in ibase.rules.items())
    mb = sorted(json.dumps([str(r[0]), [[str(a[0]), int(a[1])] for a in r[1]], [str(r[2][0]), int(r[2][1])]]) for r in m_base)
    if ib != mb:
        diff = sorted(set(ib) ^ set(mb))[:3]
        failures.append({"kind": "corr", "what": "__cfg2dfta__ rule table differs from the model", "detail": f"{len(ib)} vs {len(mb)} rules; e.g. {diff}"})
    if stage is not None:
        if impl_err is None:
            failures.append({"kind": "corr", "what": "model raises, library does not", "detail": f"stage {stage}"})
        tags.append("raises:" + str(impl_err))
        res["nontrivial"] = True
        return res
    m_steps, m_sk, m_final = num(ans[hdr + 2]), num(ans[hdr + 3]), num(ans[hdr + 4])
    m_acc, m_read, m_spec, base_bits, m_thm = [str(x) for x in ans[hdr + 5: hdr + 10]]
    if m_acc != m_thm:
        raise RuntimeError("Lean model's automaton and sharpenSpec over L(cfg2dfta G) disagree (contradicts theorem C05_sharpen)")
    if impl_err is not None:
        failures.append({"kind": "corr", "what": "library raises, model does not", "detail": f"{impl_err}"})
        return res
    # (3) sizes after each step
    if step_err is None:
        if isteps != m_steps:
            failures.append({"kind": "corr", "what": "sizes after a constraint differ from the model", "detail": f"library {isteps} / model {m_steps}"})
        if sk_item and isk != m_sk:
            failures.append({"kind": "corr", "what": "sizes after the sketch differ from the model", "detail": f"library {isk} / model {m_sk}"})
    fin = [len(dfta.rules), len(dfta.states), len(dfta.finals)]
    if fin != m_final:
        failures.append({"kind": "corr", "what": "size of the returned automaton differs from the model", "detail": f"library {fin} / model {m_final}"})
    # (4) model = spec on the model's own parse (theorem C05_sharpen), when the base automaton is exact
    if exact and m_acc != m_spec:
        raise RuntimeError("Lean model and Lean spec disagree although cfg2dftaExact holds (contradicts theorem C05_sharpen)")
    # (5) acceptance / readability of every program
    if i_acc != m_acc:
        k = next(j for j in range(len(progs)) if i_acc[j] != m_acc[j])
        failures.append({"kind": "corr", "what": "acceptance differs from the model" + (" (odd input)" if odd else ""),
                         "detail": f"{tstr(named[k])}: library {i_acc[k]} / model {m_acc[k]}"})
    if i_read != m_read:
        k = next(j for j in range(len(progs)) if i_read[j] != m_read[j])
        failures.append({"kind": "corr", "what": "readability (DFTAFilter.accept) differs from the model", "detail": f"{tstr(named[k])}: library {i_read[k]} / model {m_read[k]}"})
    if odd:
        res["nontrivial"] = i_acc != o_base
    return res
