"""C10, restart part — RestartPBESolver (synth/pbe/solvers/restart_pbe_solver.py) over MetaPBESolver
(pbe_solver.py:132-190), with NaivePBESolver and CutoffPBESolver as sub-solvers.

A case (kind "restart") is a session on ONE RestartPBESolver object and ONE DSLEvaluator: 1-3 consecutive
tasks with optional reset_stats()/clear_cache() between them, run once per sub-solver.  The solver is built
with a restart criterion of the case (`gt k`: len(_data) - _last_size > k, the shape of the default one;
`every m`: _programs % m == 0; `never`; `always`) and a uniform prior.  A task = (examples, enumerator,
clock events, answers):
  enumerator : a REAL enumerator (heap search 70%, beap search, constant-delay search) on a ProbDetGrammar (uniform or random weights) over
               CFG.depth_constraint(dsl, type_request, 2|3), wrapped only to record what is pulled, which
               grammars `clone` receives and what `_data` holds then; the i-th enumerator (after i restarts)
               may be truncated to `limits[i]` programs (so that exhaustion happens at chosen places)
  clock      : scripted `elapsed >= timeout` events as in c10.py; every task has a deadline event at
               iteration `cap` at the latest (the real loop need not terminate: a restart re-enumerates)
impl   : real RestartPBESolver / heap search / DSLEvaluator, in process
model  : PS.C10.solveR (driver op c10.rsession); enumerator i is handed over as the list of the first
         cap+1 programs of the implementation's i-th enumerator built again in the same way; the answer carries the
         Lean specification (segmented enumeration, specYields, sat, verdict, scores)
         PS.C10.RG.restartTags (driver op c10.rgrammar) for the grammar every `_restart_` built
oracle : this file's reading of the English statement (gen.denote only): the segmented enumeration is
         re-derived in Python (scores, data, criterion), the yields are its satisfying programs in order.
Findings (classifiers are decided on the case by the oracle, never on the implementation's output):
  C10-F2  the oracle's run ends because an enumerator's stream ended  (impl: RuntimeError)
  C10-F3  a task is closed after an earlier task of the session (since the last reset_stats) was closed
          with at least one program tested (impl: get_stats('programs') restarts from 0)
"""
import itertools
import json
from fractions import Fraction

from harness import gen as G
from harness.sexp import Sym
from harness import c10 as B

CAPS = {"quick": [4, 8, 14, 24], "thorough": [4, 8, 14, 24, 40, 60]}
TOL = 1e-9


# ------------------------------------------------------------------------------- generation
def gen(rng, i, tier):
    name = rng.choice(["arith", "arith", "lists"])
    spec = G.DSLS[name]
    var_types = [B._tt(t) for t in rng.choice(B.HEAP_TR[name])]
    crit = rng.choice([["gt", 0], ["gt", 1], ["gt", 1], ["gt", 2], ["gt", 3], ["every", 2], ["every", 3], ["every", 5],
                       ["never"], ["never"], ["always"]])
    ops = []
    for j in range(rng.choice([1, 1, 2, 2, 3])):
        if j > 0 and rng.random() < 0.2:
            ops.append(["reset"])
        if j > 0 and rng.random() < 0.2:
            ops.append(["clear"])
        ops.append(["task", gen_task(rng, name, spec, var_types, tier)])
    skips = rng.choice([["ZeroDivisionError", "IndexError"]] * 6 + [["ZeroDivisionError"], ["IndexError"], []])
    return {"kind": "restart", "dsl": name, "var_types": var_types, "use_cache": rng.random() < 0.8, "skips": skips,
            "criterion": crit, "prior": rng.choice(["1/20", "1/20", "1/4", "1", "1/1024"]), "ops": ops}


def gen_task(rng, name, spec, var_types, tier):
    rty = rng.choice(["int", "int", ("list", "int")]) if name == "lists" else "int"
    target = None
    for _ in range(5):
        target = G.random_term(rng, spec, var_types, rty, rng.randint(1, 2), p_leaf=0.4)
        if target is not None:
            break
    if target is None:
        rty, target = "int", ("P", "1")
    nex = rng.choice([0, 1, 1, 2, 2, 3, 3, 4])
    examples = []
    for _ in range(nex):
        inp = [G.random_value(rng, t) for t in var_types]
        ok, out = B._safe_denote(target, spec, inp)
        if not ok or rng.random() < 0.12:
            out = G.random_value(rng, rty)
        examples.append([inp, out])
    cap = rng.choice(CAPS[tier])
    depth = rng.choice([2, 2, 3]) if name == "arith" else 2
    limits = []
    if rng.random() < 0.45:
        limits = [rng.choice([None, None, 0, 1, 2, 3, 5, 8]) for _ in range(rng.randint(1, 4))]
    r = rng.random()
    dl = []
    if r < 0.15:
        dl = [0] * rng.randint(0, cap) + [1]
    elif r < 0.18:
        dl = "real0"
    am = rng.random()
    if am < 0.45:
        answers = ["F"] * (cap + 2)
    elif am < 0.8:
        answers = [rng.choice(["F", "F", "F", "T", "none", "zero", "one", "str", "empty"]) for _ in range(rng.randint(0, 8))]
    else:
        answers = ["F"] * rng.randint(0, 3) + [rng.choice(["T", "one"])] + ["F"] * rng.randint(0, 2)
    return {"examples": examples, "rtype": rty, "depth": depth, "weights": rng.choice(["uniform", "uniform", rng.randint(1, 10 ** 6)]),
            "enumerator": rng.choice(["heap"] * 7 + ["beap", "cd", "cd"]),
            "limits": limits, "cap": cap, "dl": dl, "answers": answers}


def shrink(case):
    ops = case["ops"]
    for j in range(len(ops)):
        if len(ops) > 1:
            c = dict(case); c["ops"] = ops[:j] + ops[j + 1:]
            if any(o[0] == "task" for o in c["ops"]):
                yield c
    for j, op in enumerate(ops):
        if op[0] != "task":
            continue
        t = op[1]

        def with_task(nt):
            c = dict(case); c["ops"] = ops[:j] + [["task", nt]] + ops[j + 1:]
            return c
        if t["cap"] > 2:
            nt = dict(t); nt["cap"] = t["cap"] // 2
            yield with_task(nt)
            nt = dict(t); nt["cap"] = t["cap"] - 1
            yield with_task(nt)
        for k in range(len(t["examples"])):
            nt = dict(t); nt["examples"] = t["examples"][:k] + t["examples"][k + 1:]
            yield with_task(nt)
        for k in range(len(t["answers"])):
            nt = dict(t); nt["answers"] = t["answers"][:k] + t["answers"][k + 1:]
            yield with_task(nt)
        if t["dl"]:
            nt = dict(t); nt["dl"] = []
            yield with_task(nt)
        if t["limits"]:
            nt = dict(t); nt["limits"] = []
            yield with_task(nt)
        if t["weights"] != "uniform":
            nt = dict(t); nt["weights"] = "uniform"
            yield with_task(nt)
        if t["depth"] > 2:
            nt = dict(t); nt["depth"] = 2
            yield with_task(nt)
        if t.get("enumerator", "heap") != "heap":
            nt = dict(t); nt["enumerator"] = "heap"
            yield with_task(nt)
    if case["criterion"] != ["never"]:
        c = dict(case); c["criterion"] = ["never"]
        yield c
    if not case["use_cache"]:
        c = dict(case); c["use_cache"] = True
        yield c


# ------------------------------------------------------------------------------- implementation side
def impl_flags():
    """which of the proposed repairs the implementation under test contains (read from its source); the
    model has a switch for each (Params.fixNext, Params.fixStats)"""
    import inspect
    from synth.pbe.solvers.pbe_solver import MetaPBESolver
    from synth.pbe.solvers.restart_pbe_solver import RestartPBESolver
    src = inspect.getsource(RestartPBESolver.solve)
    fix_next = src.count("next(gen, None)") >= 2
    msrc = inspect.getsource(MetaPBESolver)
    fix_stats = "_sub_stat_names" in msrc
    return fix_next, fix_stats


def criterion_fn(crit):
    if crit[0] == "gt":
        return lambda self: len(self._data) - self._last_size > crit[1]
    if crit[0] == "every":
        return lambda self: self._programs % crit[1] == 0
    if crit[0] == "never":
        return lambda self: False
    return lambda self: True


def _wrapped_class():
    from synth.syntax.grammars.enumeration.program_enumerator import ProgramEnumerator

    class Wrapped(ProgramEnumerator):
        """the real enumerator, recording what is pulled from it and what `clone` is called with"""

        def __init__(self, inner, reg, limits, solver):
            super().__init__(None)
            self.inner, self.reg, self.limits, self.solver = inner, reg, limits, solver
            self.idx = len(reg["enums"])
            reg["enums"].append(self)
            self.pulled = []

        @classmethod
        def name(cls):
            return "wrapped"

        @property
        def G(self):
            return self.inner.G

        def limit(self):
            return self.limits[self.idx] if self.idx < len(self.limits) else None

        def generator(self):
            src = self.inner.generator()
            if self.limit() is not None:
                src = itertools.islice(src, self.limit())
            for p in src:
                self.pulled.append(p)
                yield p

        def programs_in_banks(self):
            return self.inner.programs_in_banks()

        def programs_in_queues(self):
            return self.inner.programs_in_queues()

        def probability(self, p):
            return self.inner.probability(p)

        def clone(self, grammar):
            s = self.solver
            self.reg["snaps"].append({"from": self.idx, "data": [(p, float(sc)) for p, sc in s._data], "last_size": s._last_size,
                                      "restarts": s._restarts, "old": self.inner.G, "new": grammar})
            return Wrapped(self.inner.clone(grammar), self.reg, self.limits, s)
    return Wrapped


def _pcfg(dsl, var_types, t):
    from synth.syntax import auto_type
    from synth.syntax.grammars.cfg import CFG
    from synth.syntax.grammars.tagged_det_grammar import ProbDetGrammar
    tr = auto_type(G.ty_str(G.arrow(*var_types, B._tt(t["rtype"]))))
    cfg = CFG.depth_constraint(dsl, tr, t["depth"])
    if t["weights"] == "uniform":
        return ProbDetGrammar.uniform(cfg)
    return ProbDetGrammar.random(cfg, seed=int(t["weights"]))


def _status(g, t, solver, yielded, at_yield):
    try:
        p = next(g)
        yielded.append(G.term_str(B.from_repo_program(p))); at_yield.append([solver._programs, float(solver.subsolver._score)])
        for a in t["answers"]:
            p = g.send(B.ANSWERS[a][0])
            yielded.append(G.term_str(B.from_repo_program(p))); at_yield.append([solver._programs, float(solver.subsolver._score)])
        g.close()
        return "suspended"
    except StopIteration:
        return "finished"
    except RuntimeError as e:
        return "raised:RuntimeError" if "StopIteration" in str(e) else "raised:RuntimeError(" + str(e)[:40] + ")"
    except Exception as e:  # noqa: the class is the observable
        return "raised:" + type(e).__name__


def run_impl(kind, case, ctx):
    from synth.semantic.evaluator import DSLEvaluator
    from synth.specification import PBE, Example
    from synth.task import Task
    from synth.pbe.solvers import NaivePBESolver, CutoffPBESolver
    from synth.pbe.solvers.restart_pbe_solver import RestartPBESolver
    from synth.syntax.grammars.enumeration import heap_search, beap_search, constant_delay
    from synth.syntax import auto_type
    mods = {"heap": heap_search, "beap": beap_search, "cd": constant_delay}
    Wrapped = _wrapped_class()
    ev = DSLEvaluator(ctx["sem"], use_cache=case["use_cache"])
    for s in case["skips"]:
        ev.skip_exceptions.add(B.EXC[s])
    solver = RestartPBESolver(ev, NaivePBESolver if kind == "naive" else CutoffPBESolver,
                              restart_criterion=criterion_fn(case["criterion"]), uniform_prior=float(Fraction(case["prior"])))
    obs = []
    for op in case["ops"]:
        if op[0] == "reset":
            solver.reset_stats(); obs.append(None); continue
        if op[0] == "clear":
            ev.clear_cache(); obs.append(None); continue
        t = op[1]
        reg = {"enums": [], "snaps": []}
        def factory(t=t):
            return mods[t.get("enumerator", "heap")].enumerate_prob_grammar(_pcfg(ctx["dsl"], ctx["var_types"], t))
        enum = Wrapped(factory(), reg, t["limits"], solver)
        tr = auto_type(G.ty_str(G.arrow(*ctx["var_types"], "int")))
        task = Task(tr, PBE([Example(list(i), o) for i, o in t["examples"]]))
        timeout = 0.0 if t["dl"] == "real0" else B.Deadline(full_dl(t))
        before = dict(solver._stats)
        sub_before = dict(solver.subsolver._stats)
        yielded, at_yield = [], []
        status = _status(solver.solve(task, enum, timeout), t, solver, yielded, at_yield)
        # the stream of every enumerator the implementation created, from a fresh clone of it
        K = t["cap"] + 1
        lists, probs = [], []
        for w in reg["enums"]:
            # built again the way the implementation built it: the first one by enumerate_prob_grammar, the i-th one
            # by the clone of its predecessor with the grammar _restart_ passed (clone does not keep every
            # constructor parameter, e.g. CDSearch.clone drops k: `inner.clone(inner.G)` would be another enumerator)
            if w.idx == 0:
                fresh = factory()
            else:
                snap = reg["snaps"][w.idx - 1]
                fresh = reg["enums"][snap["from"]].inner.clone(snap["new"])
            n = K if w.limit() is None else min(K, w.limit())
            progs = list(itertools.islice(fresh.generator(), n))
            strs = [G.term_str(B.from_repo_program(p)) for p in progs]
            pulled = [G.term_str(B.from_repo_program(p)) for p in w.pulled]
            if pulled != strs[:len(pulled)]:
                raise RuntimeError("an enumerator did not produce the sequence of an enumerator built again in the same way (assumption: enumeration is deterministic)")
            lists.append({"progs": progs, "terms": [B.from_repo_program(p) for p in progs], "strs": strs, "pulled": len(pulled)})
            probs.append(w.inner)
        sc = getattr(solver, "_score", None)
        ssc = getattr(solver.subsolver, "_score", None)
        obs.append({"yielded": yielded, "at_yield": at_yield, "status": status, "stats": dict(solver._stats), "before": before,
                    "sub_stats": dict(solver.subsolver._stats), "sub_before": sub_before,
                    "_programs": solver._programs, "sub_programs": solver.subsolver._programs,
                    "score": None if sc is None else float(sc), "sub_score": None if ssc is None else float(ssc),
                    "_restarts": solver._restarts, "_last_size": solver._last_size,
                    "data": [[G.term_str(B.from_repo_program(p)), float(s)] for p, s in solver._data],
                    "lists": lists, "snaps": reg["snaps"], "enums": probs})
    return obs


def full_dl(t):
    """the clock script: the case's events, and a deadline at iteration `cap` at the latest"""
    if t["dl"] == "real0":
        return [1]
    dl = [int(bool(x)) for x in t["dl"]][:t["cap"] + 1]
    if 1 not in dl:
        dl = dl + [0] * (t["cap"] - len(dl)) + [1]
    return dl


# ------------------------------------------------------------------------------- oracle (English statement)
def oracle_task(kind, t, lists, crit, spec, skips):
    """Re-derives the segmented enumeration and the expected run.  `lists[i]` = terms of the i-th enumerator.
    -> consumed programs (enumerator, position, term), expected yields, end, rank, restarts"""
    def outcome(term, inp, out):
        try:
            v = G.denote(term, spec, inp)
        except Exception as e:  # noqa
            return "nomatch" if type(e).__name__ in skips else "raise:" + type(e).__name__
        return "match" if G.canon_value(v) == G.canon_value(out) and not callable(v) else "nomatch"
    dl = full_dl(t)
    truth = [B.ANSWERS[a][1] for a in t["answers"]]
    n = len(t["examples"])
    en, pos, k = 0, 0, 0
    data, last_size, restarts, tested = [], 0, 0, 0
    consumed, exp, idxs, snaps = [], [], [], []
    end, rank = None, None
    it = 0
    while end is None:
        if en >= len(lists):
            end = "unknown-enumerator"; break           # the implementation never built this enumerator
        if pos >= len(lists[en]["terms"]):
            # the stream ended — or it was only materialised up to cap+1 programs, which cannot be reached
            end = "exhausted"; break
        term = lists[en]["terms"][pos]
        consumed.append((en, pos, lists[en]["strs"][pos]))
        if it < len(dl) and dl[it]:
            end = "timeout"; break
        it += 1
        tested += 1
        outs = [outcome(term, inp, out) for inp, out in t["examples"]]
        if kind == "cutoff":
            cut = next((j for j, o in enumerate(outs) if o != "match"), None)
            if cut is not None:
                outs = outs[:cut + 1]
        r = next((o for o in outs if o.startswith("raise:")), None)
        if r is not None:
            end = "raised:" + r[6:]; break
        ok = all(o == "match" for o in outs)
        if kind == "naive":
            score = Fraction(sum(1 for o in outs if o == "match"), n) if n else Fraction(1)
        else:
            score = Fraction(1) if ok else Fraction(len(outs) - 1, n)
        if ok:
            exp.append(lists[en]["strs"][pos]); idxs.append(tested)
            if k >= len(truth):
                end = "suspended"; break
            a = truth[k]; k += 1
            if a:
                end = "accepted"; rank = tested; break
        if score > 0:
            data.append((lists[en]["strs"][pos], score))
        pos += 1
        fire = {"gt": lambda: len(data) - last_size > crit[1], "every": lambda: tested % crit[1] == 0,
                "never": lambda: False, "always": lambda: True}[crit[0]]()
        if fire:
            restarts += 1; last_size = len(data); en += 1; pos = 0
            snaps.append(list(data))
    return {"snaps": snaps, "consumed": consumed, "yields": exp, "idxs": idxs, "end": end, "rank": rank, "restarts": restarts,
            "tested": tested, "data": data, "last_size": last_size}


# ------------------------------------------------------------------------------- wire
def _grammar_wire(snap, model_data, prior):
    from harness import c04
    sn, tn = c04.Names("s"), c04.Names("t")
    g = snap["old"].grammar
    from harness import wire as W
    data = [[W.prog_wire(p), f"{sc.numerator}/{sc.denominator}"] for (p, _), sc in zip(snap["data"], model_data)]
    return [Sym("c10.rgrammar"), c04.tt_wire_grammar(g, sn, tn), c04.tags_wire(snap["old"].probabilities, sn, tn),
            data, prior], (sn, tn)


# ------------------------------------------------------------------------------- check
def check(case, M):
    dsl, semt, spec = G.make_dsl(case["dsl"])
    var_types = [B._tt(t) for t in case["var_types"]]
    skips = list(case["skips"])
    crit = list(case["criterion"])
    ctx = {"sem": semt, "var_types": var_types, "dsl": dsl}
    fix_next, fix_stats = impl_flags()
    failures = []
    tags = set(["kind.restart", f"dsl.{case['dsl']}", f"skips{len(skips)}", "cache-on" if case["use_cache"] else "cache-off",
                f"tasks{sum(1 for o in case['ops'] if o[0] == 'task')}", "criterion." + crit[0], "prior." + case["prior"]])
    if fix_next:
        tags.add("impl-has-C10-F2-repair")
    if fix_stats:
        tags.add("impl-has-C10-F3-repair")
    nontrivial = False
    summary = []
    key_tasks = None
    for kind in B.KINDS:
        impl = run_impl(kind, case, ctx)
        wire_ops = []
        for op, ob in zip(case["ops"], impl):
            if op[0] != "task":
                wire_ops.append([Sym(op[0])]); continue
            t = op[1]
            wire_ops.append([Sym("task"), [[B.wire_term(x) for x in l["terms"]] for l in ob["lists"]],
                             [[[B.wire_val(v) for v in inp], B.wire_val(out)] for inp, out in t["examples"]],
                             [bool(x) for x in full_dl(t)], [B.ANSWERS[a][1] for a in t["answers"]],
                             [Sym(crit[0])] + crit[1:], t["cap"] + 5])
        ans = M.ask([Sym("c10.rsession"), Sym(kind), case["use_cache"], skips, fix_next, fix_stats, wire_ops])
        exp_stats = 0            # what the statement makes get_stats('programs') after the tasks so far
        exp_restarts = 0
        closed_before = False    # classifier of C10-F3
        want_pp = 0
        closes_self = closes_sub = 0
        for j, (op, ob, a) in enumerate(zip(case["ops"], impl, ans)):
            if op[0] != "task":
                if op[0] == "reset":
                    exp_stats, exp_restarts, closed_before, want_pp, closes_self, closes_sub = 0, 0, False, 0, 0, 0
                continue
            t = op[1]
            (_, m_y, m_status, m_self, m_sub, m_sr, m_r, m_data, m_ls, s_es, s_ent, s_y, s_sat, s_vd, s_h, s_sc) = a
            m_y, s_y, s_es = [str(x) for x in m_y], [str(x) for x in s_y], [str(x) for x in s_es]
            m_end = "suspended" if m_status[0] == "suspended" else "outOfFuel" if m_status[0] == "outOfFuel" else \
                ("raised:" + m_status[2] if m_status[1] == "raised" else m_status[1])
            m_st = {"accepted": "finished", "timeout": "finished", "exhausted": "finished", "stopIteration": "raised:RuntimeError"}.get(m_end, m_end)
            want = oracle_task(kind, t, ob["lists"], crit, spec, skips)
            where = f"restart solver over {kind}, operation #{j}"
            strs_of = {}
            for l in ob["lists"]:
                for s_, term in zip(l["strs"], l["terms"]):
                    strs_of[s_] = term
            # --- Lean specification against the independent oracle; model against specification (theorems)
            if want["end"] != "unknown-enumerator":
                cons = [c[2] for c in want["consumed"]]
                if s_es[:len(cons)] != cons:
                    raise RuntimeError(f"Lean segmented enumeration and harness oracle disagree: {s_es} vs {cons}")
                if [[int(e[0]), int(e[1])] for e in s_ent][:len(cons)] != [[c[0], c[1]] for c in want["consumed"]]:
                    raise RuntimeError("Lean segmented enumeration and harness oracle disagree on the segments")
                if s_y != want["yields"]:
                    raise RuntimeError(f"Lean spec and harness oracle disagree on the yielded programs: {s_y} vs {want['yields']}")
                if m_y != s_y:
                    raise RuntimeError(f"model yields differ from Lean spec (contradicts theorem C10_restart_yields): {m_y} vs {s_y}")
                o_end = want["end"]
                if o_end == "exhausted":
                    o_end = "exhausted" if fix_next else "stopIteration"
                if m_end != o_end:
                    raise RuntimeError(f"model status {m_end} differs from oracle {want['end']}")
                if [x == "1" for x in s_sat][:len(cons)] != [B.all_sat(strs_of[x], t, spec, skips) for x in cons]:
                    raise RuntimeError("Lean spec and harness oracle disagree on which programs satisfy the examples")
                if int(m_r) != want["restarts"]:
                    raise RuntimeError(f"model restarts {m_r} differ from the oracle's {want['restarts']}")
            # --- the property on the implementation
            closes = want["end"] in ("accepted", "timeout")
            f3_region = closes and closed_before and not fix_stats
            f2_region = want["end"] == "exhausted" and not fix_next
            bad = [y for y in ob["yielded"] if y in strs_of and not B.all_sat(strs_of[y], t, spec, skips)]
            got_cons = [s_ for l in ob["lists"] for s_ in l["strs"][:l["pulled"]]]
            if bad:
                failures.append({"kind": "oracle", "what": "a yielded program fails an example",
                                 "detail": f"{where}: yielded {bad[0]} which does not satisfy the examples {t['examples']}"})
            elif want["end"] == "unknown-enumerator":
                failures.append({"kind": "corr", "what": "the implementation restarted less often than the criterion says",
                                 "detail": f"{where}: the oracle's run needs enumerator #{len(ob['lists'])}, the implementation built {len(ob['lists'])}; pulled {got_cons}"})
            elif ob["yielded"] != want["yields"]:
                what = "a program satisfying every example was skipped" if B._is_subseq(ob["yielded"], want["yields"]) and len(ob["yielded"]) < len(want["yields"]) and ob["status"] != "suspended" \
                    else "yielded programs are not the satisfying programs of the segmented enumeration in order up to the first accepted one"
                failures.append({"kind": "oracle", "what": what,
                                 "detail": f"{where}: impl yielded {ob['yielded']} expected {want['yields']} (criterion {crit}, answers {t['answers']}, deadline {t['dl']}, cap {t['cap']})"})
            elif want["rank"] is not None and ob["stats"]["programs"] - ob["before"]["programs"] != want["rank"]:
                f = {"kind": "oracle", "what": "stats 'programs' increment is not the rank of the accepted solution in the segmented enumeration",
                     "detail": f"{where}: accepted {want['yields'][-1]} of rank {want['rank']}, get_stats('programs') went from {ob['before']['programs']} to {ob['stats']['programs']}"}
                if f3_region:
                    f["finding"] = "C10-F3"
                failures.append(f)
            if want["end"] not in ("unknown-enumerator",):
                exp_status = {"accepted": "finished", "timeout": "finished", "exhausted": "finished", "suspended": "suspended"}.get(want["end"], want["end"])
                if ob["status"] != exp_status:
                    f = {"kind": "oracle", "what": "the generator does not end as the protocol says (True/timeout/exhaustion end it normally, an evaluator exception propagates)",
                         "detail": f"{where}: impl {ob['status']}, expected {exp_status} (oracle end: {want['end']})"}
                    if f2_region and ob["status"] == "raised:RuntimeError":
                        f["finding"] = "C10-F2"
                    failures.append(f)
                if got_cons != [c[2] for c in want["consumed"]] and ob["yielded"] == want["yields"] and ob["status"] == m_st:
                    failures.append({"kind": "corr", "what": "programs pulled from the enumerators are not the segmented enumeration",
                                     "detail": f"{where}: pulled {got_cons} expected {[c[2] for c in want['consumed']]}"})
                if closes and ob["stats"]["restarts"] - ob["before"]["restarts"] != want["restarts"]:
                    failures.append({"kind": "oracle", "what": "stats 'restarts' did not grow by the number of restarts",
                                     "detail": f"{where}: {want['restarts']} restarts, get_stats('restarts') went from {ob['before']['restarts']} to {ob['stats']['restarts']}"})
            # --- correspondence with the model
            m_sp, m_last, m_closes, m_progs, m_score = m_self
            u_sp, u_last, u_closes, u_progs, u_score = m_sub

            def corr(what, detail, finding=None):
                f = {"kind": "corr", "what": what, "detail": f"{where}: {detail}"}
                if finding:
                    f["finding"] = finding
                failures.append(f)
            if ob["status"] != m_st:
                corr("generator end state differs from the model", f"impl {ob['status']} model {m_end}")
            if ob["stats"]["programs"] != int(m_sp):
                corr("get_stats('programs') differs from the model", f"impl {ob['stats']['programs']} model {m_sp} (model end {m_end})")
            if ob["sub_stats"]["programs"] != int(u_sp):
                corr("the sub-solver's stats 'programs' differ from the model", f"impl {ob['sub_stats']['programs']} model {u_sp}")
            if ob["stats"]["restarts"] != int(m_sr):
                corr("get_stats('restarts') differs from the model", f"impl {ob['stats']['restarts']} model {m_sr}")
            if (ob["_programs"], ob["sub_programs"], ob["_restarts"], ob["_last_size"]) != (int(m_progs), int(u_progs), int(m_r), int(m_ls)):
                corr("_programs / sub-solver _programs / _restarts / _last_size differ from the model",
                     f"impl {(ob['_programs'], ob['sub_programs'], ob['_restarts'], ob['_last_size'])} model {(m_progs, u_progs, m_r, m_ls)}")
            md = [[str(d[0]), Fraction(int(d[1]), int(d[2]))] for d in m_data]
            if [d[0] for d in ob["data"]] != [d[0] for d in md] or any(abs(x[1] - float(y[1])) > TOL for x, y in zip(ob["data"], md)):
                corr("_data differs from the model", f"impl {ob['data']} model {[(d[0], str(d[1])) for d in md]}")

            def fl(s):
                return None if s[0] == "none" else int(s[0]) / int(s[1])
            for nm, iv, mv in (("_score", ob["score"], fl(m_score)), ("sub-solver _score", ob["sub_score"], fl(u_score))):
                if (iv is None) != (mv is None) or (iv is not None and abs(iv - mv) > TOL):
                    corr(f"{nm} differs from the model", f"impl {iv} model {mv}")
            if ob["yielded"] == want["yields"] and ob["at_yield"] != [[i, 1.0] for i in want["idxs"]]:
                corr("(_programs, sub-solver _score) at a yield is not (rank of the yielded program, 1)",
                     f"impl {ob['at_yield']} expected {[[i, 1.0] for i in want['idxs']]}")
            # 'program_probability': of the model's last program, in the enumerator in use when the task was closed
            if int(m_closes) != closes_self and m_last[0] != "none" and int(m_r) < len(ob["enums"]) and str(m_last[1]) in strs_of:
                by = {s_: p for l in ob["lists"] for s_, p in zip(l["strs"], l["progs"])}
                want_pp = ob["enums"][int(m_r)].probability(by[str(m_last[1])])
            if ob["stats"]["program_probability"] != want_pp:
                corr("stats 'program_probability' is not that of the model's last program in the current enumerator",
                     f"impl {ob['stats']['program_probability']} expected {want_pp}")
            # 'time': number of summands (the model counts them); the implementation adds time_used to the sub-solver's value
            if int(m_closes) != closes_self:
                used = ob["sub_stats"]["time"] - ob["sub_before"]["time"]
                base = ob["before"]["time"] if fix_stats else ob["sub_stats"]["time"]
                if abs(ob["stats"]["time"] - (base + used)) > 1e-6:
                    corr("stats 'time' is not what MetaPBESolver._close_task_solving_ computes in the model",
                         f"impl {ob['stats']['time']} expected {base + used}")
            closes_self, closes_sub = int(m_closes), int(u_closes)
            # --- every `_restart_`: `_data` then, and the grammar it built
            ents = [[int(x) for x in e] for e in s_ent]
            if want["end"] != "unknown-enumerator":
                # model against oracle: `_data` at the end, and at every segment start that has an entry
                if [(d[0], d[1]) for d in md] != [(d[0], d[1]) for d in want["data"]] and want["end"] not in ("accepted", "suspended") \
                        and not want["end"].startswith("raised"):
                    raise RuntimeError(f"model _data {md} differs from the oracle's {want['data']}")
                for i, e in enumerate(ents[:len(want["consumed"])]):
                    if e[1] == 0 and i > 0 and e[3] - 1 < len(want["snaps"]) and e[2] != len(want["snaps"][e[3] - 1]):
                        raise RuntimeError("model: len(_data) at a segment start differs from the oracle's")
            for si, snap in enumerate(ob["snaps"]):
                if si >= len(want["snaps"]):
                    corr("the implementation restarted more often than the criterion says", f"restart #{si + 1} is not in the oracle's run")
                    break
                pos_sc = want["snaps"][si]
                nd = len(pos_sc)
                impl_d = [(G.term_str(B.from_repo_program(p)), sc) for p, sc in snap["data"]]
                if [d[0] for d in impl_d] != [d[0] for d in pos_sc] or any(abs(a_[1] - float(b_[1])) > TOL for a_, b_ in zip(impl_d, pos_sc)):
                    corr("_data at a restart differs from the model", f"restart #{si + 1}: impl {impl_d} model {[(d[0], str(d[1])) for d in pos_sc]}")
                    continue
                if snap["last_size"] != nd or snap["restarts"] != si + 1:
                    corr("_last_size/_restarts at a restart differ from the model", f"restart #{si + 1}: impl {(snap['last_size'], snap['restarts'])} model {(nd, si + 1)}")
                if si >= 3 and si != len(ob["snaps"]) - 1:
                    continue            # the grammar is compared for the first three restarts and the last one of a task
                req, (sn, tn) = _grammar_wire(snap, [d[1] for d in pos_sc], case["prior"])
                ga = M.ask(req)
                if ga[0] != "ok":
                    corr("_restart_ built a grammar where the model raises", f"restart #{si + 1}")
                    continue
                from harness import c04
                want_t = _tbl(ga[1])
                got_t = _tbl(c04.tags_wire(snap["new"].probabilities, sn, tn, conv=lambda w: repr(float(w))))
                diff = _table_diff(got_t, want_t)
                if diff:
                    corr("the grammar built by _restart_ differs from the model", f"restart #{si + 1}: {diff}")
                if ga[2]:
                    sdiff = _table_diff(_tbl(ga[2]), want_t)
                    if sdiff:
                        raise RuntimeError(f"model restartTags differs from the Lean specification specWeight: {sdiff}")
                bads = _not_distribution(got_t)
                if bads:
                    failures.append({"kind": "oracle", "what": "the grammar built by _restart_ is not a probability distribution with full support",
                                     "detail": f"{where}: restart #{si + 1}: {bads}"})
                tags.add("restart-grammar-compared")
            # --- bookkeeping of the expectations
            if closes:
                exp_stats += want["tested"]
                if want["tested"] > 0:
                    closed_before = True
            # --- histogram
            tags.add("end." + str(want["end"]).split(":")[0])
            tags.add(f"examples{len(t['examples'])}")
            tags.add("enumerator." + t.get("enumerator", "heap"))
            tags.add(f"restarts{min(want['restarts'], 4)}{'+' if want['restarts'] >= 4 else ''}")
            if t["limits"]:
                tags.add("truncated-enumerators")
            if t["dl"]:
                tags.add("deadline-real0" if t["dl"] == "real0" else "deadline-event")
            if len(want["yields"]) >= 2:
                tags.add("resumed-after-False")
            if want["restarts"] and len(want["yields"]) >= 1 and any(c[0] > 0 for c in want["consumed"][want["idxs"][-1] - 1:want["idxs"][-1]]):
                tags.add("yield-after-restart")
            if f2_region:
                tags.add("region.C10-F2")
            if f3_region:
                tags.add("region.C10-F3")
            if any(0 < d[1] < 1 for d in want["data"]):
                tags.add("partial-score")
            if t["examples"] and want["restarts"] >= 1 and want["tested"] >= 3 and t["answers"]:
                nontrivial = True
            if kind == "cutoff":
                summary.append({"criterion": crit, "examples": t["examples"], "answers": t["answers"][:6], "deadline": t["dl"], "cap": t["cap"],
                                "segments": [[c[0], c[2]] for c in want["consumed"]][:10], "yielded": want["yields"][:6],
                                "end": want["end"], "restarts": want["restarts"]})
        if kind == "cutoff":
            key_tasks = [[o[0]] if o[0] != "task" else [[l["strs"] for l in ob["lists"]], o[1]["examples"], o[1]["dl"], o[1]["answers"], o[1]["cap"]]
                         for o, ob in zip(case["ops"], impl)]
    if any(o[0] == "reset" for o in case["ops"]):
        tags.add("has-reset_stats")
    if any(o[0] == "clear" for o in case["ops"]):
        tags.add("has-clear_cache")
    key = json.dumps(["restart", case["dsl"], case["var_types"], case["use_cache"], skips, crit, case["prior"], key_tasks])
    return {"key": key, "nontrivial": nontrivial, "tags": sorted(tags), "failures": failures,
            "sample": {"kind": "restart", "dsl": case["dsl"], "skips": skips, "use_cache": case["use_cache"], "tasks": summary[:3]}}


def _num(w):
    w = str(w)
    return float(Fraction(w)) if "/" in w else float(w)


def _tbl(entries):
    """wire tags (from the driver's answer or from c04.tags_wire) -> {(nt, sym): weight}"""
    from harness import c04
    return {(json.dumps(c04._plain(nt)), json.dumps(c04._plain(r[0]))): _num(r[1]) for nt, row in entries for r in row}


def _table_diff(got, want):
    if set(got) != set(want):
        return f"different rule sets: only first {sorted(set(got) - set(want))[:3]} only second {sorted(set(want) - set(got))[:3]}"
    for k in got:
        if abs(got[k] - want[k]) > 1e-9 * max(1.0, abs(want[k])):
            return f"weight of {k}: {got[k]} vs {want[k]}"
    return None


def _not_distribution(tbl):
    rows = {}
    for (nt, _), w in tbl.items():
        rows.setdefault(nt, []).append(w)
    for nt, ws in rows.items():
        if abs(sum(ws) - 1) > 1e-9:
            return f"weights of {nt} sum to {sum(ws)}"
        if any(w <= 0 for w in ws):
            return f"a rule of {nt} has weight {min(ws)}"
    return None


def corpus():
    exs = [[[0], 1], [[1], 2]]
    base = {"kind": "restart", "dsl": "arith", "var_types": ["int"], "use_cache": True, "skips": ["ZeroDivisionError", "IndexError"],
            "prior": "1/20"}

    def task(**kw):
        t = {"examples": exs, "rtype": "int", "depth": 2, "weights": "uniform", "limits": [], "cap": 12, "dl": [], "answers": ["F"] * 14}
        t.update(kw)
        return ["task", t]
    return [
        # C10-F2: an enumerator truncated to 3 programs, no restart: exhausted without an accepted solution
        dict(base, criterion=["never"], ops=[task(limits=[3])]),
        # C10-F2 after a restart: the second enumerator is empty
        dict(base, criterion=["gt", 0], ops=[task(limits=[None, 0])]),
        # C10-F3: two accepted tasks on one solver
        dict(base, criterion=["gt", 1], ops=[task(answers=["T"]), task(answers=["F", "T"])]),
        # restarts after every second program; refuse everything up to the cap; then reset_stats and a time-out
        dict(base, criterion=["every", 2], ops=[task(), ["reset"], task(dl=[0, 0, 0, 1])]),
        # a criterion that never fires: the restart solver is its sub-solver
        dict(base, criterion=["never"], ops=[task(cap=24, answers=["F", "one"])]),
    ]
