"""C03, part bee — bee search yields programs by non-decreasing integer cost at the requested discretisation
(cost of a program = sum over the rules of its derivation of int(-log p * 10**threshold)); consequently once a
program of cost c has been produced every program of strictly smaller cost has been produced (finite and
recursive grammars, every prefix).

oracle : integer cost of every program by walking / expanding the rule table (harness/enumbee.py); on
         recursive grammars (CFG.infinite) prefix completeness against a brute-force expansion bounded by cost
"""
from harness import enumbee as B
from harness import enumhs as E

CASE_TIMEOUT = {"quick": 150, "thorough": 600}


def gen(rng, i, tier):
    if i % 4 == 3:
        return B.gen_rec(rng, tier)
    c = B.gen_case(rng, i, tier)
    if rng.random() < 0.3:
        c["prefix"] = rng.choice([1, 2, 3, 5, 8, 13, 30, 100])     # stop early: every prefix length
    return c


def shrink(case):
    return B.shrink_case(case)


def check(case, M):
    tier = case.get("tier", "quick")
    r = B.run_case(case, M, tier)
    if "trivial" in r:
        return {"key": B.key_of(case), "nontrivial": False, "tags": ["trivial:" + r["trivial"]], "failures": []}
    failures = []
    fid = B.FINDING_IDS["C03"]["zero"] if r["zero"] else None

    def fail(kind, what, detail):
        f = {"kind": kind, "what": what, "detail": detail}
        if fid:
            f["finding"] = fid
        failures.append(f)
    for what, detail in r["corr"]:
        failures.append({"kind": "corr", "what": what, "detail": detail})
    for d in r["disc"][:1]:
        failures.append({"kind": "oracle", "what": "the integer cost of a rule is not int(-log p * 10**threshold)", "detail": d})
    ys = B.flat(r["steps"])
    Y = [B.show(p) for p in ys]
    seq = B.costs_of_yielded(r)
    complete = None
    if r["err"] is not None:
        fail("oracle", "the enumerator raises instead of enumerating", r["err"])
    elif any(c is None for c in seq):
        fail("oracle", "a program outside the language is yielded", str([y for y, c in zip(Y, seq) if c is None][:3]))
    else:
        bad = next((k for k in range(1, len(seq)) if seq[k] < seq[k - 1]), None)
        if bad is not None:
            fail("oracle", "a program is yielded after a more expensive (less probable) one", f"position {bad}: {Y[bad]} ({seq[bad]}) after {Y[bad-1]} ({seq[bad-1]})")
        if len(Y) != len(set(Y)):
            fail("oracle", "a program is yielded twice", "")
        if case["family"] == "rec" and len(ys) < r.get("prefix", 0) and not r["cut"]:
            fail("oracle", "the generator stops although the language is infinite", f"after {len(ys)} programs")
        if seq:
            last = max(seq)
            try:
                if r["lang"] is not None:
                    owed = {B.show(p) for p, c in r["lang"] if c < last}
                elif not r["zero"]:
                    owed = {B.show(p) for p, c in B.below(r["g"], r["cost"], r["g"].start, last - 1, 60000)}
                else:
                    owed = None
                if owed is not None:
                    miss = sorted(owed - set(Y))
                    if miss:
                        fail("oracle", "a strictly cheaper (more probable) program was not yielded before", f"{len(miss)} e.g. {miss[:3]} (< {last})")
                    complete = not miss
            except E.TooLarge:
                complete = None
    tags = B.base_tags(case, r)
    if case.get("prefix"):
        tags.append("prefix")
    if complete is not None:
        tags.append("prefix-complete" if complete else "prefix-incomplete")
    elif seq:
        tags.append("prefix-completeness-not-checked")
    if r["lang"] is not None:
        ties, ncost = B.ntie_groups(r["lang"])
        nontrivial = len(r["lang"]) >= 10 and ncost >= 2 and ties >= 1 and len(ys) >= 2
        if ties:
            tags.append("ties")
    else:
        nontrivial = len(ys) >= 3 and len(set(seq)) >= 2
    return {"key": B.key_of(case), "nontrivial": nontrivial, "tags": tags, "failures": failures, "sample": B.sample_of(case, r)}


def corpus():
    return [
        # prefix completeness lost through a zero-cost rule with arguments (C03-F8 = C02-F6 seen on a prefix)
        {"family": "fin", "build": {"src": "prims", "prims": B.CHAIN_DSLS[1], "forbidden": [], "request": "bool", "kind": "cfg", "max_depth": 4, "min_var": 1, "n_gram": 2},
         "order": "reversed", "oseed": 0, "costs": {"mode": "int", "kind": "zero-any", "cseed": 11}, "filter": None, "merges": [], "prefix": 13, "fseed": None},
        {"family": "rec", "dsl": 0, "n_gram": 1, "order": "built", "oseed": 0, "costs": {"mode": "prob", "weights": "dyadic", "wseed": 4, "threshold": 1},
         "filter": None, "merges": [], "prefix": 60, "fseed": None},
    ]
