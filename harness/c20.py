"""C20 — filter combinators and the observational-equivalence filter.

Case kinds
  expr : a random expression over user filters written with & | - (both association orders,
         nesting up to 5), evaluated on several objects.  impl = the real Filter classes,
         model = PS.C20.build/accept, oracle = direct evaluation of the Boolean expression.
  obseq: a DSL with (partial) semantics, reference inputs, a sequence of programs with
         repetitions presented to a real ObsEqFilter over a real DSLEvaluator.
         model = PS.C20.run, spec = PS.C20.specRun, the outputs sent to the model are
         computed by the harness' own evaluator (G.denote), not by the implementation.
  leaves: an expression over the library's REAL leaf filters (SetFilter, FunctionFilter,
         UseAllVariablesFilter on (type request, program) pairs; LocalStatelessFilter on programs)
         evaluated on generated programs.  Each leaf's verdict is recomputed by the harness from
         the class's documented meaning; the combination is checked against the Boolean
         connectives and against the Lean model of the combinators (same `c20.expr` request, the
         object being the vector of leaf verdicts); reject = not accept for every class.
"""
import json

from harness import gen as G
from harness.sexp import Sym, dump

CASE_TIMEOUT = {"quick": 30, "thorough": 60}


# ------------------------------------------------------------------ generation
def gen_expr(rng, depth, natoms):
    if depth <= 0 or rng.random() < 0.2:
        return ["a", rng.randrange(natoms)]
    k = rng.random()
    if k < 0.4:
        return ["and", gen_expr(rng, depth - 1, natoms), gen_expr(rng, depth - 1, natoms)]
    if k < 0.8:
        return ["or", gen_expr(rng, depth - 1, natoms), gen_expr(rng, depth - 1, natoms)]
    return ["neg", gen_expr(rng, depth - 1, natoms)]


def gen(rng, i, tier):
    if i % 5 == 4:
        return gen_leaves(rng)
    if i % 2 == 0:
        natoms = rng.randint(1, 5)
        e = gen_expr(rng, rng.randint(1, 5), natoms)
        objs = [[rng.random() < 0.5 for _ in range(natoms)] for _ in range(rng.randint(1, 6))]
        return {"kind": "expr", "expr": e, "objs": objs}
    name = rng.choice(["arith", "lists"])
    spec = G.DSLS[name]
    nargs = rng.randint(1, 2)
    var_types = [rng.choice(["int", ("list", "int")] if name == "lists" else ["int"]) for _ in range(nargs)]
    ninputs = rng.choice([0, 1, 1, 2, 3, 4])
    inputs = [[G.random_value(rng, t) for t in var_types] for _ in range(ninputs)]
    pool = []
    if name == "lists" and rng.random() < 0.25:
        # two list arguments, inputs that are swaps of each other: programs whose per-input list
        # outputs differ but are the same when glued together ([] , [7]) vs ([7] , [])
        var_types = [("list", "int"), ("list", "int")]
        a = [rng.choice([7, 3, 1]) for _ in range(rng.choice([1, 1, 2]))]
        b = rng.choice([[], [], [rng.choice([2, 5])]])
        inputs = [[a, b], [b, a]] + ([[a, a]] if rng.random() < 0.3 else [])
        pool = [("V", 0), ("V", 1), ("A", ("P", "tail"), [("A", ("P", "cons"), [("P", "0"), ("V", 0)])]),
                ("A", ("P", "tail"), [("A", ("P", "cons"), [("P", "1"), ("V", 1)])])]
        rng.shuffle(pool)
    rtypes = ["int"] if name == "arith" else ["int", ("list", "int"), ("list", ("list", "int"))]
    for _ in range(rng.randint(3, 14)):
        t = G.random_term(rng, spec, var_types, rng.choice(rtypes), rng.randint(1, 4))
        if t is not None:
            pool.append(t)
    seq = [rng.randrange(len(pool)) for _ in range(rng.randint(1, 30))] if pool else []
    return {"kind": "obseq", "dsl": name, "var_types": var_types, "inputs": inputs, "pool": pool, "seq": seq}


def shrink(case):
    if case["kind"] == "leaves":
        for j in range(len(case["pool"])):
            if len(case["pool"]) > 1 and j not in case["forbidden"]:
                c = dict(case)
                c["pool"] = case["pool"][:j] + case["pool"][j + 1:]
                c["forbidden"] = [k - (k > j) for k in case["forbidden"]]
                yield c
        return
    if case["kind"] == "obseq":
        for j in range(len(case["seq"])):
            c = dict(case)
            c["seq"] = case["seq"][:j] + case["seq"][j + 1:]
            if c["seq"]:
                yield c
        for j in range(len(case["inputs"])):
            c = dict(case)
            c["inputs"] = case["inputs"][:j] + case["inputs"][j + 1:]
            yield c
    else:
        for j in range(len(case["objs"])):
            if len(case["objs"]) > 1:
                c = dict(case)
                c["objs"] = case["objs"][:j] + case["objs"][j + 1:]
                yield c

        def subs(e):
            if e[0] in ("and", "or"):
                yield e[1]
                yield e[2]
            elif e[0] == "neg":
                yield e[1]
        for s in subs(case["expr"]):
            c = dict(case)
            c["expr"] = s
            yield c


# ------------------------------------------------------------------ implementation side
def _tolist(x):
    return [_tolist(y) for y in x] if isinstance(x, (list, tuple)) else x


def impl_expr(e, natoms):
    from synth.filter import Filter

    class Atom(Filter):
        def __init__(self, i):
            self.i = i

        def accept(self, obj):
            return obj[self.i]

    made = []        # every intermediate filter object with the expression it was built for

    def build(e):
        if e[0] == "a":
            f = Atom(e[1])
        elif e[0] == "and":
            f = build(e[1]) & build(e[2])
        elif e[0] == "or":
            f = build(e[1]) | build(e[2])
        else:
            f = -build(e[1])
        made.append((e, f))
        return f
    root = build(e)
    # a user keeps intermediate filters and goes on combining them: reuse every intermediate
    # object once more as the left operand of & and | (the results are checked, and so are the
    # intermediates afterwards: combining must not change its operands)
    extra = []
    for (se, sf) in list(made):
        if se[0] in ("and", "or"):
            extra.append((["and", se, ["a", 0]], sf & Atom(0)))
            extra.append((["or", se, ["a", 0]], sf | Atom(0)))
    return root, made + extra


def sem(e, obj):
    if e[0] == "a":
        return obj[e[1]]
    if e[0] == "and":
        return sem(e[1], obj) and sem(e[2], obj)
    if e[0] == "or":
        return sem(e[1], obj) or sem(e[2], obj)
    return not sem(e[1], obj)


def wire_expr(e):
    if e[0] == "a":
        return [Sym("a"), e[1]]
    return [Sym(e[0])] + [wire_expr(x) for x in e[1:]]


def nest(e):
    """(max nesting of same-operator operands on both sides)"""
    if e[0] in ("and", "or"):
        both = e[1][0] == e[0] and e[2][0] == e[0]
        return both or nest(e[1]) or nest(e[2])
    if e[0] == "neg":
        return nest(e[1])
    return False


def check_expr(case, M):
    e = case["expr"]
    e = json.loads(json.dumps(e))
    failures = []
    natoms = 1 + max([0] + [x for x in _atoms(e)])
    made = []
    try:
        f, made = impl_expr(e, natoms)
        built = None
    except RecursionError:
        f = None
        built = "RecursionError"
    except Exception as ex:  # noqa
        f = None
        built = type(ex).__name__
    for obj in case["objs"]:
        obj = list(obj) + [False] * natoms
        want = bool(sem(e, obj))
        m = M.ask([Sym("c20.expr"), wire_expr(e), [bool(b) for b in obj]])
        macc, mrej, msem = (x == "1" for x in m)
        if msem != want:
            raise RuntimeError("Lean spec `sem` and harness oracle disagree")
        if f is None:
            failures.append({"kind": "oracle", "what": "combinator construction raises", "detail": f"{built} while building the expression"})
            break
        try:
            acc, rej = bool(f.accept(obj)), bool(f.reject(obj))
        except Exception as ex:  # noqa
            failures.append({"kind": "oracle", "what": "accept raises", "detail": type(ex).__name__})
            break
        if acc != want or rej != (not want):
            failures.append({"kind": "oracle", "what": "combinator does not accept the Boolean combination",
                             "detail": f"obj={obj[:natoms]} accept={acc} reject={rej} expected accept={want}"})
            break
        if (acc, rej) != (macc, mrej):
            failures.append({"kind": "corr", "what": "accept/reject bits differ from model", "detail": f"impl={(acc, rej)} model={(macc, mrej)}"})
            break
        bad = None
        for se, sf in made:
            try:
                if bool(sf.accept(obj)) != bool(sem(se, obj)) or bool(sf.reject(obj)) == bool(sem(se, obj)):
                    bad = se
                    break
            except Exception as ex:  # noqa
                bad = se
                break
        if bad is not None:
            failures.append({"kind": "oracle", "what": "an intermediate filter no longer accepts its own Boolean combination after being combined further",
                             "detail": f"sub-expression {dump(wire_expr(bad))} on obj={obj[:natoms]}"})
            break
    tags = ["expr", "expr.nested-both-sides" if nest(e) else "expr.flat", f"expr.depth{_depth(e)}"]
    return {"key": "expr:" + json.dumps(e), "nontrivial": _depth(e) >= 2, "tags": tags, "failures": failures,
            "sample": {"kind": "expr", "expr": dump(wire_expr(e)), "objects": len(case["objs"])}}


def _atoms(e):
    if e[0] == "a":
        yield e[1]
    else:
        for x in e[1:]:
            yield from _atoms(x)


def _depth(e):
    return 0 if e[0] == "a" else 1 + max(_depth(x) for x in e[1:])


def _totuple(t):
    if isinstance(t, list):
        return tuple(_totuple(x) for x in t)
    return t


def check_obseq(case, M):
    from synth.filter import ObsEqFilter
    from synth.semantic.evaluator import DSLEvaluator
    from synth.syntax import auto_type
    dsl, semt, spec = G.make_dsl(case["dsl"])
    prims = G.prims_by_name(dsl)
    var_types = [_totuple(t) for t in case["var_types"]]
    pool = [_totuple(t) for t in case["pool"]]
    inputs = case["inputs"]
    ev = DSLEvaluator(semt)
    for x in G.SKIPPABLE:
        ev.skip_exceptions.add(x)
    flt = ObsEqFilter(ev, [list(i) for i in inputs])
    progs = [G.to_repo_program(t, prims, var_types) for t in pool]
    # harness' own outputs
    outs = []
    for t in pool:
        o = []
        for inp in inputs:
            try:
                v = G.denote(t, spec, inp)
            except G.SKIPPABLE:
                o = None
                break
            o.append(G.canon_value(v))
        outs.append(o)
    # python-equal values have equal canonical text here: ints and nested lists of ints only
    hashes = {}
    items = []
    for idx in case["seq"]:
        p = progs[idx]
        h = hashes.setdefault(hash(p), len(hashes))
        items.append([idx, str(p.type), h, Sym("none") if outs[idx] is None else [Sym("o")] + outs[idx]])
    failures = []
    impl = []
    for idx in case["seq"]:
        try:
            impl.append(bool(flt.accept(progs[idx])))
        except Exception as ex:  # noqa
            impl.append(type(ex).__name__)
    mrun, mspec = M.ask([Sym("c20.obseq"), items])
    mrun = [x == "1" for x in mrun]
    mspec = [x == "1" for x in mspec]
    if mrun != mspec:
        raise RuntimeError("model run and spec disagree (contradicts theorem C20_obseq)")
    # independent oracle (harness reading of the statement)
    want = []
    hist = []
    for idx in case["seq"]:
        ok = outs[idx] is not None and not any(
            acc and str(progs[j].type) == str(progs[idx].type) and outs[j] == outs[idx] and hash(progs[j]) != hash(progs[idx])
            for j, acc in hist)
        want.append(ok)
        hist.append((idx, ok))
    if want != mspec:
        raise RuntimeError("Lean spec and harness oracle disagree")
    if impl != want:
        k = next(i for i in range(len(want)) if impl[i] != want[i])
        failures.append({"kind": "oracle", "what": "obs-equivalence verdict differs from the statement",
                         "detail": f"presentation #{k} program {progs[case['seq'][k]]}: impl={impl[k]} expected={want[k]}"})
    n_acc = sum(want)
    n_rej_dup = sum(1 for i, idx in enumerate(case["seq"]) if not want[i] and outs[idx] is not None)
    n_fail = sum(1 for idx in case["seq"] if outs[idx] is None)
    rep = len(case["seq"]) != len(set(case["seq"]))
    tags = ["obseq", f"obseq.inputs{len(inputs)}"]
    if n_fail:
        tags.append("obseq.has-failing-program")
    if n_rej_dup:
        tags.append("obseq.has-equivalent-rejected")
    if rep:
        tags.append("obseq.has-repetition")
    if any(o is not None and any(s.startswith("[[") for s in o) for o in outs):
        tags.append("obseq.list-of-lists-output")
    if len(inputs) >= 2 and len(var_types) == 2 and inputs[0] == inputs[1][::-1] and inputs[0][0] != inputs[0][1]:
        tags.append("obseq.swapped-list-inputs")
    nontrivial = n_acc >= 1 and n_rej_dup >= 1
    return {"key": "obseq:" + json.dumps([case["dsl"], case["inputs"], [G.term_str(pool[i]) for i in case["seq"]]]),
            "nontrivial": nontrivial, "tags": tags, "failures": failures,
            "sample": {"kind": "obseq", "dsl": case["dsl"], "inputs": inputs, "programs": [G.term_str(pool[i]) for i in case["seq"]][:12],
                       "verdicts": want[:12]}}


# ------------------------------------------------------------------ real leaf filters
LEAF_FAMILIES = {
    # objects are (type request, program) pairs
    "syn": ["useall", "fun_same_args", "fun_neg_neg", "set"],
    # objects are programs
    "prog": ["local_neg_neg", "local_plus_zero", "local_commut"],
}


def gen_leaves(rng):
    fam = rng.choice(["syn", "syn", "prog"])
    spec = G.DSLS["arith"]
    nargs = rng.randint(0, 3)
    var_types = ["int"] * nargs
    pool = []
    for _ in range(rng.randint(3, 10)):
        t = G.random_term(rng, spec, var_types, "int", rng.randint(1, 4))
        if t is not None:
            pool.append(t)
    # make the interesting patterns frequent: (neg (neg x)), (+ x x), (+ x 0), all variables used
    if pool:
        x = rng.choice(pool)
        pool.append(("A", ("P", "neg"), [("A", ("P", "neg"), [x])]))
        pool.append(("A", ("P", "+"), [x, x]))
        pool.append(("A", ("P", "+"), [x, ("P", "0")]))
    if nargs >= 2:
        t = ("V", 0)
        for k in range(1, nargs):
            t = ("A", ("P", "+"), [t, ("V", k)])
        pool.append(t)
    names = LEAF_FAMILIES[fam]
    e = gen_expr(rng, rng.randint(1, 4), len(names))
    forb = [rng.randrange(len(pool)) for _ in range(rng.randint(0, 3))] if pool else []
    return {"kind": "leaves", "family": fam, "nargs": nargs, "pool": pool, "expr": e, "forbidden": forb}


def _deep(t):
    return tuple(_deep(x) for x in t) if isinstance(t, (list, tuple)) else t


def _t_subterms(t):
    yield t
    if t[0] == "A":
        for a in t[2]:
            yield from _t_subterms(a)


def _t_vars(t):
    return {s[1] for s in _t_subterms(t) if s[0] == "V"}


def leaf_oracle(name, t, nargs, forbidden_terms, progs_by_term):
    """the documented meaning of each leaf, computed on the harness' own term representation"""
    def head(u):
        return u[1][1] if u[0] == "A" and u[1][0] == "P" else None
    if name == "useall":            # every variable of the type request is used, and no other
        return _t_vars(t) == set(range(nargs))
    if name == "fun_same_args":     # no sub-program (+ x x) / (* x x)
        return not any(head(u) in ("+", "*") and u[2][0] == u[2][1] for u in _t_subterms(t))
    if name == "fun_neg_neg":       # no sub-program (neg (neg x))
        return not any(head(u) == "neg" and head(u[2][0]) == "neg" for u in _t_subterms(t))
    if name == "set":               # the program is not one of the forbidden programs
        return t not in forbidden_terms
    if name == "local_neg_neg":     # only the root is looked at
        return not (head(t) == "neg" and head(t[2][0]) == "neg")
    if name == "local_plus_zero":
        return not (head(t) == "+" and t[2][1] == ("P", "0"))
    if name == "local_commut":      # commutative_rejection: keep (+ a b) only when hash(a) > hash(b)
        if head(t) in ("+", "*"):
            a, b = progs_by_term[t[2][0]], progs_by_term[t[2][1]]
            return not (hash(a) <= hash(b))
        return True
    raise KeyError(name)


def check_leaves(case, M):
    from synth.filter import SetFilter, FunctionFilter, UseAllVariablesFilter, LocalStatelessFilter
    from synth.filter.local_stateless_filter import commutative_rejection, reject_functions
    from synth.syntax import auto_type
    dsl, semt, spec = G.make_dsl("arith")
    prims = G.prims_by_name(dsl)
    nargs = case["nargs"]
    var_types = ["int"] * nargs
    pool = [_deep(t) for t in case["pool"]]
    e = json.loads(json.dumps(case["expr"]))
    fam = case["family"]
    names = LEAF_FAMILIES[fam]
    treq = auto_type(" -> ".join(["int"] * (nargs + 1)))
    progs_by_term = {}
    for t in pool:
        for u in _t_subterms(t):
            if u not in progs_by_term:
                progs_by_term[u] = G.to_repo_program(u, prims, var_types)
    forb_terms = [pool[i] for i in case["forbidden"]]

    def make(name):
        if name == "useall":
            return UseAllVariablesFilter()
        if name == "fun_same_args":
            same = lambda a, b: a == b
            return FunctionFilter({"+": same, "*": same})
        if name == "fun_neg_neg":
            return FunctionFilter({"neg": lambda a: reject_functions(a, "neg")})
        if name == "set":
            return SetFilter({progs_by_term[t] for t in forb_terms})
        if name == "local_neg_neg":
            return LocalStatelessFilter({"neg": lambda a: reject_functions(a, "neg", "nothing")})
        if name == "local_plus_zero":
            return LocalStatelessFilter({"+": lambda a, b: str(b) == "0"})
        if name == "local_commut":
            return LocalStatelessFilter({"+": commutative_rejection, "*": commutative_rejection})
        raise KeyError(name)
    leaves = [make(n) for n in names]

    def build(x):
        if x[0] == "a":
            return leaves[x[1]]
        if x[0] == "and":
            return build(x[1]) & build(x[2])
        if x[0] == "or":
            return build(x[1]) | build(x[2])
        return -build(x[1])
    failures = []
    try:
        f = build(e)
    except Exception as ex:  # noqa
        failures.append({"kind": "oracle", "what": "combinator construction raises", "detail": type(ex).__name__})
        f = None
    n_acc = n_rej = 0
    for t in pool:
        if f is None:
            break
        p = progs_by_term[t]
        obj = (treq, p) if fam == "syn" else p
        verdicts = [bool(leaf_oracle(n, t, nargs, forb_terms, progs_by_term)) for n in names]
        # every real leaf alone: accept = its documented meaning, reject = the negation
        for n, lf, v in zip(names, leaves, verdicts):
            try:
                la, lr = bool(lf.accept(obj)), bool(lf.reject(obj))
            except Exception as ex:  # noqa
                failures.append({"kind": "oracle", "what": "a leaf filter raises", "detail": f"{n} on {G.term_str(t)}: {type(ex).__name__}"})
                continue
            if la != v or lr != (not v):
                failures.append({"kind": "oracle", "what": "a leaf filter does not accept what its documentation says",
                                 "detail": f"{n} on {G.term_str(t)} (request with {nargs} arguments): accept={la} reject={lr} expected accept={v}"})
        want = bool(sem(e, verdicts))
        m = M.ask([Sym("c20.expr"), wire_expr(e), verdicts])
        macc, mrej, msem = (x == "1" for x in m)
        if msem != want:
            raise RuntimeError("Lean spec `sem` and harness oracle disagree")
        try:
            acc, rej = bool(f.accept(obj)), bool(f.reject(obj))
        except Exception as ex:  # noqa
            failures.append({"kind": "oracle", "what": "accept raises", "detail": type(ex).__name__})
            break
        if acc != want or rej != (not want):
            failures.append({"kind": "oracle", "what": "combination of real leaf filters does not accept the Boolean combination",
                             "detail": f"program {G.term_str(t)} leaves={dict(zip(names, verdicts))} accept={acc} reject={rej} expected accept={want}"})
        if (acc, rej) != (macc, mrej):
            failures.append({"kind": "corr", "what": "accept/reject bits differ from model", "detail": f"impl={(acc, rej)} model={(macc, mrej)}"})
        n_acc += want
        n_rej += not want
        if len(failures) > 4:
            break
    tags = ["leaves", f"leaves.{fam}", f"leaves.nargs{nargs}"]
    return {"key": "leaves:" + json.dumps([fam, nargs, e, [G.term_str(t) for t in pool], case["forbidden"]]),
            "nontrivial": n_acc >= 1 and n_rej >= 1, "tags": tags, "failures": failures,
            "sample": {"kind": "leaves", "family": fam, "expr": dump(wire_expr(e)), "leaves": names,
                       "programs": [G.term_str(t) for t in pool][:8]}}


def check(case, M):
    if case["kind"] == "expr":
        return check_expr(case, M)
    if case["kind"] == "leaves":
        return check_leaves(case, M)
    return check_obseq(case, M)


def corpus():
    # minimised past failures (the two defects repaired by fix: commits) run first
    return [
        {"kind": "expr", "expr": ["and", ["and", ["a", 0], ["a", 1]], ["and", ["a", 2], ["a", 3]]], "objs": [[True, True, True, True], [True, True, False, True]]},
        {"kind": "expr", "expr": ["or", ["or", ["a", 0], ["a", 1]], ["or", ["a", 2], ["a", 3]]], "objs": [[False, False, False, False], [False, False, True, False]]},
        {"kind": "obseq", "dsl": "lists", "var_types": [["list", "int"]], "inputs": [[[1, 2]]],
         "pool": [["A", ["P", "wrap"], [["V", 0]]], ["A", ["P", "wrap"], [["A", ["P", "tail"], [["A", ["P", "cons"], [["P", "0"], ["V", 0]]]]]]]], "seq": [0, 1, 0]},
    ]
