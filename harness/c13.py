"""C13 — size/occurrence-bounded grammars and products denote the stated languages.

impl   : TTCFG.size_constraint / TTCFG.at_most_k / g1 * g2 (TTCFG.__mul_ttcfg__) / clean() /
         programs() / `in` on a random DSL syntax
model  : PS.T.sizeConstraint / atMostK / mul / clean / programs (driver ops c13.*)
spec   : PS.T.Sized / AtMostOcc (well-typed terms with at most k nodes / occurrences, no
         forbidden pattern), PS.T.run (language of a rule table, stack free)
oracle : `Terms` below: an independent Python reading of the statement (enumeration of the typed
         terms from the DSL syntax by size / by occurrences), `TableLang` (language of a rule
         table by exhaustive expansion, for products), `stuck_configs` (every derivation that
         can be started can be completed).  Nothing of `synth` is used to decide a violation
         except the observables under test.
verified checkers: the implementation's *actual* rule table goes to the driver, which evaluates
         PS.T.subOK (theorem C13_certified: an accepted table has exactly the language of the
         rule creation step, hence C13_size / C13_atmost) and PS.T.closedOK (theorems C13_clean,
         C13_count) on it.

Known findings (open) and their classifiers - decidable predicates of the INPUT, evaluated by the
verified checkers on the MODEL's own table for that input (the hypotheses of the `_partial`
theorems), never on the implementation's output:
  C13-F2  not subOK(model table)                      saturation builder drops pending stacks
  C13-F5  subOK but not closedOK(model table), start kept   clean() leaves rules whose later arguments die
  C13-F3  not firstOrder(dsl)                         partial applications charged their declared arity
  C13-F6  the start symbol has no rule left           programs() = 1 on an empty language
  C13-F7  n_gram in {0,1} and a forbidden table       the n-gram cannot see the parent (= C01-F2)
  C13-F8  product: some argument of the request is used by no rule   product re-guesses the type request
"""
import itertools
import json
import os
import signal
import time

from harness import gen as G
from harness import wire as W
from harness.oracle import args_ret, ends_with, term_str
from harness.sexp import Sym

CASE_TIMEOUT = {"quick": 150, "thorough": 400}
MAX_LANG = {"quick": 1500, "thorough": 6000}
IMPL_LIMIT = 12           # seconds for one constructor call of the implementation
LOOP_LIMIT = 2            # ... of at_most_k when no ranking of the types exists (region of C13-F9: it may not return)
FUEL = 400000


def _tt(t):
    return tuple(_tt(x) for x in t) if isinstance(t, list) else t


class Infinite(Exception):
    pass


class TooLarge(Exception):
    pass


# ----------------------------------------------------------------------------- oracle
class Terms:
    """well-typed applicative terms over a DSL syntax, read off the statement: a term of type
    ty below parent (P, i) is a variable of the request of exactly that type, or a primitive Q
    (not forbidden below (P, i)) applied to terms of the types a1..ak where type(Q) =
    a1 -> .. -> ak -> ty (k >= 0)."""

    def __init__(self, prims, forbidden, request, see_parent=True):
        self.prims = list(prims)
        self.forbidden = {k: frozenset(v) for k, v in forbidden.items()}
        self.args, self.ret = args_ret(request)
        self.see_parent = see_parent
        self._size = {}
        self._occ = {}
        self._busy = set()

    def forb(self, parent):
        if parent is None or not self.see_parent:
            return frozenset()
        return self.forbidden.get(parent, frozenset())

    def heads(self, ty, forb):
        out = []
        for i, a in enumerate(self.args):
            if a == ty:
                out.append((("V", i, a), []))
        for n, t in self.prims:
            if n in forb:
                continue
            a = ends_with(t, ty)
            if a is not None:
                out.append((("P", n, t), a))
        return out

    def well_typed(self, t, ty=None, parent=None):
        ty = self.ret if ty is None else ty
        h, args = t
        for hh, a in self.heads(ty, self.forb(parent)):
            if hh == h and len(a) == len(args):
                return all(self.well_typed(x, at, (h[1], i) if h[0] == "P" else None)
                           for i, (x, at) in enumerate(zip(args, a)))
        return False

    # ---- by number of nodes
    def by_size(self, n, ty=None, parent=None):
        """terms with exactly n nodes"""
        ty = self.ret if ty is None else ty
        key = (n, ty, self.forb(parent))
        if key in self._size:
            return self._size[key]
        out = []
        if n >= 1:
            for h, a in self.heads(ty, key[2]):
                if not a:
                    if n == 1:
                        out.append((h, []))
                    continue
                if n - 1 < len(a):
                    continue
                for split in _compositions(n - 1, len(a)):
                    subs = [self.by_size(s, at, (h[1], i)) for i, (s, at) in enumerate(zip(split, a))]
                    if all(subs):
                        for combo in itertools.product(*subs):
                            out.append((h, list(combo)))
        self._size[key] = out
        return out

    def count_by_size(self, n, ty=None, parent=None, memo=None):
        memo = {} if memo is None else memo
        ty = self.ret if ty is None else ty
        key = (n, ty, self.forb(parent))
        if key in memo:
            return memo[key]
        tot = 0
        if n >= 1:
            for h, a in self.heads(ty, key[2]):
                if not a:
                    tot += 1 if n == 1 else 0
                    continue
                if n - 1 < len(a):
                    continue
                for split in _compositions(n - 1, len(a)):
                    loc = 1
                    for i, (s, at) in enumerate(zip(split, a)):
                        loc *= self.count_by_size(s, at, (h[1], i), memo)
                        if loc == 0:
                            break
                    tot += loc
        memo[key] = tot
        return tot

    def up_to_size(self, k):
        return [t for n in range(1, k + 1) for t in self.by_size(n)]

    # ---- by occurrences of a primitive (finite languages only)
    def by_occ(self, name, u, ty=None, parent=None, limit=10 ** 9):
        """terms with exactly u nodes labelled `name`; raises Infinite when a derivation can
        come back to the same (type, parent, budget) without spending an occurrence"""
        ty = self.ret if ty is None else ty
        key = (u, ty, self.forb(parent))
        if key in self._occ:
            return self._occ[key]
        if key in self._busy:
            raise Infinite()
        self._busy.add(key)
        out = []
        for h, a in self.heads(ty, key[2]):
            c = 1 if _head_str(h) == name else 0
            if c > u:
                continue
            if not a:
                if u == c:
                    out.append((h, []))
                continue
            # distribute u - c occurrences over the arguments
            partial = [([], u - c)]
            for i, at in enumerate(a):
                nxt = []
                last = i == len(a) - 1
                for kids, left in partial:
                    for use in ([left] if last else range(left + 1)):
                        for sub in self.by_occ(name, use, at, (h[1], i), limit):
                            nxt.append((kids + [sub], left - use))
                            if len(nxt) > limit:
                                raise TooLarge()
                partial = nxt
                if not partial:
                    break
            for kids, left in partial:
                if left == 0:
                    out.append((h, kids))
            if len(out) > limit:
                raise TooLarge()
        self._busy.discard(key)
        self._occ[key] = out
        return out

    def up_to_occ(self, name, k, limit=10 ** 9):
        out = []
        try:
            for u in range(k + 1):
                out += self.by_occ(name, u, limit=limit)
                if len(out) > limit:
                    raise TooLarge()
            return out
        except Infinite:
            # by_occ gives up on ANY recursion that spends no occurrence; decide finiteness exactly
            self._occ, self._busy = {}, set()
            return self.up_to_occ_exact(name, k, limit)

    # ---- exact: regular tree grammar over the keys (occurrences, type, forbidden set)
    def _occ_alts(self, name, key):
        u, ty, fb = key
        for h, a in self.heads(ty, fb):
            c = 1 if _head_str(h) == name else 0
            if c > u:
                continue
            for split in itertools.product(range(u - c + 1), repeat=len(a)):
                if sum(split) == u - c:
                    yield h, [(use, at, self.forb((h[1], i))) for i, (use, at) in enumerate(zip(split, a))]

    def up_to_occ_exact(self, name, k, limit=10 ** 9):
        """the terms with at most k occurrences when there are finitely many (Infinite otherwise): keys that
        derive no term are pruned first (an unproductive recursion does not make the language infinite), then
        the language is infinite iff a cycle of productive keys is reachable from the start keys"""
        roots = [(u, self.ret, self.forb(None)) for u in range(k + 1)]
        universe, todo = set(roots), list(roots)
        alts = {}
        while todo:
            key = todo.pop()
            alts[key] = list(self._occ_alts(name, key))
            for _, kids in alts[key]:
                for kk in kids:
                    if kk not in universe:
                        universe.add(kk)
                        todo.append(kk)
        inh, changed = set(), True
        while changed:
            changed = False
            for key in universe:
                if key not in inh and any(all(kk in inh for kk in kids) for _, kids in alts[key]):
                    inh.add(key)
                    changed = True
        useful = {key: [(h, kids) for h, kids in alts[key] if all(kk in inh for kk in kids)] for key in inh}
        state = {}

        def cyclic(key):
            if state.get(key) == 1:
                return True
            if state.get(key) == 2:
                return False
            state[key] = 1
            for _, kids in useful[key]:
                if any(cyclic(kk) for kk in kids):
                    return True
            state[key] = 2
            return False
        if any(cyclic(r) for r in roots if r in inh):
            raise Infinite()
        memo = {}

        def enum(key):
            if key in memo:
                return memo[key]
            out = []
            for h, kids in useful[key]:
                for combo in itertools.product(*[enum(kk) for kk in kids]):
                    out.append((h, list(combo)))
                    if len(out) > limit:
                        raise TooLarge()
            memo[key] = out
            return out
        res = []
        for r in roots:
            if r in inh:
                res += enum(r)
                if len(res) > limit:
                    raise TooLarge()
        return res


def _head_str(h):
    return h[1] if h[0] == "P" else f"var{h[1]}"


def _compositions(n, k):
    """k positive integers summing to n"""
    if k == 1:
        if n >= 1:
            yield (n,)
        return
    for first in range(1, n - k + 2):
        for rest in _compositions(n - first, k - 1):
            yield (first,) + rest


def tkey(t):
    """structural key of a term (primitives of the same name but different types differ)"""
    return json.dumps(t)


def size_of(t):
    return 1 + sum(size_of(a) for a in t[1])


def occ_of(name, t):
    return (1 if _head_str(t[0]) == name else 0) + sum(occ_of(name, a) for a in t[1])


def has_forbidden(t, forbidden):
    h, args = t
    for i, a in enumerate(args):
        if h[0] == "P" and a[0][0] == "P" and a[0][1] in forbidden.get((h[1], i), ()):
            return True
        if has_forbidden(a, forbidden):
            return True
    return False


class TableLang:
    """language of a tree-traversing rule table by exhaustive expansion, straight from the
    definition: from (type, (S, T)) a rule P -> (args, T') derives P applied to one term per
    argument, argument i from (type_i, (S_i, state)) where state is T' for the first argument
    and then the state in which the previous argument's derivation ended.  [(term, end state)]"""

    def __init__(self, rules, limit):
        self.rules, self.limit, self.memo, self.busy = rules, limit, {}, set()

    def seqs(self, nt):
        if nt in self.memo:
            return self.memo[nt]
        if nt not in self.rules:
            return []
        if nt in self.busy:
            raise Infinite()
        self.busy.add(nt)
        out = []
        for P, (args, st) in self.rules[nt].items():
            partial = [([], st)]
            for a in args:
                nxt = []
                for kids, cur in partial:
                    for sub, fin in self.seqs((a[0], (a[1], cur))):
                        nxt.append((kids + [sub], fin))
                        if len(nxt) > self.limit:
                            raise TooLarge()
                partial = nxt
            for kids, cur in partial:
                out.append(((head_of(P), kids), cur))
            if len(out) > self.limit:
                raise TooLarge()
        self.busy.discard(nt)
        self.memo[nt] = out
        return out

    def run(self, t, nt):
        """end state of the derivation of t from nt, or None"""
        if nt not in self.rules:
            return None
        for P, (args, st) in self.rules[nt].items():
            if head_of(P) == t[0]:
                if len(args) != len(t[1]):
                    return None
                cur = st
                for a, x in zip(args, t[1]):
                    cur = self.run(x, (a[0], (a[1], cur)))
                    if cur is None:
                        return None
                    cur = cur[0]
                return (cur,)
        return None


def head_of(P):
    from synth.syntax.program import Primitive, Variable
    if isinstance(P, Primitive):
        return ("P", P.primitive, W.repo_tt(P.type))
    if isinstance(P, Variable):
        return ("V", P.variable, W.repo_tt(P.type))
    raise ValueError(P)


def stuck_configs(g, limit=300000):
    """independent walk over every partial derivation (pending stack made explicit): returns
    (list of (non-terminal, symbol, missing non-terminal), empty rows, complete?)"""
    rules = g.rules
    seen = set()
    todo = [(g.start, ())]
    stuck, n = [], 0
    empty = [S for S in rules if len(rules[S]) == 0]
    if g.start not in rules:
        return [], empty, True
    while todo:
        S, info = todo.pop()
        if (S, info) in seen:
            continue
        seen.add((S, info))
        n += 1
        if n > limit:
            return stuck, empty, False
        for P, (args, st) in rules[S].items():
            stack = tuple(args) + info
            if not stack:
                continue
            nxt = (stack[0][0], (stack[0][1], st))
            if nxt not in rules:
                stuck.append((S, P, nxt))
            else:
                todo.append((nxt, stack[1:]))
    return stuck, empty, True


# ----------------------------------------------------------------------------- time limit
class ImplTimeout(Exception):
    pass


def limited(seconds, fn):
    """run fn() with its own wall-clock limit inside the worker's per-case alarm"""
    def handler(signum, frame):
        raise ImplTimeout()
    old = signal.getsignal(signal.SIGALRM)
    remaining = signal.alarm(0)
    t0 = time.time()
    signal.signal(signal.SIGALRM, handler)
    signal.alarm(seconds)
    try:
        return fn()
    finally:
        signal.alarm(0)
        signal.signal(signal.SIGALRM, old)
        if remaining:
            signal.alarm(max(1, int(remaining - (time.time() - t0))))


# ----------------------------------------------------------------------------- generation
def arrow(*ts):
    return G.arrow(*ts)


def family_syntax(rng, family):
    """-> (prims, forbidden dict, request)"""
    if family == "random":
        syn = G.random_syntax(rng)
        return syn["prims"], syn["forbidden"], G.random_request(rng, syn)
    if family == "arith":
        prims = [("+", arrow("int", "int", "int")), ("1", "int")]
        if rng.random() < 0.6:
            prims.append(("neg", arrow("int", "int")))
        if rng.random() < 0.5:
            prims.append(("-", arrow("int", "int", "int")))
        if rng.random() < 0.4:
            prims.append(("0", "int"))
        if rng.random() < 0.3:
            prims.append(("ite", arrow("bool", "int", "int", "int")))
            prims.append(("t", "bool"))
        forb = {}
        if rng.random() < 0.6:
            forb[("+", rng.choice([0, 1]))] = rng.sample(["+", "1", "neg", "0"], rng.choice([1, 2]))
        if rng.random() < 0.3:
            forb[("neg", 0)] = ["neg"]
        req = rng.choice(["int", arrow("int", "int"), arrow("int", "int", "int"), arrow("bool", "int", "int"), arrow("int", "bool", "int")])
        return prims, forb, req
    if family == "siblings":
        # several binary primitives whose first argument can be the same nested application and
        # whose later arguments have different types: the family of finding C13-F2
        b = rng.choice(["b", "b", "a"])
        d = rng.choice(["d", "b", "a"])
        prims = [("f", arrow("a", b, "c")), ("g", arrow("a", d, "c")), ("h", arrow("x", "a")), ("x0", "x")]
        for n, t in (("y", b), ("z", d)):
            if (n, t) not in prims and all(t != tt or not isinstance(tt, str) for _, tt in prims if _ == n):
                prims.append((n, t))
        if rng.random() < 0.5:
            prims.append(("a0", "a"))
        if rng.random() < 0.4:
            prims.append(("k", arrow("c", "c")))
        if rng.random() < 0.3:
            prims.append(("h2", arrow("x", "x", "a")))
        rng.shuffle(prims)
        seen, out = set(), []
        for n, t in prims:
            if n not in seen:
                seen.add(n)
                out.append((n, t))
        forb = {("f", 0): ["a0"]} if rng.random() < 0.2 else {}
        req = rng.choice(["c", "c", arrow("x", "c"), arrow("a", "c")])
        return out, forb, req
    if family == "uninhabited":
        # primitives whose first / later arguments have no inhabitant, directly or deeper
        prims = [("f", arrow("a", "b", "c")), ("x", "a"), ("k", "c")]
        if rng.random() < 0.5:
            prims.append(("h", arrow("d", "b")))          # b only through the uninhabited d
        if rng.random() < 0.4:
            prims.append(("g", arrow("b", "a", "c")))      # first argument uninhabited
        if rng.random() < 0.4:
            prims.append(("u", arrow("a", "c")))
        if rng.random() < 0.3:
            prims.append(("w", arrow("c", "a", "b", "c")))
        if rng.random() < 0.3:
            prims.append(("y", "b"))                        # inhabited after all
        if rng.random() < 0.3:
            prims.append(("loop", arrow("e", "e")))
            prims.append(("ge", arrow("e", "c")))
        rng.shuffle(prims)
        forb = {("f", 0): ["x"]} if rng.random() < 0.15 else {}
        req = rng.choice(["c", "c", arrow("a", "c"), arrow("b", "c")])
        return prims, forb, req
    if family == "ho":
        prims = [("map", arrow(arrow("int", "int"), "int", "int")), ("succ", arrow("int", "int")), ("1", "int")]
        if rng.random() < 0.5:
            prims.append(("+", arrow("int", "int", "int")))
        if rng.random() < 0.4:
            prims.append(("comp", arrow(arrow("int", "int"), arrow("int", "int"), "int", "int")))
        if rng.random() < 0.3:
            prims.append(("app2", arrow(arrow("int", "int", "int"), "int", "int", "int")))
        rng.shuffle(prims)
        forb = {("map", 0): ["succ"]} if rng.random() < 0.2 else {}
        req = rng.choice(["int", arrow("int", "int"), arrow(arrow("int", "int"), "int")])
        return prims, forb, req
    raise ValueError(family)


POLY_POOL = [("head", "'a list -> 'a"), ("cons", "'a -> 'a list -> 'a list"), ("nil", "'a list"), ("len", "'a list -> int"),
             ("+", "int -> int -> int"), ("1", "int"), ("non_reachable", "non_reachable"), ("non_productive", "int -> string"),
             ("t", "bool"), ("ite", "bool -> 'a -> 'a -> 'a"), ("single", "'a -> 'a list"), ("eq", "'a -> 'a -> bool")]


def poly_prims(strs):
    """primitives after the real instantiate_polymorphic_types (order depends on PYTHONHASHSEED)"""
    from synth.syntax import DSL, auto_type
    dsl = DSL(auto_type(dict(strs)))
    dsl.instantiate_polymorphic_types(4)
    out = []
    for p in dsl.list_primitives:
        try:
            out.append((p.primitive, W.repo_tt(p.type)))
        except ValueError:
            return None, None
    return dsl, out


def _spec_of(rng, tier, prims, forb, req, kinds):
    kind = rng.choice(kinds)
    names = [n for n, _ in prims]
    if kind == "size":
        return {"kind": "size", "max_size": rng.choice([1, 2, 3, 3, 4, 4, 5, 5, 6, 7])}
    if kind == "atmost":
        return {"kind": "atmost", "name": rng.choice(names + (["var0"] if rng.random() < 0.1 else [])), "k": rng.choice([0, 1, 1, 2, 2, 3])}
    return {"kind": "depth", "max_depth": rng.choice([2, 3, 3, 4])}


def _finite_names(case):
    """primitive names whose bounded-occurrence language is finite (the only case the property
    speaks about) - decided by the oracle"""
    prims = [(n, _tt(t)) for n, t in case["prims"]]
    forb = {(a, b): set(v) for a, b, v in case["forbidden"]}
    out = []
    for n, _ in prims:
        try:
            Terms(prims, forb, _tt(case["request"])).up_to_occ(n, 1, limit=4000)
            out.append(n)
        except Infinite:
            pass
        except TooLarge:
            out.append(n)
    return out


def _fit(case, spec, tier, rng=None):
    """shrink the bound until the language is small enough to enumerate"""
    prims = [(n, _tt(t)) for n, t in case["prims"]]
    tt = Terms(prims, {}, _tt(case["request"]))
    if spec["kind"] == "atmost" and rng is not None:
        fin = _finite_names(case)
        if fin and spec["name"] not in fin and rng.random() < 0.9:
            spec["name"] = rng.choice(fin)
        elif not fin and rng.random() < 0.8:
            spec.clear()
            spec.update({"kind": "size", "max_size": rng.choice([2, 3, 4, 5])})
    if spec["kind"] == "size":
        while spec["max_size"] > 1:
            memo = {}
            if sum(tt.count_by_size(n, memo=memo) for n in range(1, spec["max_size"] + 3)) <= MAX_LANG[tier] * 4:
                break
            spec["max_size"] -= 1


def gen(rng, i, tier):
    family = rng.choice(["random", "random", "random", "arith", "arith", "siblings", "siblings", "uninhabited", "ho", "poly"])
    if family == "poly":
        strs = [["+", "int -> int -> int"], ["1", "int"]] + [list(x) for x in rng.sample(POLY_POOL, rng.choice([2, 3, 4])) if x[0] not in ("+", "1")]
        _, prims = poly_prims(strs)
        if prims is None or len(prims) > 40:
            strs = [["+", "int -> int -> int"], ["1", "int"], ["head", "'a list -> 'a"]]
            _, prims = poly_prims(strs)
        forb = {("+", 0): ["+"]} if rng.random() < 0.3 else {}
        req = rng.choice([arrow("int", "int"), "int", arrow(("list", "int"), "int"), arrow("int", ("list", "int"))])
    else:
        strs = None
        prims, forb, req = family_syntax(rng, family)
    case = {"family": family, "prims": [[n, t] for n, t in prims],
            "forbidden": [[k[0], k[1], sorted(v)] for k, v in forb.items()], "request": req,
            "n_gram": rng.choice([2, 2, 2, 2, 2, 3, -1, 1, 0]), "nseed": rng.randrange(1 << 30)}
    if strs is not None:
        case["poly"] = strs
    mode = rng.choice(["size", "size", "size", "atmost", "atmost", "mul", "mul"])
    case["mode"] = mode
    if mode == "mul":
        case["left"] = _spec_of(rng, tier, prims, forb, req, ["size", "size", "atmost"])
        case["right"] = _spec_of(rng, tier, prims, forb, req, ["size", "atmost", "depth", "depth"])
        if case["left"]["kind"] == "atmost" and case["right"]["kind"] == "atmost":
            case["right"] = {"kind": "size", "max_size": rng.choice([3, 4, 5])}
        # the right factor may be compiled from a sub-DSL
        case["right_drop"] = rng.choice([n for n, _ in prims]) if rng.random() < 0.25 and len(prims) > 2 else None
        case["n_gram"] = rng.choice([2, 2, 2, 3])
        for s in (case["left"], case["right"]):
            _fit(case, s, tier, rng)
    else:
        case["spec"] = _spec_of(rng, tier, prims, forb, req, [mode])
        _fit(case, case["spec"], tier, rng)
    return case


def shrink(case):
    for j in range(len(case["prims"])):
        c = json.loads(json.dumps(case))
        name = case["prims"][j][0]
        c["prims"] = case["prims"][:j] + case["prims"][j + 1:]
        names = {n for n, _ in c["prims"]}
        c["forbidden"] = [[a, b, [x for x in v if x in names]] for a, b, v in case["forbidden"] if a in names]
        if any(s and s.get("name") == name for s in (c.get("spec"), c.get("left"), c.get("right"))):
            continue
        if c.get("right_drop") == name:
            c["right_drop"] = None
        if len(c["prims"]) >= 1:
            yield c
    for j in range(len(case["forbidden"])):
        c = json.loads(json.dumps(case))
        c["forbidden"] = case["forbidden"][:j] + case["forbidden"][j + 1:]
        yield c
    for key in ("spec", "left", "right"):
        s = case.get(key)
        if not s:
            continue
        for f, lo in (("max_size", 1), ("k", 0), ("max_depth", 1)):
            if f in s and s[f] > lo:
                c = json.loads(json.dumps(case))
                c[key][f] -= 1
                yield c
    if case.get("right_drop"):
        c = json.loads(json.dumps(case))
        c["right_drop"] = None
        yield c
    args, ret = args_ret(_tt(case["request"]))
    if args:
        c = json.loads(json.dumps(case))
        c["request"] = arrow(*(list(args[:-1]) + [ret]))
        yield c


# ----------------------------------------------------------------------------- wire
def to_repo(t, prim_objs):
    from synth.syntax.program import Function, Primitive, Variable
    h, args = t
    if h[0] == "P":
        head = prim_objs.get((h[1], h[2])) or Primitive(h[1], W.tt_repo(h[2]))
    else:
        head = Variable(h[1], W.tt_repo(h[2]))
    if not args:
        return head
    return Function(head, [to_repo(a, prim_objs) for a in args])


def term_wire(t):
    h, args = t
    hw = [Sym("P"), h[1], W.tt_wire(h[2])] if h[0] == "P" else [Sym("V"), h[1], W.tt_wire(h[2])]
    return [Sym("A"), hw] + [term_wire(a) for a in args]


def dsl_wire(dsl, forb):
    return [[W.sym_wire(p) for p in dsl.list_primitives],
            [[[k[0], k[1]]] + sorted(v) for k, v in sorted(forb.items())]]


def struct_wire(g, state_w):
    def nt(S):
        return [W.ty_wire(S[0]), W.ctx_wire(S[1][0]), state_w(S[1][1])]
    entries = []
    for S in g.rules:
        rs = []
        for P in g.rules[S]:
            args, st = g.rules[S][P]
            rs.append([W.sym_wire(P), [[W.ty_wire(a[0]), W.ctx_wire(a[1])] for a in args], state_w(st)])
        entries.append([nt(S), rs])
    return [Sym("tt"), nt(g.start), entries]


class Names:
    def __init__(self, prefix):
        self.prefix, self.map = prefix, {}

    def __call__(self, x):
        if x not in self.map:
            self.map[x] = f"{self.prefix}{len(self.map)}"
        return self.map[x]


def opaque_wire(g, sn, tn):
    def nt(S):
        return [W.ty_wire(S[0]), sn(S[1][0]), tn(S[1][1])]
    entries = []
    for S in g.rules:
        rs = []
        for P in g.rules[S]:
            args, st = g.rules[S][P]
            rs.append([W.sym_wire(P), [[W.ty_wire(a[0]), sn(a[1])] for a in args], tn(st)])
        entries.append([nt(S), rs])
    return [Sym("tt"), nt(g.start), entries]


def rewire(x):
    """a parsed driver answer -> something that dumps to the same text"""
    from harness.sexp import Str
    if isinstance(x, (list, tuple)):
        return [rewire(y) for y in x]
    if isinstance(x, Str):
        return str(x)
    return Sym(x)


def _plain(x):
    if isinstance(x, (list, tuple)):
        return [_plain(y) for y in x]
    if isinstance(x, bool):
        return "1" if x else "0"
    return str(x)


def canon_table(w):
    """sorted text of a wire table (rule order inside a row and row order are hash dependent)"""
    return sorted(json.dumps([e[0], sorted(e[1], key=json.dumps)]) for e in _plain(w[2]))


def reachable_part(w):
    """rows of a wire table that a derivation from the start symbol can reach (the inner pass of
    clean() may or may not delete garbage it no longer reaches, depending on the set order)"""
    w = _plain(w)
    rows = {json.dumps(e[0]): e for e in w[2]}
    start = json.dumps(w[1])
    seen, todo = set(), [(start, ())]
    keep = set()
    n = 0
    while todo and n < 200000:
        k, info = todo.pop()
        if (k, info) in seen or k not in rows:
            continue
        seen.add((k, info))
        keep.add(k)
        n += 1
        ty, s, st = rows[k][0]
        for r in rows[k][1]:
            stack = tuple(json.dumps(a) for a in r[1]) + info
            if stack:
                a = json.loads(stack[0])
                todo.append((json.dumps([a[0], a[1], r[2]]), stack[1:]))
    return [w[0], w[1], [e for e in w[2] if json.dumps(e[0]) in keep]]


# ----------------------------------------------------------------------------- at_most_k: termination
def uncounted_ranking(dsl, name):
    """a ranking of the types (wire, rank) certifying PS.T.uncountedRanked - every primitive other than
    `name` takes, at every slot (partial applications included), only arguments of smaller rank - or None
    when the dependency graph of the types through those primitives has a cycle (then no certificate
    exists: the classifier of finding C13-F9)"""
    from synth.syntax.type_system import Arrow
    edges, wires = {}, {}

    def key(t):
        w = W.ty_wire(t)
        k = json.dumps(_plain(w))
        wires[k] = w
        edges.setdefault(k, set())
        return k
    for p in dsl.list_primitives:
        if str(p) == name:
            continue
        t, acc = p.type, []
        while True:
            k = key(t)
            edges[k].update(key(a) for a in acc)
            if isinstance(t, Arrow):
                acc = acc + [t.type_in]
                t = t.type_out
            else:
                break
    rank, state = {}, {}

    def visit(k):
        if state.get(k) == 1:
            raise Infinite()
        if k in rank:
            return rank[k]
        state[k] = 1
        r = 0
        for m in edges[k]:
            r = max(r, visit(m) + 1)
        state[k] = 2
        rank[k] = r
        return r
    try:
        for k in list(edges):
            visit(k)
    except Infinite:
        return None
    return [[wires[k], r] for k, r in sorted(rank.items()) if r > 0]


_OPEN = []


def open_findings():
    """ids of the open known findings (a finding is only attached to a failure once the integrator has
    registered it; until then the symptom stays an inconclusive, tagged time-out)"""
    if not _OPEN:
        path = os.path.join(os.path.dirname(os.path.dirname(os.path.abspath(__file__))), "known_findings.json")
        try:
            _OPEN.append({k["id"] for k in json.load(open(path))["findings"] if k.get("status") == "open"})
        except Exception:
            _OPEN.append(set())
    return _OPEN[0]


# ----------------------------------------------------------------------------- variants
_VARIANT = {}


def variant():
    """which of the proposed repairs the implementation under test contains (the model has a
    switch for each; the property is checked either way)"""
    if _VARIANT:
        return _VARIANT
    from synth.syntax import DSL
    from synth.syntax.grammars.ttcfg import TTCFG
    ho = DSL({"map": W.tt_repo(arrow(arrow("int", "int"), "int", "int")), "succ": W.tt_repo(arrow("int", "int")), "1": W.tt_repo("int")})
    tr = W.tt_repo("int")
    g = TTCFG.size_constraint(ho, tr, 3)
    pm = {(p.primitive, W.repo_tt(p.type)): p for p in ho.list_primitives}
    t = (("P", "map", _tt(arrow(arrow("int", "int"), "int", "int"))), [(("P", "succ", _tt(arrow("int", "int"))), []), (("P", "1", "int"), [])])
    _VARIANT["actual"] = to_repo(t, pm) in g
    sib = DSL({"f": W.tt_repo(arrow("a", "b", "c")), "g": W.tt_repo(arrow("a", "d", "c")), "h": W.tt_repo(arrow("x", "a")),
               "x0": W.tt_repo("x"), "y": W.tt_repo("b"), "z": W.tt_repo("d")})
    gs = TTCFG.size_constraint(sib, W.tt_repo("c"), 4)
    ps = {(p.primitive, W.repo_tt(p.type)): p for p in sib.list_primitives}
    _VARIANT["stack_key"] = all(to_repo(t, ps) in gs for t in (
        (("P", "f", _tt(arrow("a", "b", "c"))), [(("P", "h", _tt(arrow("x", "a"))), [(("P", "x0", "x"), [])]), (("P", "y", "b"), [])]),
        (("P", "g", _tt(arrow("a", "d", "c"))), [(("P", "h", _tt(arrow("x", "a"))), [(("P", "x0", "x"), [])]), (("P", "z", "d"), [])])))
    e = DSL({"f": W.tt_repo(arrow("a", "c")), "x": W.tt_repo("b")})
    _VARIANT["empty_zero"] = TTCFG.size_constraint(e, W.tt_repo("c"), 3).programs() == 0
    d2 = DSL({"+": W.tt_repo(arrow("int", "int", "int")), "1": W.tt_repo("int")})
    tr2 = W.tt_repo(arrow("bool", "int", "int"))
    _VARIANT["mul_tr"] = (TTCFG.size_constraint(d2, tr2, 3) * TTCFG.size_constraint(d2, tr2, 2)).type_request == tr2
    # proposed repair of the count half of C13-F5: a non-terminal removed by clean() counts 0 in programs()
    un = DSL({"f": W.tt_repo(arrow("a", "b", "c")), "x": W.tt_repo("a"), "k": W.tt_repo("c")})
    _VARIANT["count_zero"] = TTCFG.size_constraint(un, W.tt_repo("c"), 4).programs() == 1
    return _VARIANT


# ----------------------------------------------------------------------------- neighbours
def neighbours(rng, terms, extra_pool, heads, limit):
    out = []
    leaves = [(h, []) for h in heads]
    pool = terms if len(terms) <= 200 else rng.sample(terms, 200)
    big = extra_pool if len(extra_pool) <= 100 else rng.sample(extra_pool, 100)
    if not pool:
        return leaves[:limit]

    def positions(t, path=()):
        yield path
        for i, a in enumerate(t[1]):
            yield from positions(a, path + (i,))

    def replace(t, path, new):
        if not path:
            return new
        h, args = t
        args = list(args)
        args[path[0]] = replace(args[path[0]], path[1:], new)
        return (h, args)

    def at(t, path):
        for i in path:
            t = t[1][i]
        return t
    for t in pool:
        if len(out) >= limit:
            break
        p = rng.choice(list(positions(t)))
        sub = at(t, p)
        k = rng.randrange(6)
        if k == 0:
            new = (rng.choice(heads), sub[1])
        elif k == 1 and sub[1]:
            new = (sub[0], sub[1][:-1])
        elif k == 2 and sub[1]:
            new = (sub[0], sub[1] + [sub[1][-1]])
        elif k == 3:
            new = rng.choice(pool)
        elif k == 4 and big:
            new = rng.choice(big)
        else:
            new = rng.choice(leaves)
        out.append(replace(t, p, new))
    return out


# ----------------------------------------------------------------------------- check
def build_case(case):
    from synth.syntax import DSL
    prims = [(n, _tt(t)) for n, t in case["prims"]]
    forb = {(a, b): set(v) for a, b, v in case["forbidden"]}
    request = _tt(case["request"])
    if case.get("poly"):
        # polymorphic syntax: instantiated by the real code under this worker's PYTHONHASHSEED (the
        # order of the primitives, hence of the rules and of the work list, depends on it)
        dsl, prims2 = poly_prims(case["poly"])
        names = {n for n, _ in prims}
        prims = [(n, _tt(t)) for n, t in prims2 if n in names]
        dsl.list_primitives = [p for p in dsl.list_primitives if p.primitive in names]
        dsl.forbidden_patterns = {k: set(v) for k, v in forb.items()}
    else:
        dsl = DSL({n: W.tt_repo(t) for n, t in prims}, {k: set(v) for k, v in forb.items()})
    return prims, forb, request, dsl, W.tt_repo(request)


def build_impl(dsl, tr, spec, n_gram):
    from synth.syntax import CFG
    from synth.syntax.grammars.ttcfg import TTCFG
    if spec["kind"] == "size":
        return TTCFG.size_constraint(dsl, tr, spec["max_size"], n_gram)
    if spec["kind"] == "atmost":
        return TTCFG.at_most_k(dsl, tr, spec["name"], spec["k"], n_gram)
    return CFG.depth_constraint(dsl, tr, spec["max_depth"], 0, n_gram)


def spec_language(tt, spec, tier):
    """(members, well-typed non-members just outside the bound)"""
    if spec["kind"] == "size":
        k = spec["max_size"]
        memo = {}
        if sum(tt.count_by_size(n, memo=memo) for n in range(1, k + 1)) > MAX_LANG["thorough"]:
            raise TooLarge()
        members = tt.up_to_size(k)
        outside = []
        for n in (k + 1, k + 2):
            if tt.count_by_size(n, memo=memo) <= 400:
                outside += tt.by_size(n)
        return members, outside
    name, k = spec["name"], spec["k"]
    members = tt.up_to_occ(name, k, limit=MAX_LANG["thorough"])
    outside = []
    try:
        outside = tt.by_occ(name, k + 1, limit=400)
    except (TooLarge, Infinite):
        outside = []
    return members, outside


def check(case, M):
    import random
    case = json.loads(json.dumps(case))
    rng = random.Random(case["nseed"])
    if case["mode"] == "mul":
        return check_mul(case, M, rng)
    return check_single(case, M, rng)


def _result(case, key, tags, failures, nontrivial=False, sample=None):
    return {"key": key, "nontrivial": nontrivial, "tags": tags, "failures": failures, "sample": sample or {}}


def check_single(case, M, rng):
    prims, forb, request, dsl, tr = build_case(case)
    spec, ng = case["spec"], case["n_gram"]
    kind = spec["kind"]
    key = json.dumps([case["prims"], case["forbidden"], case["request"], ng, spec])
    tags = [kind, "family:" + case["family"], f"ngram{ng}"]
    failures = []
    var = variant()
    if forb:
        tags.append("forbidden")
    args, ret = args_ret(request)
    if any(not isinstance(a, str) and a[0] == "->" for _, t in prims for a in args_ret(t)[0]):
        tags.append("higher-order-primitive")
    if any(not isinstance(a, str) and a[0] == "->" for a in args):
        tags.append("function-typed-variable")
    # ---- the statement's language
    tt = Terms(prims, forb, request)
    try:
        members, outside = spec_language(tt, spec, "thorough")
    except Infinite:
        return _result(case, key, tags + ["infinite-language(not claimed)"], [])
    except TooLarge:
        return _result(case, key, tags + ["too-large"], [])
    prim_objs = {(p.primitive, W.repo_tt(p.type)): p for p in dsl.list_primitives}
    # ---- implementation
    ranked = None
    if kind == "atmost":
        # hypothesis of C13_atmost_total_partial: a ranking of the types, checked by the Lean predicate
        rk = uncounted_ranking(dsl, spec["name"])
        ranked = rk is not None and M.ask([Sym("c13.ranked"), dsl_wire(dsl, forb), spec["name"], rk]) == "1"
        if rk is not None and not ranked:
            raise RuntimeError("the ranking computed by the harness is rejected by PS.T.uncountedRanked")
        tags.append("atmost-ranked" if ranked else "atmost-unranked(C13-F9 region)")
    limit_c = LOOP_LIMIT if kind == "atmost" and not ranked else IMPL_LIMIT
    try:
        g = limited(limit_c, lambda: build_impl(dsl, tr, spec, ng))
    except ImplTimeout:
        if kind == "atmost" and not ranked and "C13-F9" in open_findings():
            # termination is what the statement presupposes: the language is finite (the oracle enumerated it)
            return _result(case, key, tags + ["timeout"], [{
                "kind": "oracle", "what": "the constructor does not return although the language is finite",
                "detail": f"at_most_k(.., {spec['name']!r}, {spec['k']}) cut after {limit_c} s; the language has {len(members)} programs",
                "finding": "C13-F9"}])
        return _result(case, key, tags + ["timeout", "timeout-constructor(finite language)"], [])
    except RecursionError:
        return _result(case, key, tags + ["timeout", "recursion-constructor"], [])
    dw = dsl_wire(dsl, forb)
    # ---- model (table, programs, type request) and the hypotheses evaluated on the model
    if kind == "size":
        mans = M.ask([Sym("c13.size"), dw, W.ty_wire(tr), spec["max_size"], ng, var["actual"], var["stack_key"], FUEL])
        state_w = lambda st: [st[0], st[1]]
    else:
        mans = M.ask([Sym("c13.atmost"), dw, W.ty_wire(tr), spec["name"], spec["k"], ng, var["stack_key"], FUEL])
        state_w = lambda st: st
    first_order = mans[2] == "1"
    heads = [("P", n, t) for n, t in prims] + [("V", i, a) for i, a in enumerate(args)]
    neigh = neighbours(rng, members, outside, heads, 120) + outside[:150]
    cand = members[:500] + neigh
    gw = struct_wire(g, state_w)
    outside_model = None
    try:
        if kind == "size":
            cans = M.ask([Sym("c13.checksize"), dw, W.ty_wire(tr), spec["max_size"], ng, var["actual"], gw, [term_wire(t) for t in cand], FUEL])
        else:
            cans = M.ask([Sym("c13.checkatmost"), dw, W.ty_wire(tr), spec["name"], spec["k"], ng, gw, [term_wire(t) for t in cand], FUEL])
    except RuntimeError as e:
        if "rejected" not in str(e):
            raise
        # the implementation's table is outside the model's domain (e.g. a negative state): the
        # model-side observables are skipped, the oracle below still decides
        outside_model = str(e)[:200]
        cans = M.ask([Sym("c13.checksize" if kind == "size" else "c13.checkatmost")] + (
            [dw, W.ty_wire(tr), spec["max_size"], ng, var["actual"]] if kind == "size" else [dw, W.ty_wire(tr), spec["name"], spec["k"], ng]) + [
            [Sym("tt"), gw[1] if kind == "size" else [gw[1][0], gw[1][1], max(0, spec["k"])], []], [term_wire(t) for t in cand], FUEL])
    sub_ok, closed_ok, ndead, bits = cans[0] == "1", cans[1] == "1", int(cans[2]), cans[5]
    mprog_impl = cans[6] if var["count_zero"] else cans[4] if var["empty_zero"] else cans[3]
    # hypotheses on the MODEL's own table for this input
    hyp = {"sub": None, "closed": None, "start": None}
    model_tbl = None
    if mans[0][0] == "ok":
        model_tbl = mans[0][1][0]
        if kind == "size":
            hans = M.ask([Sym("c13.checksize"), dw, W.ty_wire(tr), spec["max_size"], ng, var["actual"], rewire(model_tbl), [term_wire(t) for t in cand], FUEL])
        else:
            hans = M.ask([Sym("c13.checkatmost"), dw, W.ty_wire(tr), spec["name"], spec["k"], ng, rewire(model_tbl), [term_wire(t) for t in cand], FUEL])
        # theorems about the construction itself, re-checked on the model's own grammar for this input
        if var["stack_key"] and (first_order or var["actual"] or kind == "atmost"):
            for t, hb in zip(cand, hans[5]):
                if hb[1] != hb[4]:
                    raise RuntimeError(f"the model's grammar differs from the specification on {term_str(t)} (contradicts C13_size_vis / C13_atmost_vis)")
            if (ng >= 2 or ng < 0) and hans[6] != "none" and int(hans[6]) != len(members):
                raise RuntimeError(f"programsR of the model's grammar is {hans[6]}, the language has {len(members)} programs (contradicts C13_count_size / C13_count_atmost)")
        hyp["sub"], hyp["closed"] = hans[0] == "1", hans[1] == "1"
        hyp["start"] = json.dumps(_plain(model_tbl[1])) in {json.dumps(e[0]) for e in _plain(model_tbl[2])}
    hyp_ngram = ng >= 2 or ng < 0 or not forb

    def classify(what):
        """known-finding attribution: decidable hypotheses of the `_partial` theorems, evaluated
        on the model's table for this input; each finding only explains its own symptoms"""
        lang_sym = what in ("a member of the language is not in the grammar", "programs() is not the size of the language",
                            "a derivation that can be started cannot be completed")
        if hyp["sub"] is False and (lang_sym or what.startswith("implementation's table fails the verified checker subOK")):
            return "C13-F2"
        if hyp["start"] is False and what == "programs() is not the size of the language" and not var["empty_zero"]:
            return "C13-F6"
        if hyp["sub"] and hyp["closed"] is False and hyp["start"] and (
                what == "a derivation that can be started cannot be completed"
                or (what == "programs() is not the size of the language" and not var["count_zero"])):
            return "C13-F5"
        if not first_order and not var["actual"] and kind == "size" and what in (
                "a member of the language is not in the grammar", "programs() is not the size of the language"):
            return "C13-F3"
        if not hyp_ngram and what in ("a term outside the language is in the grammar", "programs() is not the size of the language"):
            return "C13-F7"
        return None

    def fail(k, what, detail):
        if any(f["what"] == what for f in failures):
            return
        f = {"kind": k, "what": what, "detail": str(detail)[:500]}
        fid = classify(what)
        if fid:
            f["finding"] = fid
        failures.append(f)
    # ---- Lean specification = Python oracle (harness error otherwise)
    for t, b in zip(cand, bits):
        in_lang = (tt.well_typed(t) and not has_forbidden(t, forb)
                   and (size_of(t) <= spec["max_size"] if kind == "size" else occ_of(spec["name"], t) <= spec["k"]))
        if (b[3] == "1") != in_lang:
            raise RuntimeError(f"Lean specification and Python oracle disagree on {term_str(t)}: {b[3]} vs {in_lang}")
        if int(b[6]) != (size_of(t) if kind == "size" else occ_of(spec["name"], t)):
            raise RuntimeError(f"Lean size/occurrence count differs on {term_str(t)}")
        if b[0] != b[1]:
            raise RuntimeError("containsRec and the stack-free run disagree (contradicts theorem C13_contains_run)")
        if outside_model is None and sub_ok and b[1] != b[2]:
            raise RuntimeError("table accepted by subOK but its language differs from the rule-creation language (contradicts C13_certified)")
        if (first_order or var["actual"] or kind == "atmost") and b[2] != b[4]:
            raise RuntimeError(f"language of the rule-creation step differs from the specification on {term_str(t)} (contradicts C13_size/C13_atmost)")
    mset = {tkey(t) for t in members}
    if len(mset) != len(members):
        raise RuntimeError("oracle enumerated a term twice")
    # ---- 1. type request
    if g.type_request != tr:
        fail("oracle", "grammar reports another type request", f"{g.type_request} instead of {tr}")
    # ---- 2. membership
    cand_repo = [to_repo(t, prim_objs) for t in cand]
    for t, tr_, b in zip(cand, cand_repo, bits):
        got = tr_ in g
        if outside_model is None and (b[0] == "1") != got:
            fail("corr", "membership differs from the model's containsRec on the same table", f"{tr_}: impl={got} model={b[0]}")
        want = tkey(t) in mset
        if want and not got:
            fail("oracle", "a member of the language is not in the grammar", f"{tr_} (size {size_of(t)})")
        if got and not want:
            fail("oracle", "a term outside the language is in the grammar", f"{tr_} (size {size_of(t)}, well typed: {tt.well_typed(t)}, forbidden pattern: {has_forbidden(t, forb)})")
    for t in members[500:]:
        if to_repo(t, prim_objs) not in g:
            fail("oracle", "a member of the language is not in the grammar", f"{term_str(t)}")
            break
    # ---- 3. programs()
    try:
        nprog = limited(IMPL_LIMIT, g.programs)
    except (ImplTimeout, RecursionError):
        nprog = None
        tags.append("timeout")
    if nprog is not None:
        if nprog != len(members):
            fail("oracle", "programs() is not the size of the language", f"{nprog} reported, {len(members)} programs in the language")
        if outside_model is None and str(mprog_impl) != str(nprog):
            fail("corr", "programs() differs from the model's programs on the same table", f"{nprog} vs {mprog_impl}")
    # ---- 4. every derivation that can be started can be completed
    stuck, empty, complete = stuck_configs(g)
    if stuck or empty:
        fail("oracle", "a derivation that can be started cannot be completed",
             f"after {stuck[0][0]} -> {stuck[0][1]} the non-terminal {stuck[0][2]} does not exist" if stuck else f"non-terminal without rules: {empty[0]}")
    if outside_model is not None:
        fail("corr", "implementation's rule table is outside the model's domain", outside_model)
    if outside_model is None and complete and not stuck and not empty and g.start in g.rules and not closed_ok:
        fail("corr", "implementation's table fails the verified checker closedOK although no derivation is stuck", "")
    if outside_model is None and (stuck or empty) and closed_ok:
        raise RuntimeError("closedOK accepted a table with a stuck derivation (contradicts C13_clean)")
    # ---- 5. verified language checker on the actual table
    if outside_model is None and not sub_ok:
        fail("corr", "implementation's table fails the verified checker subOK (language of the table is not the language of the rule creation)", f"dead={ndead}")
    # ---- 6. structure: model's table
    if mans[0][0] == "ok":
        a, b = canon_table(reachable_part(gw)), canon_table(reachable_part(model_tbl))
        if a != b and outside_model is None:
            # the order in which the work list is explored decides which pending stacks are dropped
            # (C13-F2) and which unreachable rows clean() leaves: a difference is a violation only
            # if the verified checkers judge the two tables differently
            if sub_ok == hyp["sub"] and closed_ok == hyp["closed"]:
                tags.append("structural-drift(rule table differs from the model's, same verdicts of subOK/closedOK)")
            else:
                fail("corr", "rule table differs from the model's table", f"{len(a)} vs {len(b)} non-terminals; e.g. {sorted(set(a) ^ set(b))[:1]}")
        if mans[0][1][2] != _plain(W.ty_wire(g.type_request)):
            fail("corr", "type request differs from the model", "")
    elif mans[0][0] == "fuel":
        tags.append("model-fuel")
    else:
        fail("corr", "model raises KeyError where the implementation returns", "")
    napp = sum(1 for t in members if t[1])
    nrej = sum(1 for t in neigh if tkey(t) not in mset)
    nontrivial = len(members) >= 3 and napp >= 1 and nrej >= 1
    if hyp["sub"] is False:
        tags.append("F2-region(model table not stack closed)")
    elif hyp["closed"] is False and hyp["start"]:
        tags.append("F5-region(model table not clean)")
    if hyp["start"] is False:
        tags.append("empty-language")
    if not first_order:
        tags.append("not-first-order")
    if not hyp_ngram:
        tags.append("ngram<=1-with-forbidden")
    n = len(members)
    tags.append("lang<10" if n < 10 else "lang<100" if n < 100 else "lang<1000" if n < 1000 else "lang>=1000")
    sample = {"prims": {n: G.ty_str(t) for n, t in prims}, "forbidden": {f"{a}#{b}": sorted(v) for (a, b), v in forb.items()},
              "request": G.ty_str(request), "n_gram": ng, "spec": spec, "language_size": n,
              "examples": sorted(term_str(t) for t in members)[:4], "programs()": nprog}
    return _result(case, key, tags, failures, nontrivial, sample)


def check_mul(case, M, rng):
    from synth.syntax import DSL
    prims, forb, request, dsl, tr = build_case(case)
    ng = case["n_gram"]
    key = json.dumps([case["prims"], case["forbidden"], case["request"], ng, case["left"], case["right"], case.get("right_drop")])
    tags = ["mul", "family:" + case["family"], f"{case['left']['kind']}x{case['right']['kind']}"]
    failures = []
    var = variant()

    def fail(k, what, detail, finding=None):
        if any(f["what"] == what for f in failures):
            return
        f = {"kind": k, "what": what, "detail": str(detail)[:500]}
        if finding:
            f["finding"] = finding
        failures.append(f)
    dsl2 = dsl
    if case.get("right_drop"):
        import copy
        dsl2 = copy.copy(dsl)
        dsl2.list_primitives = [p for p in dsl.list_primitives if p.primitive != case["right_drop"]]
        dsl2.forbidden_patterns = {k: set(v) for k, v in forb.items() if k[0] != case["right_drop"]}
        tags.append("sub-dsl")
    for sp, drop in ((case["left"], None), (case["right"], case.get("right_drop"))):
        if sp["kind"] == "atmost":
            try:
                Terms([(n, t) for n, t in prims if n != drop], {k: v for k, v in forb.items() if k[0] != drop}, request).up_to_occ(
                    sp["name"], sp["k"], limit=MAX_LANG["thorough"])
            except Infinite:
                return _result(case, key, tags + ["infinite-factor(not claimed)"], [])
            except TooLarge:
                return _result(case, key, tags + ["too-large"], [])
    try:
        def lim(d, sp):
            return LOOP_LIMIT if sp["kind"] == "atmost" and uncounted_ranking(d, sp["name"]) is None else IMPL_LIMIT
        g1 = limited(lim(dsl, case["left"]), lambda: build_impl(dsl, tr, case["left"], ng))
        g2 = limited(lim(dsl2, case["right"]), lambda: build_impl(dsl2, tr, case["right"], ng))
    except (ImplTimeout, RecursionError):
        return _result(case, key, tags + ["timeout", "timeout-factor"], [])
    except KeyError:
        return _result(case, key, tags + ["empty-language(KeyError of CFG.depth_constraint)"], [])
    # ---- languages of the two factors, straight from their rule tables
    try:
        l1 = TableLang(g1.rules, MAX_LANG["thorough"])
        lang1 = [t for t, _ in l1.seqs(g1.start)]
        l2 = TableLang(g2.rules, MAX_LANG["thorough"] * 20)
    except Infinite:
        return _result(case, key, tags + ["infinite-factor(not claimed)"], [])
    except TooLarge:
        return _result(case, key, tags + ["too-large"], [])
    common = [t for t in lang1 if l2.run(t, g2.start) is not None]
    cset = {tkey(t) for t in common}
    try:
        g = limited(IMPL_LIMIT, lambda: g1 * g2)
    except (ImplTimeout, RecursionError):
        return _result(case, key, tags + ["timeout", "timeout-product"], [])
    except KeyError as e:
        if not common:
            # start symbol of a factor has no rule: the product's clean() reads rules[start]
            fail("oracle", "product of grammars raises KeyError (empty factor)", repr(e),
                 None if (g1.start in g1.rules and g2.start in g2.rules) else "C13-F6")
            return _result(case, key, tags + ["empty-factor"], failures)
        fail("oracle", "product raises KeyError although the factors have programs in common", repr(e))
        return _result(case, key, tags, failures)
    prim_objs = {(p.primitive, W.repo_tt(p.type)): p for p in dsl.list_primitives}
    args, _ = args_ret(request)
    heads = [("P", n, t) for n, t in prims] + [("V", i, a) for i, a in enumerate(args)]
    only1 = [t for t in lang1 if tkey(t) not in cset]
    try:
        lang2 = [t for t, _ in l2.seqs(g2.start)] if len(lang1) < 3000 else []
    except (Infinite, TooLarge):
        lang2 = []
    only2 = [t for t in lang2 if l1.run(t, g1.start) is None][:200]
    cand = common[:400] + only1[:200] + only2 + neighbours(rng, common or lang1, only1, heads, 80)
    s1, t1, s2, t2 = Names("s"), Names("t"), Names("u"), Names("v")
    w1, w2 = opaque_wire(g1, s1, t1), opaque_wire(g2, s2, t2)

    def nt_p(S):
        return [W.ty_wire(S[0]), [s1(S[1][0][0]), s2(S[1][0][1])], [t1(S[1][1][0]), t2(S[1][1][1])]]
    entries = []
    for S in g.rules:
        rs = []
        for P in g.rules[S]:
            a_, st = g.rules[S][P]
            rs.append([W.sym_wire(P), [[W.ty_wire(a[0]), [s1(a[1][0]), s2(a[1][1])]] for a in a_], [t1(st[0]), t2(st[1])]])
        entries.append([nt_p(S), rs])
    wi = [Sym("tt"), nt_p(g.start), entries]
    ans = M.ask([Sym("c13.mul"), w1, w2, wi, [term_wire(t) for t in cand], FUEL])
    mres = ans[1] if var["empty_zero"] else ans[0]
    sub_ok, closed_ok, typed_ok, bits = ans[3] == "1", ans[4] == "1", ans[6] == "1", ans[7]
    mprog_impl = ans[8] if var["count_zero"] else ans[2] if var["empty_zero"] else ans[5]
    if not typed_ok:
        fail("corr", "a factor's rule table gives a symbol other argument types than its type has at the non-terminal (hypothesis typedOK of C13_product_typed)", "")
    # ---- the property: membership = in both
    cand_repo = [to_repo(t, prim_objs) for t in cand]
    for t, tr_, b in zip(cand, cand_repo, bits):
        got = tr_ in g
        in1, in2 = l1.run(t, g1.start) is not None, l2.run(t, g2.start) is not None
        if (b[0] == "1") != in1 or (b[1] == "1") != in2:
            raise RuntimeError(f"model membership in a factor differs from the table oracle on {term_str(t)}")
        if (b[2] == "1") != got:
            fail("corr", "membership in the product differs from the model's containsRec on the same table", f"{tr_}")
        if (b[3] == "1") != (in1 and in2):
            raise RuntimeError("raw product table's language is not the intersection (contradicts C13_product)")
        if got != (in1 and in2):
            fail("oracle", "product membership is not membership in both factors", f"{tr_}: product={got}, left={in1}, right={in2}")
    # language of the product table by expansion
    try:
        lpt = [t for t, _ in TableLang(g.rules, MAX_LANG["thorough"] * 4).seqs(g.start)]
        lp = sorted(tkey(t) for t in lpt)
        if lp != sorted(cset):
            fail("oracle", "language of the product table is not the intersection of the factors' languages",
                 f"extra={[term_str(t) for t in lpt if tkey(t) not in cset][:3]} missing={[term_str(t) for t in common if tkey(t) not in set(lp)][:3]} ({len(lp)} vs {len(cset)})")
    except (Infinite, TooLarge):
        fail("oracle", "language of the product table is not the intersection of the factors' languages", "product table cyclic or larger than the left factor")
    stuck, empty, complete = stuck_configs(g)
    # hypothesis of C13_count / C13_clean for products: closedOK of the MODEL's product table
    hyp_closed = None
    if mres[0] == "ok":
        h = M.ask([Sym("c13.mul"), w1, w2, rewire(mres[1][0]), [], FUEL])
        hyp_closed = h[4] == "1"
    fid = "C13-F5" if hyp_closed is False else None
    if not common and g.start not in g.rules and not var["empty_zero"]:
        fid = "C13-F6"
    nprog = limited(IMPL_LIMIT, g.programs)
    if nprog != len(common):
        fail("oracle", "programs() of the product is not the number of common programs", f"{nprog} vs {len(common)}",
             None if var["count_zero"] and fid == "C13-F5" else fid)
    if str(mprog_impl) != str(nprog):
        fail("corr", "programs() differs from the model's programs on the same table", f"{nprog} vs {mprog_impl}")
    if not var["mul_tr"] and ans[0][0] == "ok" and ans[0][1][2] != _plain(W.ty_wire(g.type_request)):
        fail("corr", "type request of the product differs from the model's _guess_type_request_", f"{g.type_request}")
    if stuck or empty:
        fail("oracle", "a derivation of the product that can be started cannot be completed",
             f"after {stuck[0][0]} -> {stuck[0][1]}: {stuck[0][2]} missing" if stuck else f"empty row {empty[0]}", fid)
        if closed_ok:
            raise RuntimeError("closedOK accepted a table with a stuck derivation (contradicts C13_clean)")
    elif complete and g.start in g.rules and not closed_ok:
        fail("corr", "product table fails the verified checker closedOK although no derivation is stuck", "")
    if not sub_ok:
        fail("corr", "product table fails the verified checker subOK against the raw product of the factors", "")
    if g.type_request != tr:
        used = {P.variable for S in g.rules for P in g.rules[S] if hasattr(P, "variable")}
        hyp_tr = all(i in used for i in range(len(args)))
        fail("oracle", "product reports another type request than its factors", f"{g.type_request} instead of {tr}",
             None if hyp_tr or var["mul_tr"] else "C13-F8")
    if mres[0] == "ok":
        a, b = canon_table(reachable_part(wi)), canon_table(reachable_part(mres[1][0]))
        if a != b:
            fail("corr", "product table differs from the model's product", f"{len(a)} vs {len(b)} non-terminals; e.g. {sorted(set(a) ^ set(b))[:1]}")
    elif mres[0] == "keyError":
        fail("corr", "model raises KeyError where the implementation returns", "")
    else:
        tags.append("model-fuel")
    nontrivial = len(common) >= 2 and len(only1) + len(only2) >= 1
    tags.append("common<10" if len(common) < 10 else "common<100" if len(common) < 100 else "common>=100")
    if hyp_closed is False:
        tags.append("F5-region(model product not clean)")
    sample = {"prims": {n: G.ty_str(t) for n, t in prims}, "request": G.ty_str(request), "left": case["left"], "right": case["right"],
              "right_drop": case.get("right_drop"), "common": len(common), "left_only": len(only1), "examples": sorted(term_str(t) for t in common)[:4]}
    return _result(case, key, tags, failures, nontrivial, sample)


# ----------------------------------------------------------------------------- corpus
def corpus():
    A = arrow
    base = {"family": "corpus", "nseed": 1}
    out = []
    # C13-F1 (repaired de1af6d): forbidden patterns never honoured
    out.append(dict(base, prims=[["+", A("int", "int", "int")], ["1", "int"]], forbidden=[["+", 0, ["+", "1"]]],
                    request=A("int", "int"), n_gram=2, mode="size", spec={"kind": "size", "max_size": 5}))
    out.append(dict(base, prims=[["+", A("int", "int", "int")], ["1", "int"]], forbidden=[["+", 1, ["+"]]],
                    request=A("int", "int"), n_gram=2, mode="atmost", spec={"kind": "atmost", "name": "+", "k": 2}))
    # C13-F4 (repaired b7c3f16): guessed type request
    out.append(dict(base, prims=[["+", A("int", "int", "int")], ["1", "int"]], forbidden=[],
                    request=A("int", "bool", "int"), n_gram=2, mode="size", spec={"kind": "size", "max_size": 3}))
    # C04-F5 (repaired cd7734a): programs() popped the pending arguments in reverse (3 arguments)
    out.append(dict(base, prims=[["ite", A("bool", "int", "int", "int")], ["+", A("int", "int", "int")], ["1", "int"], ["t", "bool"], ["not", A("bool", "bool")]],
                    forbidden=[], request="int", n_gram=2, mode="size", spec={"kind": "size", "max_size": 6}))
    # C13-F2 (open): second stack reaching an existing rule key is dropped
    out.append(dict(base, prims=[["f", A("a", "b", "c")], ["g", A("a", "d", "c")], ["h", A("x", "a")], ["x0", "x"], ["y", "b"], ["z", "d"]],
                    forbidden=[], request="c", n_gram=2, mode="size", spec={"kind": "size", "max_size": 4}))
    # C13-F3 (open / proposed repair): partial application charged its declared arity
    out.append(dict(base, prims=[["map", A(A("int", "int"), "int", "int")], ["succ", A("int", "int")], ["1", "int"]],
                    forbidden=[], request="int", n_gram=2, mode="size", spec={"kind": "size", "max_size": 3}))
    # C13-F5 (open): later argument without inhabitant
    out.append(dict(base, prims=[["f", A("a", "b", "c")], ["x", "a"], ["k", "c"]], forbidden=[], request="c", n_gram=2,
                    mode="size", spec={"kind": "size", "max_size": 4}))
    # C13-F9 (proposed): finite language, but a recursive primitive can be derived without spending an occurrence:
    # the constructor does not return (cut after IMPL_LIMIT seconds)
    out.append(dict(base, prims=[["g", A("a", "a", "a")], ["l", "a"]], forbidden=[], request="a", n_gram=2,
                    mode="atmost", spec={"kind": "atmost", "name": "l", "k": 1}))
    out.append(dict(base, prims=[["f", A("a", "c")], ["g", A("a", "a", "a")], ["k", "c"]], forbidden=[], request="c", n_gram=2,
                    mode="atmost", spec={"kind": "atmost", "name": "k", "k": 1}))
    # C13-F6: empty language, programs() = 1
    out.append(dict(base, prims=[["f", A("a", "c")], ["x", "b"]], forbidden=[], request="c", n_gram=2,
                    mode="size", spec={"kind": "size", "max_size": 3}))
    # C13-F8: product re-guesses the type request
    out.append(dict(base, prims=[["+", A("int", "int", "int")], ["1", "int"]], forbidden=[], request=A("bool", "int", "int"), n_gram=2,
                    mode="mul", left={"kind": "size", "max_size": 3}, right={"kind": "size", "max_size": 5}, right_drop=None))
    # product size x at most, size x depth
    out.append(dict(base, prims=[["+", A("int", "int", "int")], ["neg", A("int", "int")], ["1", "int"]], forbidden=[], request=A("int", "int"), n_gram=2,
                    mode="mul", left={"kind": "size", "max_size": 5}, right={"kind": "atmost", "name": "+", "k": 1}, right_drop="neg"))
    out.append(dict(base, prims=[["+", A("int", "int", "int")], ["neg", A("int", "int")], ["1", "int"]], forbidden=[], request=A("int", "int"), n_gram=2,
                    mode="mul", left={"kind": "size", "max_size": 5}, right={"kind": "depth", "max_depth": 3}, right_drop=None))
    return out
