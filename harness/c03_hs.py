"""C03, part hs — heap search (deterministic and unambiguous grammars) yields programs by
non-increasing probability, bucket search by non-decreasing bucket tuple; consequently every
program of strictly larger probability than a yielded one was yielded before it.

oracle : exact Fraction probability / bucket tuple of every program of the language, computed from
         the rule table and the weights by the harness (enumhs.expand_* / bucket_of_*), for
         unambiguous grammars including the start-symbol weight
search : random float weights spanning 1e-6..1, order asserted with relative tolerance 1e-9
"""
import random
from fractions import Fraction

from harness import enumhs as E
from harness import enumhs_rec as R

CASE_TIMEOUT = {"quick": 150, "thorough": 600}


def gen(rng, i, tier):
    if R.enabled("C03-F3") and i % 16 == 7:          # recursive grammars: region of findings C03-F3 / C03-F4
        return R.gen_rec(random.Random(rng.randrange(1 << 30) ^ i), tier)
    c = E.gen_case(rng, i, tier)
    if rng.random() < 0.25:
        c["prefix"] = rng.choice([1, 2, 3, 5, 8, 13, 30, 100])     # stop early: every prefix length
    return c


def shrink(case):
    if case.get("family") == "rec":
        return iter(())
    return E.shrink_case(case)


def blt(a, b):
    """Bucket.__lt__"""
    for x, y in zip(a, b):
        if x < y:
            return True
        if x > y:
            return False
    return False


def check(case, M):
    if case.get("family") == "rec":
        return R.check_rec(case, M, "C03")
    tier = case.get("tier", "quick")
    if case.get("prefix"):
        case = dict(case)
        case["merges"] = []
    r = E.run_case(case, M, tier)
    if "trivial" in r:
        return {"key": E.key_of(case), "nontrivial": False, "tags": ["trivial:" + r["trivial"]], "failures": []}
    failures = []
    fid = E.finding_of(case, r, "C03")

    def fail(kind, what, detail):
        f = {"kind": kind, "what": what, "detail": detail}
        if fid:
            f["finding"] = fid
        failures.append(f)
    for what, detail in r["corr"]:
        failures.append({"kind": "corr", "what": what, "detail": detail})
    ys = E.flat(r["steps"])
    if case.get("prefix"):
        ys = ys[:case["prefix"]]
    probs = {E.show(p): w for p, w in r["lang"]}
    Y = [E.show(p) for p in ys]
    if r["err"] is None and all(y in probs for y in Y):
        if case["enum"]["kind"] == "heap":
            seq = [probs[y] for y in Y]
            bad = next((k for k in range(1, len(seq)) if seq[k] > seq[k - 1]), None)
            if bad is not None:
                fail("oracle", "a program is yielded after a less probable one", f"position {bad}: {Y[bad]} ({seq[bad]}) after {Y[bad-1]} ({seq[bad-1]})")
            # prefix completeness
            if seq:
                thr = r["thr"]
                lowest = min(seq)
                if case["family"] == "det":
                    owed = [E.show(p) for p, w in r["lang"] if w > lowest]
                else:
                    owed = [E.show(p) for p, w, S in r["lang_starts"] if w > lowest and (thr == 0 or w / r["start_w"][S] > thr)]
                miss = sorted(set(owed) - set(Y))
                if miss:
                    fail("oracle", "a strictly more probable program was not yielded before", f"{len(miss)} e.g. {miss[:3]} (> {lowest})")
        else:
            size = case["enum"]["size"]
            g = r["g"]
            if case["family"] == "det":
                bk = {E.show(p): E.bucket_of_det(g, r["weights"], size, p) for p in ys}
                allb = None
            else:
                st = {E.show(p): S for p, _, S in r["lang_starts"]}
                bk = {E.show(p): E.bucket_of_u(g, r["weights"], r["start_w"], size, p, st[E.show(p)]) for p in ys}
            seq = [bk[y] for y in Y]
            bad = next((k for k in range(1, len(seq)) if blt(seq[k], seq[k - 1])), None)
            if bad is not None:
                fail("oracle", "a program is yielded after one with a larger bucket tuple", f"position {bad}: {Y[bad]} {seq[bad]} after {Y[bad-1]} {seq[bad-1]}")
    if case.get("fseed") is not None and not failures and case["enum"]["kind"] == "heap":
        float_search(case, r, fail)
    ties, nprob = E.ntie_groups(r["lang"])
    tags = E.base_tags(case, r)
    if ties:
        tags.append("ties")
    if case.get("prefix"):
        tags.append("prefix")
    nontrivial = len(r["lang"]) >= 10 and nprob >= 2 and ties >= 1
    return {"key": E.key_of(case), "nontrivial": nontrivial, "tags": tags, "failures": failures, "sample": E.sample_of(case, r)}


def float_search(case, r, fail):
    rng = random.Random(case["fseed"])
    g = r["g"]

    def w():
        return 10 ** (-6 * rng.random() ** 2)
    if case["family"] == "det":
        from synth.syntax.grammars.tagged_det_grammar import ProbDetGrammar
        from synth.syntax.grammars.enumeration.heap_search import HeapSearch
        ws = {S: {P: w() for P in rs} for S, rs in g.rules.items()}
        en = HeapSearch(ProbDetGrammar(g, ws))
        exact = {E.show(p): float(q) for p, q in E.expand_det(g, {S: {P: Fraction(x) for P, x in d.items()} for S, d in ws.items()}, 10 ** 6)}
    else:
        from synth.syntax.grammars.tagged_u_grammar import ProbUGrammar
        from synth.syntax.grammars.enumeration.u_heap_search import UHeapSearch
        ws = {S: {P: {tuple(v): w() for v in alts} for P, alts in rs.items()} for S, rs in g.rules.items()}
        sw = {S: w() for S in g.starts}
        en = UHeapSearch(ProbUGrammar(g, ws, sw))
        exact = {E.show(p): float(q) for p, q, _ in E.expand_u(g, {S: {P: {v: Fraction(x) for v, x in d.items()} for P, d in dd.items()} for S, dd in ws.items()},
                                                           {S: Fraction(x) for S, x in sw.items()}, 10 ** 6)}
    last = None
    n = 0
    try:
        for p in en:
            n += 1
            q = exact.get(E.show(E.of_prog(p)))
            if q is None or n > 4 * len(exact) + 10:
                return          # set failures are C02's business
            if last is not None and q > last * (1 + 1e-9):
                fail("oracle", "a program is yielded after a less probable one (float weights)", f"position {n}: {p} ({q}) after ({last})")
                return
            last = q
    except Exception:  # noqa
        return


def corpus():
    return [
        {"family": "u", "build": {"src": "prims", "prims": [["+", ["->", "int", ["->", "int", "int"]]], ["1", "int"]], "forbidden": [], "request": ["->", "int", "int"],
                                  "kind": "ucfg-dfta", "max_depth": 3, "min_var": 1, "n_gram": 2, "cseed": 0, "nconstraints": 0},
         "order": "built", "oseed": 0, "weights": "dyadic", "wseed": 3, "enum": {"kind": "bucket", "size": 3}, "filter": None, "merges": []},
        {"family": "det", "build": {"src": "testdsl", "request": ["->", "int", "int"], "kind": "ttcfg-size", "max_size": 5, "n_gram": 2},
         "order": "built", "oseed": 1, "weights": "uniform", "wseed": 0, "enum": {"kind": "bucket", "size": 4}, "filter": None, "merges": []},
    ]
