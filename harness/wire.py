"""Repo objects -> wire S-expressions (nested lists for harness.sexp.dump), and harness
tuple-types -> repo types.  Only constructors/attributes of synth are used."""
from harness.sexp import Sym as A


def ty_wire(t):
    from synth.syntax.type_system import Arrow, Generic, PrimitiveType, UnknownType
    if isinstance(t, PrimitiveType):
        return [A("b"), t.type_name]
    if isinstance(t, Arrow):
        return [A("->"), ty_wire(t.type_in), ty_wire(t.type_out)]
    if isinstance(t, Generic) and len(t.types) == 1:
        return [A("g"), t.name, ty_wire(t.types[0])]
    if isinstance(t, UnknownType):
        return [A("unk")]
    raise ValueError(f"type not supported on the wire: {t!r}")


def tt_wire(t):
    """harness tuple type -> wire"""
    if isinstance(t, str):
        return [A("b"), t]
    if t[0] == "->":
        return [A("->"), tt_wire(t[1]), tt_wire(t[2])]
    if t[0] == "list":
        return [A("g"), "list", tt_wire(t[1])]
    raise ValueError(t)


def tt_repo(t):
    """harness tuple type -> repo Type (constructors only)"""
    from synth.syntax.type_system import Arrow, List, PrimitiveType
    if isinstance(t, str):
        return PrimitiveType(t)
    if t[0] == "->":
        return Arrow(tt_repo(t[1]), tt_repo(t[2]))
    if t[0] == "list":
        return List(tt_repo(t[1]))
    raise ValueError(t)


def repo_tt(t):
    """repo Type -> harness tuple type"""
    from synth.syntax.type_system import Arrow, Generic, PrimitiveType
    if isinstance(t, PrimitiveType):
        return t.type_name
    if isinstance(t, Arrow):
        return ("->", repo_tt(t.type_in), repo_tt(t.type_out))
    if isinstance(t, Generic) and len(t.types) == 1 and t.name == "list":
        return ("list", repo_tt(t.types[0]))
    raise ValueError(f"{t!r}")


def sym_wire(p):
    from synth.syntax.program import Constant, Primitive, Variable
    if isinstance(p, Primitive):
        return [A("P"), p.primitive, ty_wire(p.type)]
    if isinstance(p, Variable):
        return [A("V"), p.variable, ty_wire(p.type)]
    if isinstance(p, Constant):
        return [A("C"), ty_wire(p.type), str(p.value) if p.has_value() else ""]
    raise ValueError(f"not a derivable program: {p!r}")


def prog_wire(p):
    from synth.syntax.program import Function
    if isinstance(p, Function):
        return [A("A"), sym_wire(p.function)] + [prog_wire(a) for a in p.arguments]
    return [A("A"), sym_wire(p)]


def ctx_wire(ngram):
    return [[sym_wire(s), i] for (s, i) in ngram.predecessors]


def arg_wire(a):
    """(Type, (NGram, depth))"""
    return [ty_wire(a[0]), ctx_wire(a[1][0]), a[1][1]]


def nt_wire(nt):
    """(Type, ((NGram, depth), None))"""
    return [ty_wire(nt[0]), ctx_wire(nt[1][0][0]), nt[1][0][1]]


def cfg_wire(cfg):
    entries = []
    for S in cfg.rules:
        rs = []
        for P in cfg.rules[S]:
            args = cfg.rules[S][P][0]
            rs.append([sym_wire(P), [arg_wire(a) for a in args]])
        entries.append([nt_wire(S), rs])
    return [A("cfg"), nt_wire(cfg.start), entries]


def params_wire(prims, forbidden, request, max_depth, min_var, n_gram, recursive, const_types):
    forb = [[[k[0], k[1]]] + sorted(v) for k, v in sorted(forbidden.items())]
    return [A("params"), [sym_wire(p) for p in prims], forb, ty_wire(request), max_depth, min_var, n_gram,
            bool(recursive), [ty_wire(t) for t in const_types]]


# ---- wire (parsed) -> harness tuple terms, for printing / comparison
def wire_ty_tt(w):
    if w[0] == "b":
        return str(w[1])
    if w[0] == "->":
        return ("->", wire_ty_tt(w[1]), wire_ty_tt(w[2]))
    if w[0] == "g":
        return ("list", wire_ty_tt(w[2])) if w[1] == "list" else ("gen", str(w[1]), wire_ty_tt(w[2]))
    return "UnknownType"


def repo_ty_str(t):
    """str() of the repo type for a tuple type"""
    if isinstance(t, str):
        return t
    if t[0] == "->":
        return "(" + repo_ty_str(t[1]) + " -> " + repo_ty_str(t[2]) + ")"
    if t[0] == "list":
        return repo_ty_str(t[1]) + " list"
    return str(t)


def wire_prog_str(w):
    """printed form of a wire program, as str(program) prints it"""
    h = w[1]
    if h[0] == "P":
        hs = str(h[1])
    elif h[0] == "V":
        hs = f"var{h[1]}"
    else:
        hs = str(h[2]) if h[2] != "" else "<" + repo_ty_str(wire_ty_tt(h[1])) + ">"
    if len(w) == 2:
        return hs
    return "(" + " ".join([hs] + [wire_prog_str(a) for a in w[2:]]) + ")"
