"""C02, part bee — bee search yields every program of a finite grammar exactly once, nothing else, and stops.

impl   : BeeSearch / enumerate_prob_grammar (bee_search.py) on CFG.depth_constraint grammars
model  : PS.Bee.next (driver op bee.run): yielded sequence (exact, ties included), cost list, banks, heap
         arrays, delayed lists, deleted set, max-index table, the generator's progs / failed counters
oracle : language + integer cost by exhaustive expansion of the rule table (harness/enumbee.py);
         the discretised rule costs recomputed with decimal logarithms
search : the same grammars with random *float* weights through enumerate_prob_grammar (oracle only)
The run of the implementation is bounded by the harness: it is stopped when the cheapest queued cost
exceeds the cost of the most expensive program of the language (nothing of the language can come later).
"""
import random

from harness import enumbee as B
from harness import enumhs as E

CASE_TIMEOUT = {"quick": 150, "thorough": 600}


def gen(rng, i, tier):
    return B.gen_case(rng, i, tier)


def shrink(case):
    return B.shrink_case(case)


def set_failures(r, ys, fail, complete=True):
    Y = [B.show(p) for p in ys]
    L = {B.show(p) for p, _ in r["lang"]}
    if len(Y) != len(set(Y)):
        fail("oracle", "a program is yielded twice", next(y for k, y in enumerate(Y) if y in Y[:k]))
    extra = sorted(set(Y) - L)
    if extra:
        fail("oracle", "a program outside the language is yielded", str(extra[:3]))
    missing = sorted(L - set(Y)) if complete else []
    if missing:
        fail("oracle", "a program of the language is never yielded", f"{len(missing)} of {len(L)} missing, e.g. {missing[:3]}")


def check(case, M):
    tier = case.get("tier", "quick")
    r = B.run_case(case, M, tier)
    if "trivial" in r:
        return {"key": B.key_of(case), "nontrivial": False, "tags": ["trivial:" + r["trivial"]], "failures": []}
    failures = []
    fid = B.FINDING_IDS["C02"]["zero"] if r["zero"] else None

    def fail(kind, what, detail):
        f = {"kind": kind, "what": what, "detail": detail}
        if fid:
            f["finding"] = fid
        failures.append(f)
    for what, detail in r["corr"]:
        failures.append({"kind": "corr", "what": what, "detail": detail})
    for d in r["disc"][:1]:
        failures.append({"kind": "oracle", "what": "the integer cost of a rule is not int(-log p * 10**threshold)", "detail": d})
    if r["nprog"] != len(r["lang"]):
        failures.append({"kind": "oracle", "what": "G.programs() is not the size of the language (the stop condition of bee search)", "detail": f"{r['nprog']} vs {len(r['lang'])}"})
    ys = B.flat(r["steps"])
    if r["err"] is not None:
        fail("oracle", "the enumerator raises instead of enumerating", r["err"])
    else:
        if r["budget_cut"]:
            set_failures(r, ys, fail, complete=False)       # inconclusive run: only what was yielded is judged
        else:
            if r["cut"] or not r["steps"] or not r["steps"][-1][1]:
                fail("oracle", "the enumerator does not stop", f"still running after {r['rounds']} rounds, cheapest queued cost above every program of the language")
            set_failures(r, ys, fail)
    if case.get("fseed") is not None and not failures:
        float_search(case, r, fail)
    ties, ncost = B.ntie_groups(r["lang"])
    tags = B.base_tags(case, r)
    if ties:
        tags.append("ties")
    nontrivial = len(r["lang"]) >= 10 and ncost >= 2 and ties >= 1
    return {"key": B.key_of(case), "nontrivial": nontrivial, "tags": tags, "failures": failures, "sample": B.sample_of(case, r)}


def float_search(case, r, fail):
    """random float probabilities (no model): set equality and termination, costs read from the enumerator"""
    from synth.syntax.grammars.tagged_det_grammar import ProbDetGrammar
    from synth.syntax.grammars.enumeration.bee_search import enumerate_prob_grammar
    rng = random.Random(case["fseed"])
    g = r["g"]
    thr = rng.choice([0, 1, 1, 2])
    pg = ProbDetGrammar(g, {S: {P: rng.random() * 0.98 + 0.01 for P in rs} for S, rs in g.rules.items()})
    en = enumerate_prob_grammar(pg, thr)
    cost = en.G.probabilities
    if B.nonterminal_with_args_cost0(g, cost):
        return
    lang = B.expand_cost(g, cost, 10 ** 6)
    cmax = max(c for _, c in lang)
    if B.work_estimate(g, cost, cmax)[0] > B.MAX_WORK[case.get("tier", "quick")]:
        return
    B.instrument(en, cmax, B.ROUND_CAP)
    L = {B.show(p) for p, _ in lang}
    Y = []
    try:
        for p in en:
            Y.append(B.show(B.of_prog(p)))
    except B.Limit:
        fail("oracle", "the enumerator does not stop (float weights)", "")
    except Exception as e:  # noqa
        if type(e).__name__ in ("CaseTimeout", "TimeoutError"):
            raise
        fail("oracle", "the enumerator raises instead of enumerating (float weights)", type(e).__name__)
        return
    if len(Y) != len(set(Y)):
        fail("oracle", "a program is yielded twice (float weights)", "")
    if set(Y) - L:
        fail("oracle", "a program outside the language is yielded (float weights)", str(sorted(set(Y) - L)[:3]))
    if L - set(Y):
        fail("oracle", "a program of the language is never yielded (float weights)", f"{len(L - set(Y))} of {len(L)} missing, e.g. {sorted(L - set(Y))[:3]}")


def corpus():
    # C02-F6 witnesses: single-rule non-terminals (probability 1 -> cost 0) in a chain; a Boolean test on top of
    # an arithmetic grammar with skewed weights at threshold 1
    return [
        {"family": "fin", "build": {"src": "prims", "prims": B.CHAIN_DSLS[0], "forbidden": [], "request": "b", "kind": "cfg", "max_depth": 4, "min_var": 1, "n_gram": 2},
         "order": "built", "oseed": 0, "costs": {"mode": "prob", "weights": "uniform1", "wseed": 0, "threshold": 2}, "filter": None, "merges": [], "prefix": None, "fseed": None},
        {"family": "fin", "build": {"src": "prims", "prims": B.CHAIN_DSLS[1], "forbidden": [], "request": "bool", "kind": "cfg", "max_depth": 4, "min_var": 1, "n_gram": 2},
         "order": "built", "oseed": 0, "costs": {"mode": "prob", "weights": "uniform1", "wseed": 0, "threshold": 2}, "filter": None, "merges": [], "prefix": None, "fseed": 5},
        {"family": "fin", "build": {"src": "testdsl", "request": ["->", "int", "int"], "kind": "cfg", "max_depth": 3, "min_var": 1, "n_gram": 2},
         "order": "reversed", "oseed": 1, "costs": {"mode": "int", "kind": "zero-any", "cseed": 3}, "filter": None, "merges": [], "prefix": None, "fseed": None},
    ]
