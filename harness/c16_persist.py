"""Writer / reader subprocess of the C16 persistence cases (run under different PYTHONHASHSEEDs).

  c16_persist.py write case.json dir   builds every object from its description and stores it
  c16_persist.py read  case.json dir   loads everything, rebuilds twins, prints a JSON report
"""
import json
import os
import pickle
import random
import sys

from harness import c16 as H


def build_dsl(j):
    from synth.syntax import DSL, auto_type
    return DSL(auto_type(dict(H.DSL_POOL[j])))


def build_grammar(g):
    from synth.syntax import auto_type
    from synth.syntax.grammars import CFG, TTCFG, UCFG, ProbDetGrammar, ProbUGrammar
    dsl = build_dsl(g["dsl"])
    tr = auto_type(g["req"])
    k = g["kind"]
    if k == "cfg":
        return CFG.depth_constraint(dsl, tr, g["depth"], n_gram=g["ngram"])
    if k == "ttcfg":
        return TTCFG.size_constraint(dsl, tr, g["size"])
    if k == "ucfg":
        return UCFG.from_CFG(CFG.depth_constraint(dsl, tr, g["depth"]), g["strict"])
    if k == "ucfg_dfta":
        from synth.filter.constraints.dfta_constraints import add_dfta_constraints
        cfg = CFG.depth_constraint(dsl, tr, g["depth"])
        return UCFG.from_DFTA_with_ngrams(add_dfta_constraints(cfg, list(g["constraints"]), progress=False), 2)
    if k == "pcfg":
        if g["base"] == "cfg":
            base = CFG.depth_constraint(dsl, tr, g["depth"], n_gram=g["ngram"])
            return ProbDetGrammar.uniform(base) if g["seed"] is None else ProbDetGrammar.random(base, seed=g["seed"])
        return ProbDetGrammar.uniform(TTCFG.size_constraint(dsl, tr, g["size"]))
    if k == "pucfg":
        base = UCFG.from_CFG(CFG.depth_constraint(dsl, tr, g["depth"]), g["strict"])
        return ProbUGrammar.uniform(base) if g["seed"] is None else ProbUGrammar.random(base, seed=g["seed"])
    raise ValueError(k)


def build_task(t):
    from synth.task import Task
    from synth.specification import PBE, PBEWithConstants, Example
    exs = [Example(list(e[0]), e[1]) for e in t["examples"]]
    if t["constants"] is None:
        spec = PBE(exs)
    else:
        spec = PBEWithConstants(exs, {H.to_repo(ty): list(vs) for ty, vs in t["constants"]})
    return Task(H.to_repo(t["req"]), spec, None if t["solution"] is None else H.to_repo(t["solution"]), dict(t["metadata"]))


def _safe(f):
    try:
        return f()
    except Exception as e:  # noqa
        return type(e).__name__


def probes(g, G, seed):
    """descriptions of programs inside (sampled) and around (variants) the grammar"""
    from synth.syntax.grammars import ProbDetGrammar, ProbUGrammar, TaggedDetGrammar, TaggedUGrammar
    from synth.syntax.grammars.u_grammar import UGrammar
    if isinstance(G, (TaggedDetGrammar, TaggedUGrammar)):
        pg = G
    elif isinstance(G, UGrammar):
        pg = ProbUGrammar.uniform(G)
    else:
        pg = ProbDetGrammar.uniform(G)
    out = []
    try:
        pg.init_sampling(seed + 1)
        for _ in range(8):
            out.append(H.encode_repo(pg.sample_program()))
    except Exception:  # noqa  (sampling is not what is tested here)
        pass
    rng = random.Random(seed)
    for d in list(out)[:6]:
        out.append(H.variant(rng, d))
    return out


def observe(G, progs):
    obs = {"programs": _safe(lambda: G.programs()), "member": [_safe(lambda: p in G) for p in progs], "name": _safe(lambda: G.name())}
    if hasattr(G, "probability"):
        obs["probability"] = [_safe(lambda: float(G.probability(p))) for p in progs]
    return obs


def close(a, b):
    if isinstance(a, float) and isinstance(b, float):
        return abs(a - b) <= 1e-12 * max(1.0, abs(a), abs(b))
    if isinstance(a, list) and isinstance(b, list):
        return len(a) == len(b) and all(close(x, y) for x, y in zip(a, b))
    return a == b


def dumps(obj, protocol):
    return pickle.dumps(obj) if protocol is None else pickle.dumps(obj, protocol=protocol)


def main():
    role, spec, d = sys.argv[1], sys.argv[2], sys.argv[3]
    case = json.load(open(spec))
    from synth.utils.data_storage import save_object, load_object
    from synth.task import Dataset
    objs = [H.to_repo(x) for x in case["objs"]]
    tasks = [build_task(t) for t in case["tasks"]]
    grammars = [build_grammar(g) for g in case["grammars"]]
    dataset = Dataset(tasks, {"origin": "c16"})
    if role == "write":
        if case.get("warm"):
            # a used object: hash, print, count, look up — before it is saved
            for o in objs + tasks + grammars + [dataset]:
                _safe(lambda: hash(o))
                _safe(lambda: str(o))
                _safe(lambda: repr(o))
                _safe(lambda: o in {o})
                _safe(lambda: o == o)
            for G in grammars:
                _safe(lambda: G.programs())
                _safe(lambda: G.name())
                _safe(lambda: {G: 1}[G])
                for attr in ("primitives_used", "variables", "constants", "is_depth_bounded", "is_unambiguous"):
                    if hasattr(G, attr):
                        _safe(lambda: getattr(G, attr)())
            for o in objs:
                for attr in ("used_variables", "is_constant", "is_invariant", "depth", "size", "is_polymorphic", "arguments", "returns"):
                    if hasattr(o, attr):
                        _safe(lambda: getattr(o, attr)())
        with open(os.path.join(d, "objs.pkl"), "wb") as f:
            f.write(dumps(objs, case["protocol"]))
        with open(os.path.join(d, "keys.pkl"), "wb") as f:
            f.write(dumps({"dict": {o: i for i, o in enumerate(objs)}, "set": set(objs), "fset": frozenset(objs)}, case["protocol"]))
        save_object(os.path.join(d, "objs.bz2"), objs, optimize=case["optimize"])
        with open(os.path.join(d, "tasks.pkl"), "wb") as f:
            f.write(dumps(tasks, case["protocol"]))
        save_object(os.path.join(d, "dataset.bz2"), dataset, optimize=case["optimize"])
        dataset.save(os.path.join(d, "dataset.save"))
        orig = []
        for j, (g, G) in enumerate(zip(case["grammars"], grammars)):
            with open(os.path.join(d, "g%d.pkl" % j), "wb") as f:
                f.write(dumps(G, case["protocol"]))
            save_object(os.path.join(d, "g%d.bz2" % j), G, optimize=case["optimize"])
            pd = probes(g, G, g["probe_seed"])
            orig.append({"probes": pd, "obs": observe(G, [H.to_repo(x) for x in pd])})
        dsl = build_dsl(case["grammars"][0]["dsl"]) if case["grammars"] else None
        with open(os.path.join(d, "dsl.pkl"), "wb") as f:
            f.write(dumps(dsl, case["protocol"]))
        json.dump(orig, open(os.path.join(d, "orig.json"), "w"))
        print("{}")
        return
    # ------------------------------------------------------------------ read
    rep = {"objs": [], "others": [], "hashseed": os.environ.get("PYTHONHASHSEED")}
    keys = None
    try:
        keys = pickle.load(open(os.path.join(d, "keys.pkl"), "rb"))
    except Exception as e:  # noqa
        rep["others"].append({"what": "keys", "error": "%s: %s" % (type(e).__name__, e)})
    canon = [H.canon(x) for x in case["objs"]]
    for via in ("pickle", "save_object"):
        try:
            loaded = pickle.load(open(os.path.join(d, "objs.pkl"), "rb")) if via == "pickle" else load_object(os.path.join(d, "objs.bz2"))
        except Exception as e:  # noqa
            rep["objs"].append({"index": 0, "via": via, "error": "%s: %s" % (type(e).__name__, e)})
            continue
        for i, (L, W) in enumerate(zip(loaded, objs)):
            r = {"index": i, "via": via}
            r["eq_lt"] = _safe(lambda: L == W)
            r["eq_tl"] = _safe(lambda: W == L)
            r["hash_eq"] = _safe(lambda: hash(L) == hash(W))
            r["loaded_in_fresh_set"] = _safe(lambda: L in {W} and L in set(objs))
            if keys is not None:
                r["fresh_in_loaded_dict"] = _safe(lambda: W in keys["dict"] and W in keys["set"] and W in keys["fset"])
                r["loaded_dict_get_fresh"] = _safe(lambda: canon[keys["dict"][W]] == canon[i])
            else:
                r["fresh_in_loaded_dict"] = r["loaded_dict_get_fresh"] = "no-keys"
            r["type_eq"] = _safe(lambda: (not hasattr(W, "type")) or (L.type == W.type and hash(L.type) == hash(W.type)))
            r["struct"] = _safe(lambda: H.encode_repo(L))
            rep["objs"].append(r)
    if keys is not None:
        nclasses = len(set(canon))
        ch = {"dict_len": len(keys["dict"]) == nclasses, "set_len": len(keys["set"]) == nclasses, "fset_len": len(keys["fset"]) == nclasses,
              "set_eq": _safe(lambda: keys["set"] == set(objs) and keys["fset"] == frozenset(objs)),
              "dict_keys_eq": _safe(lambda: set(keys["dict"]) == set(objs))}
        rep["others"].append({"what": "keys", "via": "pickle", "desc": "%d objects" % len(objs), "checks": ch})
    # tasks / dataset
    for via, path in (("pickle", "tasks.pkl"), ("save_object", "dataset.bz2"), ("Dataset.save", "dataset.save")):
        try:
            if via == "pickle":
                lt = pickle.load(open(os.path.join(d, path), "rb"))
                lds = None
            elif via == "save_object":
                lds = load_object(os.path.join(d, path))
                lt = lds.tasks
            else:
                lds = Dataset.load(os.path.join(d, path))
                lt = lds.tasks
        except Exception as e:  # noqa
            rep["others"].append({"what": "dataset", "via": via, "error": "%s: %s" % (type(e).__name__, e)})
            continue
        ch = {"tasks_eq": _safe(lambda: lt == tasks and tasks == lt), "len": len(lt) == len(tasks)}
        for j, (L, W) in enumerate(zip(lt, tasks)):
            ch["task%d_eq" % j] = _safe(lambda: L == W and W == L)
            ch["task%d_req_hash" % j] = _safe(lambda: hash(L.type_request) == hash(W.type_request) and L.type_request in {W.type_request})
            ch["task%d_solution" % j] = _safe(lambda: (W.solution is None and L.solution is None) or
                                              (L.solution == W.solution and hash(L.solution) == hash(W.solution) and L.solution.type == W.solution.type))
            ch["task%d_str" % j] = _safe(lambda: str(L) == str(W))
            if hasattr(W.specification, "constants"):
                ch["task%d_constants" % j] = _safe(lambda: all(L.specification.constants.get(k) == v for k, v in W.specification.constants.items())
                                                   and all(W.specification.constants.get(k) == v for k, v in L.specification.constants.items()))
        if lds is not None:
            ch["dataset_eq"] = _safe(lambda: lds == dataset and dataset == lds)
            ch["type_requests"] = _safe(lambda: lds.type_requests() == dataset.type_requests())
        rep["others"].append({"what": "dataset", "via": via, "desc": "%d tasks" % len(tasks), "checks": ch})
    # DSL
    if case["grammars"]:
        try:
            ldsl = pickle.load(open(os.path.join(d, "dsl.pkl"), "rb"))
            wdsl = build_dsl(case["grammars"][0]["dsl"])
            ch = {"eq": _safe(lambda: ldsl == wdsl and wdsl == ldsl),
                  "prims": _safe(lambda: all(p in wdsl.list_primitives and hash(p) == hash(wdsl.list_primitives[wdsl.list_primitives.index(p)])
                                             for p in ldsl.list_primitives))}
            rep["others"].append({"what": "dsl", "via": "pickle", "desc": "dsl %d" % case["grammars"][0]["dsl"], "checks": ch})
        except Exception as e:  # noqa
            rep["others"].append({"what": "dsl", "via": "pickle", "error": "%s: %s" % (type(e).__name__, e)})
    # grammars
    orig = json.load(open(os.path.join(d, "orig.json")))
    for j, (g, W) in enumerate(zip(case["grammars"], grammars)):
        for via in ("pickle", "save_object"):
            try:
                L = pickle.load(open(os.path.join(d, "g%d.pkl" % j), "rb")) if via == "pickle" else load_object(os.path.join(d, "g%d.bz2" % j))
            except Exception as e:  # noqa
                rep["others"].append({"what": g["kind"], "via": via, "error": "%s: %s" % (type(e).__name__, e)})
                continue
            progs = [H.to_repo(x) for x in orig[j]["probes"]]
            lo = observe(L, progs)
            ch = {}
            # identical behaviour: the loaded grammar against what the ORIGINAL answered in the writing process
            for k, v in orig[j]["obs"].items():
                ch["orig_" + k] = close(lo.get(k), v)
            # ... and against a twin rebuilt here
            wo = observe(W, progs)
            for k, v in wo.items():
                ch["twin_" + k] = close(lo.get(k), v)
            ch["type_request"] = _safe(lambda: L.type_request == W.type_request and hash(L.type_request) == hash(W.type_request))
            if g["kind"] != "ucfg_dfta":      # state names of automaton-derived grammars depend on the hash seed of the builder
                ch["rules_eq"] = _safe(lambda: L.rules == W.rules and W.rules == L.rules)
                ch["rule_keys"] = _safe(lambda: all(S in W.rules and all(P in W.rules[S] for P in L.rules[S]) for S in L.rules)
                                        and all(S in L.rules and all(P in L.rules[S] for P in W.rules[S]) for S in W.rules))
                if hasattr(W, "starts"):
                    ch["starts_eq"] = _safe(lambda: L.starts == W.starts)
                else:
                    ch["start_eq"] = _safe(lambda: L.start == W.start and hash(L.start) == hash(W.start))
                if hasattr(W, "tags"):
                    ch["tags_eq"] = _safe(lambda: L.tags == W.tags)
                if hasattr(W, "start_tags"):
                    ch["start_tags_eq"] = _safe(lambda: L.start_tags == W.start_tags)
                ch["eq"] = _safe(lambda: L == W)
                ch["eq_rev"] = _safe(lambda: W == L)
                ch["hash_eq"] = _safe(lambda: hash(L) == hash(W))
                # ... and differ from a different grammar (one more level / size unit)
                g2 = dict(g)
                for fld in ("depth", "size"):
                    if fld in g2:
                        g2[fld] += 1
                other = _safe(lambda: build_grammar(g2))
                if not isinstance(other, str) and _safe(lambda: other.rules != L.rules) is True:
                    ch["neq_other"] = _safe(lambda: (L == other) is False and (other == L) is False)
            rep["others"].append({"what": g["kind"], "via": via, "desc": json.dumps(g), "checks": ch,
                                  "members": sum(1 for x in lo["member"] if x is True), "probes": len(progs)})
    print(json.dumps(rep))


if __name__ == "__main__":
    main()
