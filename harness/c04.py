"""C04 — probabilistic grammars define a probability distribution over their language.

impl   : ProbDetGrammar / ProbUGrammar (probability, normalise, uniform, random, pcfg_from_samples,
         programs) on grammars built by the real constructors: CFG.depth_constraint,
         TTCFG.size_constraint, UCFG.from_CFG, UCFG.from_DFTA(add_dfta_constraints(cfg, [...]))
model  : PS.G.probabilityDet / normalise / uniform / fromSamples / programs, PS.U.probabilityU /
         normaliseU / uniformU / programs / fromCFG     (driver ops c04.*)
spec   : PS.G.prob / mass / count / lang / bounded,  PS.U.probU / countU / genU
oracle : DetOracle / UOracle below — an independent reading of the statement: enumerate the
         derivations of the rule table, probability = (start weight x) product of the rule
         weights, 0 outside, sum = 1, number of programs.  Exact `fractions.Fraction`s.
Floats: a float is compared *exactly* with a rational only where float arithmetic is exact by
construction (dyadic weights whose products fit in 53 bits; a single correctly rounded division
n/d); otherwise with the stated relative tolerance RTOL.
"""
import json
from fractions import Fraction

from harness import gen as G
from harness import wire as W
from harness.sexp import Sym

CASE_TIMEOUT = {"quick": 120, "thorough": 600}
MAX_LANG = {"quick": 1500, "thorough": 6000}
RTOL = 1e-9
def _tt(t):
    return tuple(_tt(x) for x in t) if isinstance(t, list) else t


# ---------------------------------------------------------------------------- generation
def gen(rng, i, tier):
    syn = G.random_syntax(rng, allow_ho=False)
    req = G.random_request(rng, syn)
    kind = rng.choice(["cfg", "cfg", "cfg", "ucfg", "dfta", "dfta", "size", "size", "atmost"])
    if kind == "atmost":
        # at_most_k bounds the occurrences of ONE primitive: the language is finite only when that
        # primitive is the only one with arguments
        funs = [p for p in syn["prims"] if not isinstance(p[1], str) and p[1][0] == "->"]
        keep = rng.choice(funs) if funs else None
        syn["prims"] = [p for p in syn["prims"] if p is keep or p not in funs]
        names = {n for n, _ in syn["prims"]}
        syn["forbidden"] = {k: [c for c in v if c in names] for k, v in syn["forbidden"].items() if k[0] in names}
        req = G.random_request(rng, syn)
    case = {
        "kind": kind,
        "prims": syn["prims"], "forbidden": [[k[0], k[1], v] for k, v in syn["forbidden"].items()],
        "request": req,
        "max_depth": rng.choice([2, 3, 3, 3, 4, 4] + ([5] if tier == "thorough" else [])),
        "min_var": rng.choice([0, 0, 1, 1]),
        "n_gram": rng.choice([2, 2, 2, 1, 3]),
        "max_size": rng.choice([3, 4, 5, 6]),
        "atmost": [next((n for n, t in syn["prims"] if not isinstance(t, str) and t[0] == "->"), syn["prims"][0][0]),
                   rng.choice([0, 1, 2, 2, 3])],
        "constraints": random_constraints(rng, syn["prims"]),
        "weights": rng.choice(["uniform", "dyadic", "dyadic", "random", "hand", "samples"]),
        "wseed": rng.randrange(1 << 30),
        "nsamples": rng.choice([0, 1, 3, 10, 25, 50]),
        "bad_samples": rng.random() < 0.2,
        "nseed": rng.randrange(1 << 30),
    }
    if kind in ("ucfg", "dfta", "size", "atmost") and case["weights"] == "samples":
        case["weights"] = "dyadic"
    # keep the language small enough to enumerate (upper bound: forbidden patterns ignored)
    from harness.oracle import TypedTerms
    while case["max_depth"] > 1:
        tt = TypedTerms([(n, _tt(t)) for n, t in case["prims"]], {}, _tt(req), case["max_depth"], case["min_var"], [], False)
        if tt.count() <= MAX_LANG[tier]:
            break
        case["max_depth"] -= 1
    return case


def random_constraints(rng, prims):
    """1-2 local patterns `(f _ ^g,h _)`: argument i of f is not headed by g or h"""
    funs = [(n, len(G.args_ret(t)[0])) for n, t in prims if not isinstance(t, str) and t[0] == "->"]
    names = [n for n, _ in prims]
    out = []
    for _ in range(rng.choice([1, 1, 2])):
        if not funs:
            break
        f, ar = rng.choice(funs)
        i = rng.randrange(ar)
        bad = ",".join(sorted(set(rng.choice(names) for _ in range(rng.choice([1, 1, 2])))))
        out.append("(" + " ".join([f] + ["^" + bad if j == i else "_" for j in range(ar)]) + ")")
    return out


def shrink(case):
    for j in range(len(case["prims"])):
        c = dict(case)
        c["prims"] = case["prims"][:j] + case["prims"][j + 1:]
        names = {n for n, _ in c["prims"]}
        c["forbidden"] = [[a, b, [x for x in v if x in names]] for a, b, v in case["forbidden"] if a in names]
        yield c
    if case["forbidden"]:
        c = dict(case)
        c["forbidden"] = []
        yield c
    if case["max_depth"] > 1:
        c = dict(case)
        c["max_depth"] -= 1
        yield c
    if case["max_size"] > 1:
        c = dict(case)
        c["max_size"] -= 1
        yield c
    if len(case["constraints"]) > 1:
        for j in range(len(case["constraints"])):
            c = dict(case)
            c["constraints"] = case["constraints"][:j] + case["constraints"][j + 1:]
            yield c
    if case["nsamples"] > 0:
        c = dict(case)
        c["nsamples"] = case["nsamples"] // 2
        yield c
    a, r = G.args_ret(_tt(case["request"]))
    if a:
        c = dict(case)
        c["request"] = G.arrow(*a[:-1], r)
        yield c


# ---------------------------------------------------------------------------- terms
def head_of(P):
    from synth.syntax.program import Constant, Primitive, Variable
    if isinstance(P, Primitive):
        return ("P", P.primitive, W.repo_tt(P.type))
    if isinstance(P, Variable):
        return ("V", P.variable, W.repo_tt(P.type))
    if isinstance(P, Constant):
        return ("C", W.repo_tt(P.type), str(P.value) if P.has_value() else "")
    raise ValueError(P)


def to_repo(t, objs):
    from synth.syntax.program import Function
    h, args = t
    head = objs[h]
    if not args:
        return head
    return Function(head, [to_repo(a, objs) for a in args])


def term_wire(t):
    h, args = t
    if h[0] == "P":
        hw = [Sym("P"), h[1], W.tt_wire(h[2])]
    elif h[0] == "V":
        hw = [Sym("V"), h[1], W.tt_wire(h[2])]
    else:
        hw = [Sym("C"), W.tt_wire(h[1]), h[2]]
    return [Sym("A"), hw] + [term_wire(a) for a in args]


def freeze(t):
    return (t[0], tuple(freeze(a) for a in t[1]))


def term_str(t):
    from harness.oracle import term_str as ts
    return ts(t)


def neighbours(rng, terms, heads, limit):
    """mutated terms around the language: head swapped, argument dropped / duplicated,
    sub-term replaced by another member or by a leaf"""
    out = []
    if not terms:
        return out
    leaves = [(h, []) for h in heads]
    pool = terms if len(terms) <= 150 else rng.sample(terms, 150)

    def positions(t, path=()):
        yield path
        for i, a in enumerate(t[1]):
            yield from positions(a, path + (i,))

    def replace(t, path, new):
        if not path:
            return new
        h, args = t
        args = list(args)
        args[path[0]] = replace(args[path[0]], path[1:], new)
        return (h, args)

    def at(t, path):
        for i in path:
            t = t[1][i]
        return t
    for t in pool:
        if len(out) >= limit:
            break
        p = rng.choice(list(positions(t)))
        sub = at(t, p)
        k = rng.randrange(5)
        if k == 0:
            new = (rng.choice(heads), sub[1])
        elif k == 1 and sub[1]:
            new = (sub[0], sub[1][:-1])
        elif k == 2 and sub[1]:
            new = (sub[0], sub[1] + [sub[1][-1]])
        elif k == 3:
            new = rng.choice(pool)
        else:
            new = rng.choice(leaves)
        out.append(replace(t, p, new))
    return out


# ---------------------------------------------------------------------------- oracles
class TooLarge(Exception):
    pass


class DetOracle:
    """derivations of a deterministic (tree-traversing) grammar, read off the rule table:
    from (type, (S, T)) a rule P -> (args, T') derives P applied to one term per argument, the
    i-th one from (type_i, (S_i, state)) where `state` is T' for the first argument and then
    the state in which the previous argument's derivation ended."""

    def __init__(self, rules, start, weight, limit):
        self.rules, self.start, self.weight, self.limit = rules, start, weight, limit
        self.memo = {}
        self.busy = set()
        self.dead_rules = []      # rules from which no term can be derived (grammar not clean)

    def seqs(self, nt):
        """[(term, probability, final state)]"""
        if nt in self.memo:
            return self.memo[nt]
        if nt in self.busy:
            raise RecursionError("cyclic")
        if nt not in self.rules:
            self.dead_rules.append((nt, None))      # a rule refers to a non-terminal without rules
            return []
        self.busy.add(nt)
        out = []
        for P, (args, st) in self.rules.get(nt, {}).items():
            w = self.weight(nt, P)
            partial = [([], w, st)]
            for a in args:
                nxt = []
                for kids, pw, cur in partial:
                    for sub, sw, fin in self.seqs((a[0], (a[1], cur))):
                        nxt.append((kids + [sub], pw * sw, fin))
                        if len(nxt) > self.limit:
                            raise TooLarge()
                partial = nxt
            h = head_of(P)
            if not partial:
                self.dead_rules.append((nt, P))
            for kids, pw, cur in partial:
                out.append(((h, kids), pw, cur))
            if len(out) > self.limit:
                raise TooLarge()
        self.busy.discard(nt)
        self.memo[nt] = out
        return out

    def language(self):
        return [(t, w) for t, w, _ in self.seqs(self.start)]


class UOracle:
    """derivations of an unambiguous grammar: from a start symbol S (weight start_w[S]) a rule
    P -> one of its alternative argument lists, each argument derived from its non-terminal"""

    def __init__(self, rules, starts, weight, start_w, limit):
        self.rules, self.starts, self.weight, self.start_w, self.limit = rules, starts, weight, start_w, limit
        self.memo = {}
        self.busy = set()

    def ders(self, nt):
        if nt in self.memo:
            return self.memo[nt]
        if nt in self.busy:
            raise RecursionError("cyclic")
        self.busy.add(nt)
        out = []
        for P, alts in self.rules.get(nt, {}).items():
            h = head_of(P)
            for alt in alts:
                partial = [([], self.weight(nt, P, alt))]
                for a in alt:
                    nxt = []
                    for kids, pw in partial:
                        for sub, sw in self.ders(a):
                            nxt.append((kids + [sub], pw * sw))
                            if len(nxt) > self.limit:
                                raise TooLarge()
                    partial = nxt
                for kids, pw in partial:
                    out.append(((h, kids), pw))
                if len(out) > self.limit:
                    raise TooLarge()
        self.busy.discard(nt)
        self.memo[nt] = out
        return out

    def language(self):
        """[(term, start weight * product, start)] one entry per derivation"""
        return [(t, self.start_w(s) * w, s) for s in self.starts for t, w in self.ders(s)]


# ---------------------------------------------------------------------------- float helpers
def exact_ok(q):
    """a product of dyadic floats is exact when the odd part of the numerator fits in 53 bits"""
    q = Fraction(q)
    d = q.denominator
    return d & (d - 1) == 0 and q.numerator.bit_length() <= 53 and d.bit_length() < 1000


def same_prob(impl, want, exact):
    """impl: float/int returned by the implementation; want: Fraction"""
    try:
        f = Fraction(impl)
    except (TypeError, ValueError, OverflowError):
        return False
    if exact and exact_ok(want):
        return f == want
    if want == 0:
        return f == 0
    return abs(f - want) <= RTOL * abs(want)


def frac_of(s):
    return Fraction(str(s))


def fr_wire(q):
    q = Fraction(q)
    return f"{q.numerator}/{q.denominator}"


def split_dyadic(rng, n, normalised=True):
    """n positive dyadic weights; summing to 1 when normalised"""
    den = 16
    while den < n:
        den *= 4
    if not normalised:
        return [Fraction(rng.randint(1, 12), 16) for _ in range(n)]
    cuts = sorted(rng.sample(range(1, den), n - 1)) if n > 1 else []
    parts = [b - a for a, b in zip([0] + cuts, cuts + [den])]
    return [Fraction(p, den) for p in parts]


# ---------------------------------------------------------------------------- wire of generic grammars
class Names:
    def __init__(self, prefix):
        self.prefix, self.map = prefix, {}

    def __call__(self, x):
        if x is None:
            return "None"
        if x not in self.map:
            self.map[x] = f"{self.prefix}{len(self.map)}"
        return self.map[x]


def tt_wire_grammar(g, sn, tn):
    def nt(S):
        return [W.ty_wire(S[0]), sn(S[1][0]), tn(S[1][1])]
    entries = []
    for S in g.rules:
        rs = []
        for P in g.rules[S]:
            args, st = g.rules[S][P]
            rs.append([W.sym_wire(P), [[W.ty_wire(a[0]), sn(a[1])] for a in args], tn(st)])
        entries.append([nt(S), rs])
    return [Sym("tt"), nt(g.start), entries]


def tags_wire(tags, sn, tn, conv=fr_wire):
    return [[[W.ty_wire(S[0]), sn(S[1][0]), tn(S[1][1])], [[W.sym_wire(P), conv(w)] for P, w in row.items()]]
            for S, row in tags.items()]


def ucfg_wire(u, un, starts, some):
    def nt(S):
        return [W.ty_wire(S[0]), un(S[1])]
    entries = []
    for S in u.rules:
        entries.append([nt(S), [[W.sym_wire(P), [[nt(a) for a in alt] for alt in alts]] for P, alts in u.rules[S].items()]])
    return [Sym("ucfg"), [nt(s) for s in starts], entries, nt(some)]


def utags_wire(tags, start_tags, un, conv=fr_wire):
    def nt(S):
        return [W.ty_wire(S[0]), un(S[1])]
    return [Sym("utags"),
            [[nt(S), [[W.sym_wire(P), [[[nt(a) for a in alt], conv(w)] for alt, w in d.items()]] for P, d in row.items()]]
             for S, row in tags.items()],
            [[nt(S), conv(w)] for S, w in start_tags.items()]]


def _plain(x):
    if isinstance(x, (list, tuple)):
        return [_plain(y) for y in x]
    if isinstance(x, bool):
        return "1" if x else "0"
    return str(x)


def canon_table(entries):
    return sorted(json.dumps([e[0], sorted(json.dumps(r) for r in e[1])]) for e in entries)


def tags_floats(wire_tags):
    """model tags (wire) -> {(nt json): {(sym json): float}} with one correctly rounded division"""
    out = {}
    for nt, row in wire_tags:
        out[json.dumps(nt)] = {json.dumps(r[0]): _div(frac_of(r[1])) for r in row}
    return out


def _div(q):
    return q.numerator / q.denominator


# ---------------------------------------------------------------------------- the check
def build(case):
    from synth.syntax import CFG, DSL
    prims = [(n, _tt(t)) for n, t in case["prims"]]
    forb = {(a, b): set(v) for a, b, v in case["forbidden"]}
    dsl = DSL({n: W.tt_repo(t) for n, t in prims}, {k: set(v) for k, v in forb.items()})
    tr = W.tt_repo(_tt(case["request"]))
    return dsl, tr


def check(case, M):
    import random
    rng = random.Random(case["nseed"])
    kind = case["kind"]
    key = json.dumps([case[k] for k in ("kind", "prims", "forbidden", "request", "max_depth", "min_var", "n_gram", "max_size",
                                        "constraints", "weights", "wseed", "nsamples")])
    tags = [kind, "w:" + case["weights"]]
    res = {"key": key, "nontrivial": False, "tags": tags, "failures": []}
    from synth.syntax import CFG
    from synth.syntax.grammars.ttcfg import TTCFG
    dsl, tr = build(case)
    try:
        if kind == "size":
            g = TTCFG.size_constraint(dsl, tr, case["max_size"], case["n_gram"])
        elif kind == "atmost":
            g = TTCFG.at_most_k(dsl, tr, case["atmost"][0], int(case["atmost"][1]), case["n_gram"])
        else:
            g = CFG.depth_constraint(dsl, tr, case["max_depth"], case["min_var"], case["n_gram"])
    except KeyError:
        tags.append("empty-language(KeyError)")
        return res
    if not g.rules or g.start not in g.rules:
        tags.append("empty-language")
        return res
    if kind in ("cfg", "size", "atmost"):
        return check_det(case, M, rng, g, res)
    return check_u(case, M, rng, g, res)


def lang_limit(case):
    return MAX_LANG["thorough"]


def check_det(case, M, rng, g, res):
    from synth.syntax.grammars.tagged_det_grammar import ProbDetGrammar
    tags, failures = res["tags"], res["failures"]
    kind = case["kind"]
    plain = kind == "cfg"

    def fail(k, what, detail):
        if not any(f["what"] == what for f in failures):
            failures.append({"kind": k, "what": what, "detail": str(detail)[:400]})
    sn, tn = Names("s"), Names("t")
    gw = tt_wire_grammar(g, sn, tn)
    # ---- language by the independent oracle (weights filled in later)
    wtab = {}
    orc = DetOracle(g.rules, g.start, lambda S, P: wtab.get(S, {}).get(P, Fraction(0)), lang_limit(case))
    try:
        orc0 = DetOracle(g.rules, g.start, lambda S, P: Fraction(1), lang_limit(case))
        lang0 = orc0.language()
    except TooLarge:
        tags.append("too-large")
        return res
    except RecursionError:
        tags.append("cyclic")
        return res
    terms = [t for t, _ in lang0]
    if not plain:
        # ---- ProbDetGrammar.programs() over a TTCFG = TTCFG.programs(): implementation vs the model
        # PS.T.programsR, vs the Lean spec (length of the enumeration langOf) and vs the oracle's own
        # enumeration — also on tables that clean() left with dead rules (theorem C04_programs_ttcfg
        # needs no cleanness)
        nprog_t = g.programs()
        hyp_t, mn_t, ms_t = M.ask([Sym("c04.programsT"), gw, 64])
        hyp_ok = all(x == "1" for x in hyp_t)
        mn_t = None if mn_t == "none" else int(mn_t)
        ms_t = None if ms_t == "none" else int(ms_t)
        tags.append("ttcfg.hyp-holds" if hyp_ok else "ttcfg.hyp-fails")
        if hyp_ok and mn_t is not None:
            if ms_t != mn_t:
                raise RuntimeError(f"Lean programsR = {mn_t} but |langOf| = {ms_t} (contradicts theorem C04_programs_ttcfg)")
            if ms_t != len(terms):
                raise RuntimeError(f"Lean langOf has {ms_t} programs, the harness' oracle {len(terms)}")
        if nprog_t != len(terms):
            fail("oracle", "programs() is not the number of programs of the language", f"{nprog_t} vs {len(terms)} ({kind})")
        if mn_t != nprog_t:
            fail("corr", "TTCFG.programs() differs from the model", f"{nprog_t} vs {mn_t}")
        tags.append("ttcfg.programs-compared")
    if orc0.dead_rules:
        if plain:
            fail("oracle", "a rule of a clean CFG derives no program", str(orc0.dead_rules[:2]))
        else:
            # TTCFG.size_constraint leaves rules behind whose arguments reach, for some automaton
            # state, a non-terminal that has no rules (saturation builder, property C13): on
            # such a table neither programs() nor any normalised weight assignment can be right
            tags.append("unclean-ttcfg(C13)")
            return res
    if len({freeze(t) for t in terms}) != len(terms):
        fail("oracle", "a program has two derivations in a deterministic grammar", "")
    objs = {}
    for S in g.rules:
        for P in g.rules[S]:
            objs[head_of(P)] = P
    heads = sorted(objs, key=repr)
    # ---- programs()
    nprog = g.programs()
    if nprog != len(terms):
        fail("oracle", "programs() is not the number of programs of the language", f"{nprog} vs {len(terms)}")
    if plain:
        mp = M.ask([Sym("c04.programs"), W.cfg_wire(g)])
        if str(mp) != str(nprog):
            fail("corr", "CFG.programs() differs from the model", f"{nprog} vs {mp}")
    # ---- weights
    mode = case["weights"]
    wrng = random_of(case["wseed"])
    exact = False
    norm_expected = True
    if mode == "uniform":
        pg = ProbDetGrammar.uniform(g)
    elif mode == "random":
        pg = ProbDetGrammar.random(g, seed=case["wseed"] % (1 << 31))
    elif mode == "dyadic":
        pg = ProbDetGrammar(g, {S: {P: float(w) for P, w in zip(g.rules[S], split_dyadic(wrng, len(g.rules[S])))} for S in g.rules})
        exact = True
    elif mode == "hand":
        pg = ProbDetGrammar(g, {S: {P: float(w) for P, w in zip(g.rules[S], split_dyadic(wrng, len(g.rules[S]), False))} for S in g.rules})
        before = {S: dict(row) for S, row in pg.tags.items()}
        if case["wseed"] % 2 == 0:
            # history: the grammar is queried while its weights are not normalised yet; nothing memoised then may
            # survive normalise()
            for t in terms[:12]:
                try:
                    rp = to_repo(t, objs)
                    pg.probability(rp)
                    rp in pg
                except Exception:  # noqa
                    pass
            try:
                pg.programs()
            except Exception:  # noqa
                pass
            tags.append("history:queried-before-normalise")
        pg.normalise()
    else:   # samples
        pool = terms if not case["bad_samples"] else terms + neighbours(rng, terms, heads, 10)
        samples = [rng.choice(pool) for _ in range(case["nsamples"])] if pool else []
        try:
            pg = ProbDetGrammar.pcfg_from_samples(g, [to_repo(t, objs) for t in samples])
            outcome = "ok"
        except Exception as e:  # noqa
            pg = None
            outcome = type(e).__name__
        if outcome != "ok" and all(freeze(t) in {freeze(x) for x in terms} for t in samples):
            fail("oracle", "pcfg_from_samples raises on samples drawn from the language", outcome)
        ans = M.ask([Sym("c04.samples"), gw, [term_wire(t) for t in samples]])
        if ans[0] == "exn":
            if outcome != str(ans[1]):
                fail("corr", "pcfg_from_samples: exception differs from the model", f"impl={outcome} model={ans[1]}")
        elif outcome != "ok":
            fail("corr", "pcfg_from_samples: exception differs from the model", f"impl={outcome} model=ok")
        else:
            want = tags_floats(ans[1])
            got = tags_floats(_plain(tags_wire(pg.tags, sn, tn, conv=lambda w: fr_wire(Fraction(w)))))
            if want != got:
                fail("corr", "pcfg_from_samples: learnt weights differ from the model", _first_diff(want, got))
            # statement: learnt weights are the relative frequencies of the rules used
            member_set = {freeze(x) for x in terms}
            if all(freeze(t) in member_set for t in samples):
                cnt = {}
                for t in samples:
                    _count_rules(g, t, g.start, cnt)
                for S in g.rules:
                    tot = sum(cnt.get((S, head_of(P)), 0) for P in g.rules[S])
                    if tot > 0:
                        for P in g.rules[S]:
                            w = pg.tags.get(S, {}).get(P)
                            if w is None or w != cnt.get((S, head_of(P)), 0) / tot:
                                fail("oracle", "learnt weight is not the relative frequency of the rule in the samples", f"{S} {P}: {w} vs {cnt.get((S, head_of(P)), 0)}/{tot}")
                                break
                    elif S in pg.tags:
                        fail("oracle", "a non-terminal never visited got weights", f"{S}")
            else:
                tags.append("samples-outside-language")
        if pg is None:
            tags.append("samples:" + outcome)
            res["nontrivial"] = len(terms) >= 3
            return res
        norm_expected = False
        tags.append(f"samples:{min(case['nsamples'], 50)}")
    # ---- uniform / normalise against the model
    ops = M.ask([Sym("c04.detops"), gw, tags_wire(before, sn, tn, conv=lambda w: fr_wire(Fraction(w)))] if mode == "hand"
                else [Sym("c04.detops"), gw, []])
    if mode == "uniform":
        want = tags_floats(ops[1])
        got = tags_floats(_plain(tags_wire(pg.tags, sn, tn, conv=lambda w: fr_wire(Fraction(w)))))
        if want != got:
            fail("corr", "uniform(): weights differ from the model", _first_diff(want, got))
        for S in g.rules:
            for P in g.rules[S]:
                if pg.tags[S][P] != 1 / len(g.rules[S]):
                    fail("oracle", "uniform(): a rule weight is not 1/(number of rules of its non-terminal)", f"{S} {P}: {pg.tags[S][P]}")
                    break
    if mode == "hand":
        want = tags_floats(ops[0])
        got = tags_floats(_plain(tags_wire(pg.tags, sn, tn, conv=lambda w: fr_wire(Fraction(w)))))
        if want != got:
            fail("corr", "normalise(): weights differ from the model", _first_diff(want, got))
        for S in g.rules:
            s = sum(Fraction(before[S][P]) for P in g.rules[S])
            for P in g.rules[S]:
                if pg.tags[S][P] != _div(Fraction(before[S][P]) / s):
                    fail("oracle", "normalise(): a weight is not w / (sum of the weights of its non-terminal)", f"{S} {P}: {pg.tags[S][P]}")
                    break
    # weights of each non-terminal sum to 1
    if norm_expected:
        for S in pg.tags:
            s = sum(Fraction(w) for w in pg.tags[S].values())
            if (s != 1) if exact else (abs(s - 1) > RTOL):
                fail("oracle", "weights of a non-terminal do not sum to 1", f"{S}: {float(s)}")
                break
    # ---- exact tables
    for S, row in pg.tags.items():
        wtab[S] = {P: Fraction(w) for P, w in row.items()}
    orc.memo.clear()
    lang = orc.language()
    neigh = neighbours(rng, terms, heads, 120)
    members = {freeze(t): w for t, w in lang}
    probes = (lang if len(lang) <= 300 else rng.sample(lang, 300))
    probe_terms = [t for t, _ in probes] + neigh
    tw = tags_wire(pg.tags, sn, tn, conv=lambda w: fr_wire(Fraction(w)))
    ans = M.ask([Sym("c04.det"), gw, tw, [term_wire(t) for t in probe_terms]])
    is_plain, normalised, rows = ans
    if (is_plain == "1") != plain:
        raise RuntimeError("driver and harness disagree on whether the grammar is a plain CFG")
    nzero = 0
    for t, row in zip(probe_terms, rows):
        want = members.get(freeze(t), Fraction(0))
        p_repo = to_repo(t, objs)
        got = pg.probability(p_repo)
        mprob = frac_of(row[0])
        if plain:
            sprob = frac_of(row[2])
            if sprob != want:
                raise RuntimeError(f"Lean spec prob and Python oracle disagree on {term_str(t)}: {sprob} vs {want}")
            if sprob != mprob:
                raise RuntimeError(f"model probabilityDet differs from spec prob on {term_str(t)} (contradicts theorem C04_prob_det)")
            if (row[3] == "1") != (freeze(t) in members):
                raise RuntimeError(f"Lean spec gen and Python oracle disagree on membership of {term_str(t)}")
        if not same_prob(got, mprob, exact):
            fail("corr", "probability() differs from the model", f"{p_repo}: impl={got!r} model={mprob}")
        if (row[1] == "1") != (p_repo in g):
            fail("corr", "membership differs from the model", f"{p_repo}")
        if want == 0:
            nzero += 1
            if not (got == 0):
                fail("oracle", "positive probability for a program outside the language", f"{p_repo}: {got!r}")
        elif not same_prob(got, want, exact):
            fail("oracle", "probability is not the product of the rule weights of the derivation", f"{p_repo}: {got!r} vs {float(want)}")
    # exotic programs outside the term model
    for p in exotic(rng, terms, objs):
        try:
            got = pg.probability(p)
        except Exception as e:  # noqa
            got = type(e).__name__
        if not (got == 0):
            fail("oracle", "positive probability (or exception) for a program outside the language", f"{p}: {got!r}")
    # ---- sum over the language
    if norm_expected or mode == "samples":
        total = sum(w for _, w in lang)
        complete = all(S in pg.tags for S in g.rules)
        if norm_expected and exact and total != 1:
            raise RuntimeError(f"oracle: normalised weights but the derivation weights sum to {float(total)}")
        if len(lang) <= 1500:
            impl_total = sum(Fraction(pg.probability(to_repo(t, objs))) for t, _ in lang)
            if norm_expected or complete:
                if (impl_total != 1) if (exact and all(exact_ok(w) for _, w in lang)) else abs(impl_total - 1) > RTOL * max(1, len(lang)):
                    fail("oracle", "probabilities do not sum to 1 over the language", f"sum = {float(impl_total)} over {len(lang)} programs")
        if plain and len(lang) <= 800:
            ms = M.ask([Sym("c04.mass"), gw, tw, 12])
            if ms[0] != "bounded":
                raise RuntimeError("Lean: finite CFG not recognised as bounded")
            _, k, mass, cnt, ln, ln1, lterms = ms
            if not (int(cnt) == int(ln) == int(ln1) == len(terms)):
                raise RuntimeError(f"Lean count/lang and Python oracle disagree on the size of the language: {cnt} {ln} {ln1} {len(terms)}")
            if sorted(W.wire_prog_str(t) for t in lterms) != sorted(term_str(t) for t in terms):
                raise RuntimeError("Lean lang and Python oracle enumerate different languages")
            if frac_of(mass) != total:
                raise RuntimeError(f"Lean mass and oracle total differ: {mass} vs {total}")
            if normalised == "1" and frac_of(mass) != 1:
                raise RuntimeError("Lean: normalised and bounded but mass != 1 (contradicts theorem C04_sum_one)")
    napp = sum(1 for t in terms if t[1])
    res["nontrivial"] = len(terms) >= 3 and napp >= 1 and nzero >= 1
    tags.append("lang<10" if len(terms) < 10 else "lang<100" if len(terms) < 100 else "lang<1000" if len(terms) < 1000 else "lang>=1000")
    res["sample"] = {"kind": kind, "prims": {n: G.ty_str(_tt(t)) for n, t in case["prims"]}, "request": G.ty_str(_tt(case["request"])),
                     "max_depth": case["max_depth"], "max_size": case["max_size"], "weights": mode, "language_size": len(terms),
                     "non_terminals": len(g.rules), "examples": [f"{term_str(t)}: {float(w):.6g}" for t, w in lang[:3]]}
    return res


def _count_rules(g, t, S, cnt):
    """independent count of the rules used by the derivation of t (members only)"""
    h, kids = t
    for P, (args, _) in g.rules.get(S, {}).items():
        if head_of(P) == h and len(args) == len(kids):
            cnt[(S, h)] = cnt.get((S, h), 0) + 1
            for a, k in zip(args, kids):
                _count_rules(g, k, (a[0], (a[1], None)), cnt)
            return


def _first_diff(a, b):
    for k in sorted(set(a) | set(b)):
        if a.get(k) != b.get(k):
            return f"{k}: model={a.get(k)} impl={b.get(k)}"
    return ""


def random_of(seed):
    import random
    return random.Random(seed)


def exotic(rng, terms, objs):
    """programs that are not applicative terms over derivable symbols"""
    from synth.syntax.program import Function, Lambda, Primitive
    from synth.syntax.type_system import PrimitiveType
    out = [Primitive("no-such-primitive", PrimitiveType("int"))]
    apps = [t for t in terms if t[1]]
    if apps:
        t = rng.choice(apps)
        p = to_repo(t, objs)
        out.append(Function(Function(p.function, p.arguments[:1]), p.arguments[1:]))   # curried spelling
        out.append(Lambda(p))
    return out


# ---------------------------------------------------------------------------- unambiguous grammars
def check_u(case, M, rng, cfg, res):
    from synth.syntax.grammars.tagged_u_grammar import ProbUGrammar
    from synth.syntax.grammars.u_cfg import UCFG
    tags, failures = res["tags"], res["failures"]
    kind = case["kind"]
    if kind == "ucfg":
        clean = case["wseed"] % 2 == 0
        u = UCFG.from_CFG(cfg, clean)
        # from_CFG against the model (table compared as a set)
        sn, tn = Names("s"), Names("t")
        gw = tt_wire_grammar(cfg, sn, tn)
        mu = M.ask([Sym("c04.fromcfg"), gw])
        iw = _plain(ucfg_wire(u, sn, sorted(u.starts, key=repr), sorted(u.starts, key=repr)[0]))
        if canon_table(mu[2]) != canon_table(iw[2]) or sorted(map(json.dumps, mu[1])) != sorted(map(json.dumps, iw[1])):
            failures.append({"kind": "corr", "what": "UCFG.from_CFG differs from the model", "detail": f"{len(iw[2])} vs {len(mu[2])} non-terminals"})
    else:
        from synth.filter.constraints.dfta_constraints import add_dfta_constraints
        names = {n for n, _ in case["prims"]}
        try:
            dfta = add_dfta_constraints(cfg, case["constraints"], progress=False)
            u = UCFG.from_DFTA(dfta)
        except Exception as e:  # noqa  (constraint parsing / sharpening is properties C05/C06)
            tags.append("dfta-construction-raises:" + type(e).__name__)
            return res
        del names
    if not u.starts or not u.rules:
        tags.append("empty-language")
        return res
    starts = sorted(u.starts, key=repr)
    if rng.random() < 0.5:
        starts.reverse()
    nstarts = len(starts)
    tags.append(f"starts{min(nstarts, 4)}")
    multi = nstarts > 1       # decidable classifier of known finding C04-F1

    def fail(k, what, detail, f1=False):
        f = {"kind": k, "what": what, "detail": str(detail)[:400]}
        if f1 and multi:
            f["finding"] = "C04-F1"
        if not any(x["what"] == what for x in failures):
            failures.append(f)
    un = Names("u")
    try:
        orc0 = UOracle(u.rules, starts, lambda S, P, a: Fraction(1), lambda s: Fraction(1), lang_limit(case))
        lang0 = orc0.language()
    except TooLarge:
        tags.append("too-large")
        return res
    except RecursionError:
        tags.append("cyclic")
        return res
    terms = [t for t, _, _ in lang0]
    distinct = {freeze(t) for t in terms}
    if len(distinct) != len(terms):
        tags.append("ambiguous(C06)")      # unambiguity is property C06
        # programs() still has a meaning: the number of (start symbol, derivation) pairs
        # (theorem C04_programs_u_derivations); compared with the model and the oracle's count
        try:
            np_a = u.programs()
            o_a = M.ask([Sym("c04.uops"), ucfg_wire(u, un, starts, u._some_start), [Sym("utags"), [], []], 64])
            if str(o_a[2]) != str(np_a):
                fail("corr", "UCFG.programs() differs from the model", f"{np_a} vs {o_a[2]} (ambiguous grammar)")
            if o_a[4] != "none" and int(o_a[4][1]) != len(terms):
                raise RuntimeError(f"Lean langU and Python oracle disagree on the number of derivations: {o_a[4]} vs {len(terms)}")
        except RecursionError:
            pass
        return res
    if any(len(alts) > 1 for S in u.rules for alts in u.rules[S].values()):
        tags.append("several-alternatives")
    objs = {}
    for S in u.rules:
        for P in u.rules[S]:
            objs[head_of(P)] = P
    heads = sorted(objs, key=repr)
    uw = ucfg_wire(u, un, starts, u._some_start)
    nprog = u.programs()
    if nprog != len(terms):
        fail("oracle", "programs() is not the number of programs of the language", f"{nprog} vs {len(terms)}")
    # ---- weights
    mode = case["weights"]
    wrng = random_of(case["wseed"])
    exact = False

    def dy(normalised):
        t = {}
        for S in u.rules:
            n = sum(len(a) for a in u.rules[S].values())
            ws = iter(split_dyadic(wrng, n, normalised))
            t[S] = {P: {tuple(a): float(next(ws)) for a in alts} for P, alts in u.rules[S].items()}
        st = {s: float(w) for s, w in zip(starts, split_dyadic(wrng, nstarts, normalised))}
        return t, st
    if mode == "uniform":
        pu = ProbUGrammar.uniform(u)
    elif mode == "random":
        pu = ProbUGrammar.random(u, seed=case["wseed"] % (1 << 31))
    elif mode == "dyadic":
        pu = ProbUGrammar(u, *dy(True))
        exact = True
    else:
        mode = "hand"
        t, st = dy(False)
        before = ({S: {P: dict(d) for P, d in row.items()} for S, row in t.items()}, dict(st))
        pu = ProbUGrammar(u, t, st)
        if case["wseed"] % 2 == 0:
            for t_ in terms[:12]:
                try:
                    rp = to_repo(t_, objs)
                    pu.probability(rp)
                    rp in pu
                except Exception:  # noqa
                    pass
            try:
                pu.programs()
            except Exception:  # noqa
                pass
            tags.append("history:queried-before-normalise")
        pu.normalise()
    conv = lambda w: fr_wire(Fraction(w))  # noqa
    ops = M.ask([Sym("c04.uops"), uw, utags_wire(before[0], before[1], un, conv) if mode == "hand" else [Sym("utags"), [], []], 64])
    m_norm, m_unif, m_prog, m_kb, m_counts = ops
    if str(m_prog) != str(nprog):
        fail("corr", "UCFG.programs() differs from the model", f"{nprog} vs {m_prog}")
    if m_counts != "none" and not (int(m_counts[0]) == int(m_counts[1]) == len(terms)):
        raise RuntimeError(f"Lean countU/langU and Python oracle disagree: {m_counts} vs {len(terms)}")
    if m_counts != "none" and m_prog != "none" and int(m_prog) != int(m_counts[1]):
        raise RuntimeError(f"Lean model programs = {m_prog} but the enumeration from the start symbols has {m_counts[1]} entries "
                           "(contradicts theorems C04_programs_u_derivations / C04_programs_ucfg)")
    tags.append("ucfg.programs-compared:" + kind)

    def ufloats(w):
        return ({json.dumps(nt): {json.dumps(r[0]): {json.dumps(a[0]): _div(frac_of(a[1])) for a in r[1]} for r in row} for nt, row in w[1]},
                {json.dumps(nt): _div(frac_of(x)) for nt, x in w[2]})
    got = ufloats(_plain(utags_wire(pu.tags, pu.start_tags, un, conv)))
    if mode == "uniform":
        if ufloats(m_unif) != got:
            fail("corr", "uniform(): weights differ from the model", "")
        for S in u.rules:
            n = sum(len(a) for a in u.rules[S].values())
            if any(w != 1 / n for d in pu.tags[S].values() for w in d.values()):
                fail("oracle", "uniform(): a rule weight is not 1/(number of alternatives of its non-terminal)", f"{S}")
                break
        if any(w != 1 / nstarts for w in pu.start_tags.values()):
            fail("oracle", "uniform(): a start weight is not 1/(number of start symbols)", "")
    if mode == "hand":
        if ufloats(m_norm) != got:
            fail("corr", "normalise(): weights differ from the model", "")
        for S in u.rules:
            s = sum(Fraction(w) for d in before[0][S].values() for w in d.values())
            if any(pu.tags[S][P][a] != _div(Fraction(w) / s) for P, d in before[0][S].items() for a, w in d.items()):
                fail("oracle", "normalise(): a weight is not w / (sum of the weights of its non-terminal)", f"{S}")
                break
        s = sum(Fraction(w) for w in before[1].values())
        if any(pu.start_tags[x] != _div(Fraction(w) / s) for x, w in before[1].items()):
            fail("oracle", "normalise(): a start weight is not w / (sum of the start weights)", "")
    for S in pu.tags:
        s = sum(Fraction(w) for d in pu.tags[S].values() for w in d.values())
        if (s != 1) if exact else abs(s - 1) > RTOL:
            fail("oracle", "weights of a non-terminal do not sum to 1", f"{S}: {float(s)}")
            break
    s = sum(Fraction(w) for w in pu.start_tags.values())
    if set(pu.start_tags) != set(u.starts) or ((s != 1) if exact else abs(s - 1) > RTOL):
        fail("oracle", "start weights do not sum to 1 over the start symbols", f"{float(s)}")
    # ---- probabilities
    wt = {S: {P: {a: Fraction(w) for a, w in d.items()} for P, d in row.items()} for S, row in pu.tags.items()}
    sw = {x: Fraction(w) for x, w in pu.start_tags.items()}
    orc = UOracle(u.rules, starts, lambda S, P, a: wt[S][P][tuple(a)], lambda x: sw[x], lang_limit(case))
    lang = orc.language()
    members = {freeze(t): (w, s) for t, w, s in lang}
    neigh = neighbours(rng, terms, heads, 120)
    probes = lang if len(lang) <= 300 else rng.sample(lang, 300)
    probe_terms = [t for t, _, _ in probes] + neigh
    tw = utags_wire(pu.tags, pu.start_tags, un, conv)
    normalised, rows = M.ask([Sym("c04.u"), uw, tw, [term_wire(t) for t in probe_terms]])
    nzero = 0
    # the statement's distribution with several start symbols (theorem C04_sum_one_u): when every
    # program of the language is probed, the Lean spec probU sums to 1 over it
    if len(probes) == len(lang) and normalised == "1":
        spec_total = sum(frac_of(row[1]) for row in rows[:len(lang)])
        if spec_total != 1:
            raise RuntimeError(f"Lean spec probU sums to {spec_total} over the language with {nstarts} start symbols (contradicts theorem C04_sum_one_u)")
        if any(int(row[4]) != 1 for row in rows[:len(lang)]):
            raise RuntimeError("a program of the language does not have exactly one derivation in the Lean spec")
        tags.append("spec-sum-one-checked" + (":several-starts" if multi else ""))
    for t, row in zip(probe_terms, rows):
        want, s0 = members.get(freeze(t), (Fraction(0), None))
        p_repo = to_repo(t, objs)
        got = pu.probability(p_repo)
        mprob, sprob = frac_of(row[0]), frac_of(row[1])
        if sprob != want:
            raise RuntimeError(f"Lean spec probU and Python oracle disagree on {term_str(t)}: {sprob} vs {want}")
        if (row[3] == "1") != (freeze(t) in members):
            raise RuntimeError(f"Lean spec genU and Python oracle disagree on membership of {term_str(t)}")
        if not multi and normalised == "1" and sprob != mprob:
            raise RuntimeError(f"model probabilityU differs from spec probU on {term_str(t)} with one start symbol (contradicts theorem C04_prob_u_partial)")
        if not same_prob(got, mprob, exact):
            fail("corr", "probability() differs from the model", f"{p_repo}: impl={got!r} model={mprob}")
        if (row[2] == "1") != (p_repo in u):
            fail("corr", "membership differs from the model", f"{p_repo}")
        if want == 0:
            nzero += 1
            if not (got == 0):
                fail("oracle", "positive probability for a program outside the language", f"{p_repo}: {got!r}")
        else:
            if not same_prob(got, want, exact):
                fail("oracle", "probability is not (start weight x) the product of the rule weights of the derivation", f"{p_repo}: {got!r} vs {float(want)}", f1=True)
            # the relation that does hold in the region of C04-F1: everything but the start factor
            if multi and not same_prob(Fraction(got) * sw[s0] if isinstance(got, (int, float)) else got, want, exact and exact_ok(Fraction(got))):
                fail("oracle", "probability is not the product of the rule weights of the derivation", f"{p_repo}: {got!r} x {float(sw[s0])} vs {float(want)}")
    for p in exotic(rng, terms, objs):
        try:
            got = pu.probability(p)
        except Exception as e:  # noqa
            got = type(e).__name__
        if not (got == 0):
            fail("oracle", "positive probability (or exception) for a program outside the language", f"{p}: {got!r}")
    total = sum(w for _, w, _ in lang)
    if exact and total != 1:
        raise RuntimeError(f"oracle: normalised weights but the derivation weights sum to {float(total)}")
    if len(lang) <= 1500:
        impl_total = sum(Fraction(pu.probability(to_repo(t, objs))) for t, _, _ in lang)
        if (impl_total != 1) if (exact and all(exact_ok(w) for _, w, _ in lang)) else abs(impl_total - 1) > RTOL * max(1, len(lang)):
            fail("oracle", "probabilities do not sum to 1 over the language", f"sum = {float(impl_total)} over {len(lang)} programs, {nstarts} start symbols", f1=True)
    napp = sum(1 for t in terms if t[1])
    res["nontrivial"] = len(terms) >= 3 and napp >= 1 and nzero >= 1
    tags.append("lang<10" if len(terms) < 10 else "lang<100" if len(terms) < 100 else "lang<1000" if len(terms) < 1000 else "lang>=1000")
    if multi:
        tags.append("several-starts(C04-F1 region)")
    res["sample"] = {"kind": kind, "prims": {n: G.ty_str(_tt(t)) for n, t in case["prims"]}, "request": G.ty_str(_tt(case["request"])),
                     "max_depth": case["max_depth"], "constraints": case["constraints"] if kind == "dfta" else [], "weights": mode,
                     "language_size": len(terms), "non_terminals": len(u.rules), "start_symbols": nstarts,
                     "examples": [f"{term_str(t)}: {float(w):.6g}" for t, w, _ in lang[:3]]}
    return res


def corpus():
    base = {"forbidden": [], "min_var": 1, "n_gram": 2, "max_size": 4, "nsamples": 10, "bad_samples": False, "nseed": 1, "wseed": 4}
    plus = [["f0", ["->", "int", ["->", "int", "int"]]], ["c0", "int"]]
    return [
        # C04-F1 (open): several start symbols, the start factor is missing
        dict(base, kind="dfta", prims=plus, request=["->", "int", "int"], max_depth=3, constraints=["(f0 ^f0 _)"], weights="uniform"),
        # C04-F2/F3/F4 (fixed): programs outside the language, wrong arity
        dict(base, kind="ucfg", prims=plus, request=["->", "int", "int"], max_depth=3, constraints=[], weights="dyadic"),
        dict(base, kind="cfg", prims=plus, request=["->", "int", "int"], max_depth=3, constraints=[], weights="dyadic"),
        dict(base, kind="cfg", prims=plus, request=["->", "int", "int"], max_depth=3, constraints=[], weights="samples", bad_samples=True),
        dict(base, kind="size", prims=plus, request=["->", "int", "int"], max_depth=3, constraints=[], weights="uniform", max_size=5),
        # C04-F5: TTCFG.programs() with a rule of three arguments (16 reported, 52 programs)
        dict(base, kind="size", prims=[["f0", ["->", "bool", ["->", "bool", ["->", "bool", "bool"]]]]], request=["->", "bool", ["->", "bool", "bool"]],
             max_depth=1, constraints=[], weights="dyadic", max_size=4, min_var=0),
        # several alternatives per rule and several start symbols
        dict(base, kind="dfta", prims=plus + [["f1", ["->", "int", "int"]]], request=["->", "int", "int"], max_depth=4,
             constraints=["(f0 ^f0,f1 _)", "(f1 ^f1)"], weights="hand"),
    ]
