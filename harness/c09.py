"""C09 — sampling draws programs/values with the probabilities of the grammar / weight vector.

Case kinds
  alias : a weight vector (n = 1..8; dyadic, with zeros, ties, unnormalised) and a script of
          generator outputs (x, u).  impl = the real PythonSampler (fallback back-end, reached
          directly or through LexiconSampler / ListSampler) with its `rng` replaced by a stub
          returning the script; model = PS.Sampler.build / sample1U (driver op c09.alias);
          spec = normalised weight vector; oracle = harness' own evaluation of "probability that
          sample_1 returns k" from the implementation's alias/proba tables, in exact fractions.
  stat  : a weight vector, a seed, a back-end (native vose = synth.utils.vose_polyfill.Sampler
          when vose is importable, PythonSampler), reached directly or through a value sampler:
          chi-square of N samples against the normalised weights (p >= 1e-6), no zero-weight
          outcome ever drawn, same seed => same sequence.
  value : LexiconSampler / ListSampler (nested list types, length tables, max_depth) /
          UnionSampler with scripted index draws; model = lexWeights/lexSample/listSampleFor/
          unionPick; oracle = harness' own reading of the documented behaviour.
  gdet  : a small ProbDetGrammar (CFG.depth_constraint + uniform / random / dyadic weights):
          (1) scripted per-non-terminal index streams -> sample_program() sequence, compared
          with PS.Sampler.sampleDet; every program in the grammar (impl `in`, model `derives`,
          harness' own language enumeration); (2) real samplers, both back-ends: chi-square of
          the empirical frequencies against the product of rule weights, same seed => same sequence.
  gu    : the same for ProbUGrammar (UCFG.from_CFG, UCFG.from_DFTA of constraints, several start
          symbols and several alternatives per rule; hand-written "comb" UCFGs of 5-11 non-terminals
          in which every sampler is used exactly once per program), model PS.Sampler.sampleU.
"""
import collections
import contextlib
import itertools
import json
import math
from fractions import Fraction as Fr

from harness.sexp import Sym

CASE_TIMEOUT = {"quick": 150, "thorough": 300}
PVAL = 1e-6
TOL = Fr(1, 10 ** 9)


# ------------------------------------------------------------------ small numeric helpers
def fs(x):
    x = Fr(x)
    return f"{x.numerator}/{x.denominator}"


def pf(s):
    return Fr(str(s))


def _gammq(a, x):
    """regularised upper incomplete gamma Q(a, x) (series / continued fraction)"""
    if x <= 0:
        return 1.0
    gln = math.lgamma(a)
    if x < a + 1:
        ap, s, d = a, 1.0 / a, 1.0 / a
        for _ in range(100000):
            ap += 1
            d *= x / ap
            s += d
            if abs(d) < abs(s) * 1e-16:
                break
        return max(0.0, 1.0 - s * math.exp(-x + a * math.log(x) - gln))
    tiny = 1e-300
    b = x + 1 - a
    c = 1 / tiny
    d = 1 / b
    h = d
    for i in range(1, 100000):
        an = -i * (i - a)
        b += 2
        d = an * d + b
        if abs(d) < tiny:
            d = tiny
        c = b + an / c
        if abs(c) < tiny:
            c = tiny
        d = 1 / d
        de = d * c
        h *= de
        if abs(de - 1) < 1e-16:
            break
    return math.exp(-x + a * math.log(x) - gln) * h


def chi2_sf(x, df):
    return _gammq(df / 2.0, x / 2.0) if df > 0 else 1.0


def chi2_test(counts, probs, N):
    """counts, probs: dict key -> count / probability (probabilities sum to 1).
    returns (p_value, chi2, df, impossible) ; bins with expected < 5 are pooled"""
    impossible = [k for k, c in counts.items() if c and probs.get(k, 0) <= 0]
    chi, df = 0.0, -1
    pool_e, pool_o = 0.0, 0
    for k, p in probs.items():
        e = N * float(p)
        o = counts.get(k, 0)
        if e < 5:
            pool_e += e
            pool_o += o
        else:
            chi += (o - e) ** 2 / e
            df += 1
    if pool_e >= 5:
        chi += (pool_o - pool_e) ** 2 / pool_e
        df += 1
    elif pool_e > 0 and df >= 0 and pool_o > 5 + 10 * pool_e:
        chi += (pool_o - pool_e) ** 2 / max(pool_e, 1e-9)
        df += 1
    return (chi2_sf(chi, df) if df > 0 else 1.0), chi, df, impossible


class ImplError(Exception):
    """an exception raised by the implementation where the statement promises a result"""

    def __init__(self, what, detail):
        super().__init__(what)
        self.what, self.detail = what, detail


@contextlib.contextmanager
def impl(what):
    try:
        yield
    except ImplError:
        raise
    except Exception as e:  # noqa
        import traceback
        raise ImplError(f"{what}: {type(e).__name__}", traceback.format_exc()[-700:])


# ------------------------------------------------------------------ stubs
class ScriptRng:
    """stands for numpy's Generator inside PythonSampler: uniform(0, n) / uniform() return the script"""

    def __init__(self, draws):
        self.vals = [v for d in draws for v in d]
        self.calls = []

    def uniform(self, *a):
        self.calls.append(a)
        return float(self.vals.pop(0))


class ScriptIndex:
    """stands for an alias sampler object: sample() returns scripted indices"""

    def __init__(self, idx):
        self.idx = list(idx)

    def sample(self, *a, **k):
        return self.idx.pop(0)

    def seed(self, *a, **k):       # tolerated: an implementation may re-seed an existing sampler
        pass


class RecordingSampler:
    """stands for the VoseSampler class: records the weights and seed it is given"""
    log = []
    script = []

    def __init__(self, weights, seed=None):
        import numpy as np
        RecordingSampler.log.append(([float(x) for x in np.asarray(weights, dtype=float)], seed))
        self.idx = RecordingSampler.script

    def sample(self, *a, **k):
        return self.idx.pop(0)

    def seed(self, *a, **k):       # tolerated: an implementation may re-seed an existing sampler
        pass


@contextlib.contextmanager
def backend(cls):
    """make every module that imported `Sampler as VoseSampler` use `cls`"""
    import synth.generation.sampler as m1
    import synth.syntax.grammars.tagged_det_grammar as m2
    import synth.syntax.grammars.tagged_u_grammar as m3
    old = [(m, m.VoseSampler) for m in (m1, m2, m3)]
    for m, _ in old:
        m.VoseSampler = cls
    try:
        yield
    finally:
        for m, o in old:
            m.VoseSampler = o


def backend_class(name):
    import synth.utils.vose_polyfill as vp
    if name == "python":
        return vp.PythonSampler
    return vp.Sampler  # native vose when importable (else the fallback again)


# ------------------------------------------------------------------ weights
def gen_weights(rng, n=None):
    """-> (mode, list of Fraction); never all zero"""
    mode = rng.choice(["pow2", "pow2", "scaled", "scaled", "unnorm", "norm", "tie", "onehot"])
    if mode == "pow2":
        n = rng.choice([1, 2, 4, 4, 8, 8])
        den = rng.choice([8, 16, 32, 64])
        cuts = sorted(rng.randint(0, den) for _ in range(n - 1))
        parts = [b - a for a, b in zip([0] + cuts, cuts + [den])]
        rng.shuffle(parts)
        if rng.random() < 0.3 and n >= 4:   # force ties at 1/n
            parts = [den // n] * n
            if rng.random() < 0.7:
                i, j = rng.sample(range(n), 2)
                d = rng.randint(0, den // n)
                parts[i] += d
                parts[j] -= d
        return mode, [Fr(p, den) for p in parts]
    n = n or rng.randint(1, 8)
    if mode == "scaled":     # multiples of n/2^k : the average is dyadic, float arithmetic exact
        k = rng.choice([0, 1, 2, 3])
        c = [rng.choice([0, 0, 1, 1, 2, 3, 4, 5, 8]) for _ in range(n)]
        if sum(c) == 0:
            c[rng.randrange(n)] = rng.randint(1, 4)
        return mode, [Fr(n * x, 2 ** k) for x in c]
    if mode == "unnorm":
        c = [rng.choice([0, 1, 1, 2, 3, 5, 7]) for _ in range(n)]
        if sum(c) == 0:
            c[rng.randrange(n)] = 1
        return mode, [Fr(x, rng.choice([1, 1, 2, 4])) for x in c]
    if mode == "norm":
        den = rng.choice([16, 32, 64])
        cuts = sorted(rng.randint(0, den) for _ in range(n - 1))
        parts = [b - a for a, b in zip([0] + cuts, cuts + [den])]
        return mode, [Fr(p, den) for p in parts]
    if mode == "tie":
        v = Fr(rng.choice([1, 1, 2, 3]), rng.choice([1, 2, 4]))
        return mode, [v] * n
    w = [Fr(0)] * n
    w[rng.randrange(n)] = Fr(rng.choice([1, 1, 2]), 1)
    return mode, w


def replay_margin(ws):
    """harness' own exact replay of the table construction as the statement of the algorithm
    describes it; returns (exact, margin) where `exact` says every intermediate value is a dyadic
    rational (the float computation is then exact) and `margin` is the smallest distance between a
    compared weight and the average (robustness of the float comparisons otherwise)."""
    n = len(ws)
    avg = sum(ws) / n

    def dyadic(x):
        d = Fr(x).denominator
        return d & (d - 1) == 0 and d <= 2 ** 40
    exact = dyadic(avg) and all(dyadic(w) for w in ws)
    w = list(ws)
    small = [i for i in range(n) if w[i] < avg]
    large = [i for i in range(n) if w[i] >= avg]
    margin = min(abs(x - avg) for x in w)
    while small and large:
        l = small.pop(0)
        m = large.pop(0)
        if avg != 0 and not dyadic(w[l] / avg):
            exact = False  # proba = w/avg is rounded: compared with a tolerance
        w[m] = w[m] + w[l] - avg
        if small or large:   # the last remaining index always holds exactly avg: either list will do
            margin = min(margin, abs(w[m] - avg))
        (large if w[m] >= avg else small).append(m)
    return exact, margin


def table_dist(alias, proba, n):
    """P[sample_1() = k] read off the statement: column uniform, heads with probability proba[col]"""
    out = [Fr(0)] * n
    for col in range(n):
        p = min(Fr(1), max(Fr(0), proba[col]))
        out[col] += p / n
        if p < 1:
            a = alias[col]
            if not 0 <= a < n:
                return None
            out[a] += (1 - p) / n
    return out


# ------------------------------------------------------------------ grammars
DSL_SPECS = {
    "arith": {"+": "int -> int -> int", "neg": "int -> int", "1": "int", "0": "int"},
    "bool": {"and": "bool -> bool -> bool", "not": "bool -> bool", "lt": "int -> int -> bool", "1": "int", "0": "int", "t": "bool"},
    "ite": {"ite": "bool -> int -> int -> int", "z": "int", "s": "int -> int", "tt": "bool", "eq": "int -> int -> bool"},
    "list": {"cons": "int -> int list -> int list", "nil": "int list", "hd": "int list -> int", "0": "int", "1": "int"},
    "ho": {"app": "(int -> int) -> int -> int", "inc": "int -> int", "0": "int", "+": "int -> int -> int"},
}
REQUESTS = {"arith": ["int", "int -> int", "int -> int -> int"], "bool": ["bool", "int -> bool"],
            "ite": ["int", "int -> int", "bool -> int"], "list": ["int list", "int", "int -> int list"],
            "ho": ["int", "int -> int"]}
CONSTRAINTS = {"arith": ["(+ 1 _)", "(+ ^+ _)", "(neg ^neg)", "(+ _ ^0)"], "ite": ["(s ^s)", "(ite _ ^z _)"],
               "bool": ["(not ^not)", "(and ^t _)"], "list": ["(cons ^1 _)"], "ho": ["(+ ^0 _)"]}


def gen_grammar_case(rng, kind, tier):
    name = rng.choice(sorted(DSL_SPECS))
    req = rng.choice(REQUESTS[name])
    depth = rng.choice([2, 2, 3, 3, 4] if name in ("arith", "list") else [2, 3, 3])
    c = {"kind": kind, "dsl": name, "request": req, "depth": depth,
         "weights": rng.choice(["uniform", "random", "random", "dyadic"]), "wseed": rng.randint(1, 10 ** 6),
         "seed": rng.randint(1, 2 ** 31 - 1), "dseed": rng.randint(0, 10 ** 9), "ncalls": rng.randint(3, 12),
         "backend": rng.choice(["native", "python"]), "copy": rng.random() < 0.5,
         # order in which the caller's probability table lists the rules of a non-terminal (a user-made table or the
         # neural predictor's primitives-then-variables order need not follow cfg.rules)
         "tag_order": rng.choice(["rules", "rules", "reversed", "shuffled"])}
    if kind == "gu":
        c["ucfg"] = rng.choice(["from_cfg", "dfta", "dfta"])
        if c["ucfg"] == "dfta":
            c["constraint"] = rng.choice(CONSTRAINTS[name])
            if c["depth"] > 3:
                c["depth"] = 3
    return c


def gen_hand_case(rng):
    """a 'comb' UCFG written by hand: non-terminal 0 has the single rule root(NT_1 … NT_{m-1}); NT_i
    either has two constant rules c_i | d_i ("r") or one unary rule f_i with the two alternatives
    [A] | [B] ("a"); A and B (one constant each) come last.  Every sampler is used exactly once per
    program, so two samplers that draw the same stream show up in the program frequencies."""
    m = rng.randint(3, 9)
    shape = [rng.choice("ra") for _ in range(m - 1)]
    if rng.random() < 0.5 and m >= 9:
        shape[0], shape[6] = "a", "r"
    return {"kind": "gu", "ucfg": "hand", "shape": "".join(shape), "dsl": "hand", "request": "t", "depth": 3,
            "weights": rng.choice(["uniform", "uniform", "random", "dyadic"]), "wseed": rng.randint(1, 10 ** 6),
            "seed": rng.randint(1, 2 ** 31 - 1), "dseed": rng.randint(0, 10 ** 9), "ncalls": rng.randint(2, 6),
            "backend": rng.choice(["native", "python"]), "copy": rng.random() < 0.3}


def build_hand(case):
    from synth.syntax import UCFG, Primitive, auto_type
    from synth.syntax.type_system import PrimitiveType
    T = PrimitiveType("t")
    shape = case["shape"]
    m = len(shape) + 1
    N = [(T, i) for i in range(m + 2)]
    A, B = N[m], N[m + 1]
    root = Primitive("root", auto_type(" -> ".join(["t"] * m)))
    rules = {N[0]: {root: [[N[i] for i in range(1, m)]]}}
    for i, k in enumerate(shape, start=1):
        if k == "r":
            rules[N[i]] = {Primitive(f"c{i}", T): [[]], Primitive(f"d{i}", T): [[]]}
        else:
            rules[N[i]] = {Primitive(f"f{i}", auto_type("t -> t")): [[A], [B]]}
    rules[A] = {Primitive("a", T): [[]]}
    rules[B] = {Primitive("b", T): [[]]}
    return UCFG({N[0]}, rules, clean=False)


def build_cfg(case):
    from synth.syntax import DSL, CFG, auto_type
    dsl = DSL(auto_type(DSL_SPECS[case["dsl"]]))
    return CFG.depth_constraint(dsl, auto_type(case["request"]), case["depth"])


def dyadic_split(rng, k):
    den = 16
    while True:
        cuts = sorted(rng.randint(0, den) for _ in range(k - 1))
        parts = [b - a for a, b in zip([0] + cuts, cuts + [den])]
        if rng.random() < 0.7 and 0 in parts and k <= den:
            continue
        return [p / den for p in parts]


class Symbols:
    def __init__(self):
        self.ids = {}
        self.names = []

    def of(self, P):
        if P not in self.ids:
            self.ids[P] = len(self.names)
            self.names.append(str(P))
        return self.ids[P]


def prog_tree(p, syms):
    from synth.syntax.program import Function
    if isinstance(p, Function):
        return [syms.of(p.function)] + [prog_tree(a, syms) for a in p.arguments]
    return [syms.of(p)]


def tree_key(t):
    return "(" + " ".join([str(t[0])] + [tree_key(k) for k in t[1:]]) + ")"


def key_show(k, syms):
    from harness import sexp
    return show_tree(parse_tree(sexp.parse(k)), syms)


def parse_tree(x):
    return [int(x[0])] + [parse_tree(k) for k in x[1:]]


def show_tree(t, syms):
    if len(t) == 1:
        return syms.names[t[0]]
    return "(" + " ".join([syms.names[t[0]]] + [show_tree(k, syms) for k in t[1:]]) + ")"


def language(rules, starts, limit=20000):
    """harness' own enumeration: rules[S] = [(sym, [(args, w), …]), …]; starts = [(S, p)];
    -> dict tree_key -> probability (product of the weights used, times the start weight)"""
    memo = {}

    def d(S, guard=0):
        if S in memo:
            return memo[S]
        if guard > 60:
            raise RecursionError
        out = collections.OrderedDict()
        for sym, alts in rules[S]:
            for args, w in alts:
                subs = [list(d(a, guard + 1).items()) for a in args]
                for combo in itertools.product(*subs):
                    pr = w
                    for _, q in combo:
                        pr *= q
                    key = "(" + " ".join([str(sym)] + [k for k, _ in combo]) + ")"
                    out[key] = out.get(key, 0) + pr
                    if len(out) > limit:
                        raise OverflowError
        memo[S] = out
        return out
    tot = collections.OrderedDict()
    for S, ps in starts:
        for k, q in d(S).items():
            tot[k] = tot.get(k, 0) + ps * q
    return tot


# ------------------------------------------------------------------ generation
def gen(rng, i, tier):
    r = rng.random()
    if r < 0.46:
        mode, ws = gen_weights(rng)
        n = len(ws)
        draws = []
        for _ in range(rng.randint(n, 3 * n + 2)):
            col = rng.randrange(n)
            x = col + Fr(rng.randrange(0, 16), 16)
            u = Fr(rng.choice([0, 1, 2, 3, 5, 8, 13, 16, 21, 31, 32, 33, 47, 48, 55, 60, 63]), 64)
            draws.append([fs(x), fs(u)])
        return {"kind": "alias", "mode": mode, "w": [fs(w) for w in ws], "draws": draws,
                "via": rng.choice(["direct", "direct", "lexicon", "lexicon-list", "list"])}
    if r < 0.62:
        mode, ws = gen_weights(rng, n=rng.randint(2, 8))
        if rng.random() < 0.4:   # arbitrary floats
            ws = [Fr(rng.choice([0.0, rng.random(), rng.random() * 3, 0.7, 0.1])) for _ in ws]
            if sum(ws) == 0:
                ws[0] = Fr(1)
            mode = "float"
        return {"kind": "stat", "mode": mode, "w": [fs(w) for w in ws], "seed": rng.randint(1, 2 ** 31 - 1),
                "backend": rng.choice(["native", "python"]), "via": rng.choice(["direct", "direct", "lexicon", "list"]),
                "N": 50000}
    if r < 0.78:
        return gen_value(rng)
    if r < 0.90:
        return gen_grammar_case(rng, "gdet", tier)
    if r < 0.96:
        return gen_grammar_case(rng, "gu", tier)
    return gen_hand_case(rng)


VT = ["int", "bool", "str"]


def gen_vty(rng, d):
    t = ["b", rng.choice(VT)]
    for _ in range(d):
        t = ["l", t]
    return t


def gen_value(rng):
    sub = rng.choice(["lexicon", "list", "list", "union"])
    if sub == "lexicon":
        n = rng.randint(1, 6)
        lex = [rng.choice("abcd") for _ in range(n)]
        how = rng.choice(["none", "empty", "list", "ndarray", "ndarray"])
        _, ws = gen_weights(rng, n=n)
        if len(ws) != n:
            ws = [Fr(1)] * n
        return {"kind": "value", "sub": sub, "lexicon": lex, "how": how, "w": [fs(w) for w in ws],
                "idx": [rng.randrange(n) for _ in range(rng.randint(1, 8))], "seed": rng.choice([None, 0, rng.randint(1, 99)])}
    if sub == "list":
        k = rng.randint(1, 4)
        pairs = rng.random() < 0.4
        lens = sorted(rng.sample(range(0, 6), k)) if pairs else list(range(1, k + 1))
        _, ws = gen_weights(rng, n=k)
        if len(ws) != k:
            ws = [Fr(1)] * k
        ty = gen_vty(rng, rng.choice([0, 1, 1, 2, 2, 3]))
        return {"kind": "value", "sub": sub, "pairs": pairs, "lens": lens, "w": [fs(w) for w in ws], "ty": ty,
                "max_depth": rng.choice([-1, -1, -1, 1, 2, 0]),
                "len_idx": [rng.randrange(k) for _ in range(40)], "elems": [rng.choice("xyzuvw") for _ in range(400)]}
    tys = [gen_vty(rng, rng.choice([0, 0, 1, 2])) for _ in range(rng.randint(1, 4))]
    uniq = []
    for t in tys:
        if t not in uniq:
            uniq.append(t)
    ask = rng.choice(uniq) if rng.random() < 0.7 else gen_vty(rng, rng.choice([0, 1, 2]))
    return {"kind": "value", "sub": sub, "types": uniq, "fallback": rng.random() < 0.5, "ask": ask}


def shrink(case):
    k = case["kind"]
    if k in ("alias", "stat"):
        n = len(case["w"])
        if k == "alias":
            for j in range(len(case["draws"])):
                c = dict(case)
                c["draws"] = case["draws"][:j] + case["draws"][j + 1:]
                yield c
        if n > 1:
            for j in range(n):
                c = dict(case)
                c["w"] = case["w"][:j] + case["w"][j + 1:]
                if sum(pf(x) for x in c["w"]) == 0:
                    continue
                if k == "alias":
                    c["draws"] = [d for d in case["draws"] if pf(d[0]) < n - 1]
                    c["mode"] = "shrunk"
                yield c
        if case.get("via") != "direct":
            c = dict(case)
            c["via"] = "direct"
            yield c
    elif k == "gu" and case.get("ucfg") == "hand":
        sh = case["shape"]
        for j in range(len(sh)):
            if len(sh) > 1:
                c = dict(case)
                c["shape"] = sh[:j] + sh[j + 1:]
                yield c
        if case["weights"] != "uniform":
            c = dict(case)
            c["weights"] = "uniform"
            yield c
    elif k in ("gdet", "gu"):
        if case["depth"] > 2:
            c = dict(case)
            c["depth"] = case["depth"] - 1
            yield c
        if case["ncalls"] > 1:
            c = dict(case)
            c["ncalls"] = case["ncalls"] - 1
            yield c
        if case["weights"] != "uniform":
            c = dict(case)
            c["weights"] = "uniform"
            yield c


# ------------------------------------------------------------------ checks
def result(case, key, nontrivial, tags, failures, sample):
    return {"key": key, "nontrivial": bool(nontrivial), "tags": tags, "failures": failures, "sample": sample}


def vty_repo(t):
    from synth.syntax.type_system import List, PrimitiveType
    if t[0] == "b":
        return PrimitiveType(t[1])
    return List(vty_repo(t[1]))


def vty_wire(t):
    return [Sym("b"), t[1]] if t[0] == "b" else [Sym("l"), vty_wire(t[1])]


def make_python_sampler(ws_float, via, seed=1):
    """the fallback sampler reached directly or through a value sampler; returns (obj, sampler, array)"""
    import numpy as np
    from synth.utils.vose_polyfill import PythonSampler
    arr = ws_float if isinstance(ws_float, np.ndarray) else np.array(ws_float, dtype=float)
    if via == "direct":
        s = PythonSampler(arr, seed=seed)
        return s, s, arr
    from synth.generation.sampler import LexiconSampler, ListSampler
    with backend(PythonSampler):
        if via == "lexicon":
            o = LexiconSampler(list(range(len(ws_float))), arr, seed=seed)
        elif via == "lexicon-list":
            o = LexiconSampler(list(range(len(ws_float))), list(ws_float), seed=seed)
            arr = None
        else:
            o = ListSampler(LexiconSampler([0], seed=seed), list(ws_float), seed=seed)
            arr = None
    return o, o.sampler, arr


def check_alias(case, M):
    import numpy as np
    ws = [pf(x) for x in case["w"]]
    n = len(ws)
    draws = [[pf(a), pf(b)] for a, b in case["draws"]]
    wf = [float(w) for w in ws]
    total = sum(ws)
    want = [w / total for w in ws]           # the statement: long-run frequencies = normalised weights
    exact, margin = replay_margin(ws)
    robust = exact or margin > Fr(1, 10 ** 6)
    failures = []
    # ---- implementation
    with impl("building the fallback sampler / sample_1"):
        obj, s, arr = make_python_sampler(wf, case["via"])
        alias = [int(a) for a in s.alias]
        proba = [Fr(float(p)) for p in s.proba]
        s.rng = ScriptRng(draws)
        outs = []
        for _ in draws:
            outs.append(int(s.sample_1()))
    calls_ok = all((len(c) == 2 and c[0] == 0 and c[1] == n) if j % 2 == 0 else len(c) == 0 for j, c in enumerate(s.rng.calls))
    # a second sampler built from the same array object must see the same weights
    second = None
    if arr is not None:
        with impl("building a second fallback sampler"):
            _, s2, _ = make_python_sampler(arr, case["via"])
        second = table_dist([int(a) for a in s2.alias], [Fr(float(p)) for p in s2.proba], n)
    # ---- model and spec
    ans = M.ask([Sym("c09.alias"), [fs(w) for w in ws], [[fs(a), fs(b)] for a, b in draws]])
    m_alias = [int(a) for a in ans[0]]
    m_proba = [pf(p) for p in ans[1]]
    m_dist = [pf(p) for p in ans[2]]
    m_norm = [pf(p) for p in ans[3]]
    m_outs = [int(a) for a in ans[4]]
    if m_norm != want:
        raise RuntimeError(f"Lean spec (normalised weights) and harness oracle disagree: {m_norm} vs {want}")
    if m_dist != m_norm:
        raise RuntimeError(f"model: aliasDist (build w) differs from the normalised weights (contradicts theorem C09_alias): w={case['w']}")
    # ---- oracle: the distribution the implementation's tables induce
    tol = Fr(0) if exact else TOL

    def close(a, b):
        return a is not None and all(abs(x - y) <= tol for x, y in zip(a, b))
    idist = table_dist(alias, proba, n)
    if any(p < -tol or p > 1 + tol for p in proba) or any(not 0 <= a < n for a in alias):
        failures.append({"kind": "oracle", "what": "fallback sampler: coin bias outside [0,1] or alias outside 0..n-1",
                         "detail": f"weights={wf} alias={alias} proba={[float(p) for p in proba]}"})
    elif not close(idist, want):
        failures.append({"kind": "oracle", "what": "fallback sampler: the alias/proba tables do not induce the (normalised) weight vector",
                         "detail": f"weights={wf} via={case['via']} alias={alias} proba={[float(p) for p in proba]} induced={[float(x) for x in idist]} expected={[float(x) for x in want]}"})
    if second is not None and not close(second, want):
        failures.append({"kind": "oracle", "what": "fallback sampler: a second sampler built from the same weight array has another distribution (caller's array overwritten)",
                         "detail": f"weights={wf} via={case['via']} array afterwards={[float(x) for x in arr]} induced by second sampler={[float(x) for x in second]}"})
    # ---- correspondence: tables and decisions
    if robust:
        if alias != m_alias or not all(abs(a - b) <= tol for a, b in zip(proba, m_proba)):
            failures.append({"kind": "corr", "what": "alias/proba tables differ from the model",
                             "detail": f"weights={wf} impl alias={alias} proba={[float(p) for p in proba]} model alias={m_alias} proba={[float(p) for p in m_proba]}"})
        else:
            for j, (x, u) in enumerate(draws):
                col = int(x)
                if exact or abs(u - m_proba[col]) > TOL:
                    if outs[j] != m_outs[j]:
                        failures.append({"kind": "corr", "what": "sample_1 decision differs from the model",
                                         "detail": f"weights={wf} uniform(0,n)={float(x)} uniform()={float(u)} impl={outs[j]} model={m_outs[j]} proba[col]={float(m_proba[col])}"})
                        break
    if not calls_ok:
        failures.append({"kind": "corr", "what": "sample_1 does not draw uniform(0, n) then uniform()", "detail": str(s.rng.calls[:4])})
    heads = sum(1 for j, (x, u) in enumerate(draws) if m_outs[j] == int(x))
    tags = [f"alias.n{n}", f"alias.mode.{case['mode']}", f"alias.via.{case['via']}", "alias.exact" if exact else ("alias.tolerance" if robust else "alias.near-tie")]
    if any(w == 0 for w in ws):
        tags.append("alias.has-zero")
    if total != 1:
        tags.append("alias.unnormalised")
    if len(set(ws)) < n:
        tags.append("alias.has-tie")
    paired = any(p != 1 for p in m_proba)
    return result(case, json.dumps(["alias", case["w"], case["draws"], case["via"]]),
                  n >= 2 and paired and 0 < heads < len(draws), tags, failures,
                  {"weights": case["w"], "via": case["via"], "alias": alias, "proba": [fs(p) for p in m_proba], "decisions": outs[:6]})


def draw_many(sampler_obj, via, k):
    """k draws (indices) from a Sampler / LexiconSampler / ListSampler length sampler"""
    if via == "direct":
        out = sampler_obj.sample(k=k)
        return [int(x) for x in out]
    if via == "lexicon":
        return [int(sampler_obj.sample()) for _ in range(k)]
    from synth.syntax.type_system import List, PrimitiveType
    t = List(PrimitiveType("int"))
    return [len(sampler_obj.sample(type=t)) - 1 for _ in range(k)]


def make_sampler(cls, wf, via, seed):
    import numpy as np
    if via == "direct":
        return cls(np.array(wf, dtype=float), seed=seed)
    from synth.generation.sampler import LexiconSampler, ListSampler
    with backend(cls):
        if via == "lexicon":
            return LexiconSampler(list(range(len(wf))), np.array(wf, dtype=float), seed=seed)
        return ListSampler(LexiconSampler([0], seed=seed), list(wf), seed=seed)


def check_stat(case, M):
    ws = [pf(x) for x in case["w"]]
    n = len(ws)
    wf = [float(w) for w in ws]
    total = sum(ws)
    want = {k: ws[k] / total for k in range(n)}
    ans = M.ask([Sym("c09.alias"), [fs(w) for w in ws], []])
    if [pf(p) for p in ans[3]] != [want[k] for k in range(n)] or ans[2] != ans[3]:
        raise RuntimeError("Lean spec / model distribution disagree with the harness' normalised weights")
    cls = backend_class(case["backend"])
    N = case["N"]
    failures = []
    with impl(f"building a sampler and drawing from it ({case['backend']} back-end, via {case['via']})"):
        s = make_sampler(cls, wf, case["via"], case["seed"])
        xs = draw_many(s, case["via"], N)
    counts = collections.Counter(xs)
    pv, chi, df, impossible = chi2_test(counts, want, N)
    who = f"{case['backend']} back-end ({cls.__module__}.{cls.__name__}) via {case['via']}"
    if any(not 0 <= x < n for x in counts):
        failures.append({"kind": "oracle", "what": "sampler returned an index outside 0..n-1", "detail": f"{who} weights={wf} {sorted(counts)[:5]}"})
    elif impossible:
        failures.append({"kind": "oracle", "what": "an outcome of weight 0 was drawn", "detail": f"{who} weights={wf} seed={case['seed']} outcomes={impossible}"})
    elif pv < PVAL:
        failures.append({"kind": "oracle", "what": "sample frequencies do not follow the weight vector (chi-square)",
                         "detail": f"{who} weights={wf} seed={case['seed']} N={N} frequencies={[counts.get(k, 0) / N for k in range(n)]} expected={[float(want[k]) for k in range(n)]} chi2={chi:.1f} df={df} p={pv:.2e}"})
    with impl("building two samplers with the same seed"):
        s1 = make_sampler(cls, wf, case["via"], case["seed"])
        s2 = make_sampler(cls, wf, case["via"], case["seed"])
        a, b = draw_many(s1, case["via"], 300), draw_many(s2, case["via"], 300)
    if a != b or a != xs[:300]:
        failures.append({"kind": "oracle", "what": "two samplers with the same seed produce different sequences",
                         "detail": f"{who} weights={wf} seed={case['seed']} first={a[:12]} second={b[:12]}"})
    single = make_sampler(cls, wf, case["via"], case["seed"])
    if case["via"] == "direct":
        one = [int(single.sample()) for _ in range(20)]
        if one != xs[:20]:
            failures.append({"kind": "corr", "what": "sample() and sample(k) disagree for the same seed", "detail": f"{who} {one} {xs[:20]}"})
    tags = [f"stat.{case['backend']}", f"stat.via.{case['via']}", f"stat.n{n}", f"stat.mode.{case['mode']}"]
    if total != 1:
        tags.append("stat.unnormalised")
    return result(case, json.dumps(["stat", case["w"], case["seed"], case["backend"], case["via"]]),
                  n >= 2 and len([w for w in ws if w > 0]) >= 2, tags, failures,
                  {"weights": wf, "backend": case["backend"], "via": case["via"], "seed": case["seed"], "chi2": round(chi, 2), "df": df, "p": pv})


def val_wire_to_py(v):
    if v[0] == "v":
        return str(v[1])
    return [val_wire_to_py(x) for x in v[1:]]


def check_value(case, M):
    import numpy as np
    from synth.generation import sampler as S
    failures = []
    sub = case["sub"]
    if sub == "lexicon":
        ws = [pf(x) for x in case["w"]]
        lex = list(case["lexicon"])
        n = len(lex)
        how = case["how"]
        arg = {"none": None, "empty": [], "list": [float(w) for w in ws], "ndarray": np.array([float(w) for w in ws])}[how]
        RecordingSampler.log = []
        RecordingSampler.script = list(case["idx"])
        with impl("LexiconSampler(...).sample()"), backend(RecordingSampler):
            ls = S.LexiconSampler(lex, arg, seed=case["seed"])
            got = [ls.sample() for _ in case["idx"]]
        passed_w, passed_seed = RecordingSampler.log[0]
        given = None if how in ("none", "empty") else [fs(w) for w in ws]
        ans = M.ask([Sym("c09.lex"), lex, Sym("none") if given is None else given, list(case["idx"])])
        m_w = [pf(x) for x in ans[0]]
        m_vals = [str(x) for x in ans[1]]
        # oracle from the documentation: uniform when no probabilities are given; values = lexicon[index]
        o_w = [Fr(1, n)] * n if given is None else ws
        o_vals = [lex[i] for i in case["idx"]]
        tot = sum(o_w)
        o_dist = collections.OrderedDict()
        for v, w in zip(lex, o_w):
            o_dist[v] = o_dist.get(v, 0) + w / tot
        for v, dist, spec in ans[2]:
            if pf(dist) != pf(spec):
                raise RuntimeError("model lexDist differs from lexSpec (contradicts theorem C09_lexicon)")
            if pf(spec) != o_dist[str(v)]:
                raise RuntimeError(f"Lean lexSpec and harness oracle disagree on {v}: {spec} vs {o_dist[str(v)]}")
        if m_vals != o_vals or (given is not None and m_w != o_w):
            raise RuntimeError("Lean lexicon model and harness oracle disagree")
        if given is None:
            okw = all(abs(Fr(a) - b) <= TOL for a, b in zip(passed_w, o_w)) and len(passed_w) == n
        else:
            okw = [Fr(a) for a in passed_w] == o_w
        if not okw:
            failures.append({"kind": "oracle", "what": "LexiconSampler hands other weights than its probabilities to the alias sampler",
                             "detail": f"lexicon={lex} probabilities={how}:{case['w']} passed={passed_w}"})
        if got != o_vals:
            failures.append({"kind": "oracle", "what": "LexiconSampler.sample() is not lexicon[index drawn]", "detail": f"lexicon={lex} indices={case['idx']} got={got}"})
        if passed_seed != case["seed"]:
            failures.append({"kind": "oracle", "what": "LexiconSampler does not pass its seed to the alias sampler", "detail": f"seed={case['seed']} passed={passed_seed}"})
        lex[0] = "MUTATED"
        ls.sampler.idx = [0]
        if case["lexicon"][0] != ls.sample():
            failures.append({"kind": "corr", "what": "LexiconSampler shares the caller's lexicon list", "detail": ""})
        tags = ["value.lexicon", f"value.lexicon.{how}"] + (["value.lexicon.duplicates"] if len(set(case["lexicon"])) < n else [])
        return result(case, json.dumps(["lex", case["lexicon"], how, case["w"], case["idx"]]), n >= 2, tags, failures,
                      {"lexicon": case["lexicon"], "probabilities": how, "values": got[:5]})
    if sub == "list":
        ws = [pf(x) for x in case["w"]]
        probs = [(l, float(w)) for l, w in zip(case["lens"], ws)] if case["pairs"] else [float(w) for w in ws]
        RecordingSampler.log = []
        with impl("ListSampler(...)"), backend(RecordingSampler):
            RecordingSampler.script = []
            el = S.LexiconSampler(["?"], seed=3)
            el.sampler = None
            elems = list(case["elems"])
            el.sample = lambda **kw: elems.pop(0)
            RecordingSampler.script = list(case["len_idx"])
            lsamp = S.ListSampler(el, probs, max_depth=case["max_depth"], seed=5)
        passed_w, _ = RecordingSampler.log[-1]
        ty = vty_repo(case["ty"])
        with impl("ListSampler.sample(type=...)"):
            try:
                got = lsamp.sample(type=ty)
                used = (len(case["len_idx"]) - len(lsamp.sampler.idx), len(case["elems"]) - len(elems))
            except AssertionError:
                got, used = "AssertionError", None
        ans = M.ask([Sym("c09.list"), case["max_depth"], list(case["lens"]), vty_wire(case["ty"]), list(case["len_idx"]), list(case["elems"])])
        if ans == "none":
            m_got, m_used = "AssertionError", None
        else:
            m_got = val_wire_to_py(ans[0])
            m_used = (len(case["len_idx"]) - len(ans[1]), len(case["elems"]) - int(ans[2]))
        tbl = M.ask([Sym("c09.lentable"), [fs(w) for w in ws]])
        if not case["pairs"] and [int(a) for a, _ in tbl] != list(case["lens"]):
            raise RuntimeError("model lengthTable is not 1..k")
        # oracle: nested lists whose lengths are mapping[index] in call order (outer list first, then
        # each element completely before the next), elements in call order; depth assertion
        li, ei = list(case["len_idx"]), list(case["elems"])

        def orc(t):
            if t[0] == "b":
                return ei.pop(0)
            ln = case["lens"][li.pop(0)]
            return [orc(t[1]) for _ in range(ln)]
        o_got = "AssertionError" if case["max_depth"] == 0 else orc(case["ty"])
        if m_got != o_got:
            raise RuntimeError(f"Lean ListSampler model and harness oracle disagree: {m_got} vs {o_got}")
        if got != o_got:
            failures.append({"kind": "oracle", "what": "ListSampler value is not the nested list determined by the drawn lengths and elements",
                             "detail": f"type={case['ty']} lengths={case['lens']} length draws={case['len_idx'][:8]} got={got} expected={o_got}"})
        elif used != m_used:
            failures.append({"kind": "corr", "what": "ListSampler consumes another number of draws than the model", "detail": f"{used} vs {m_used}"})
        if [Fr(a) for a in passed_w] != ws:
            failures.append({"kind": "oracle", "what": "ListSampler hands other weights than its length probabilities to the alias sampler",
                             "detail": f"probabilities={probs} passed={passed_w}"})
        d = 0
        t = case["ty"]
        while t[0] == "l":
            d += 1
            t = t[1]
        tags = ["value.list", f"value.list.nesting{d}", "value.list.pairs" if case["pairs"] else "value.list.plain"]
        if got == "AssertionError":
            tags.append("value.list.malformed-max-depth")
        return result(case, json.dumps(["list", case["ty"], case["lens"], case["len_idx"][:10], case["max_depth"], case["pairs"]]),
                      d >= 1 and got != "AssertionError", tags, failures, {"type": case["ty"], "lengths": case["lens"], "value": got if d < 3 else str(got)[:80]})
    # union
    class Const(S.Sampler):
        def __init__(self, i):
            self.i = i

        def sample(self, **kw):
            return (self.i, kw.get("type"))
    tys = case["types"]
    table = {vty_repo(t): Const(j) for j, t in enumerate(tys)}
    fb = Const(len(tys)) if case["fallback"] else None
    us = S.UnionSampler(table, fb)
    ask = vty_repo(case["ask"])
    with impl("UnionSampler.sample(type=...)"):
        try:
            got, got_ty = us.sample(type=ask)
            if got_ty != ask:
                failures.append({"kind": "oracle", "what": "UnionSampler does not forward the requested type", "detail": f"{ask} -> {got_ty}"})
        except AssertionError:
            got = "AssertionError"
    ans = M.ask([Sym("c09.union"), [[vty_wire(t), j] for j, t in enumerate(tys)], len(tys) if case["fallback"] else Sym("none"), vty_wire(case["ask"])])
    m_got = "AssertionError" if ans == "none" else int(ans)
    o_got = tys.index(case["ask"]) if case["ask"] in tys else (len(tys) if case["fallback"] else "AssertionError")
    if m_got != o_got:
        raise RuntimeError("Lean UnionSampler model and harness oracle disagree")
    if got != o_got:
        failures.append({"kind": "oracle", "what": "UnionSampler does not dispatch on the requested type (with fallback)",
                         "detail": f"types={tys} fallback={case['fallback']} ask={case['ask']} got={got} expected={o_got}"})
    tags = ["value.union", "value.union.hit" if case["ask"] in tys else ("value.union.fallback" if case["fallback"] else "value.union.malformed-no-sampler")]
    return result(case, json.dumps(["union", tys, case["fallback"], case["ask"]]), len(tys) >= 2, tags, failures,
                  {"types": tys, "ask": case["ask"], "chosen": got})


def assign_weights(case, keys_sizes):
    """-> list of lists of floats per key (dyadic mode), or None to use the repo's own uniform/random"""
    import random
    if case["weights"] != "dyadic":
        return None
    r = random.Random(case["wseed"])
    return [dyadic_split(r, k) for k in keys_sizes]


def check_gdet(case, M):
    import random
    import copy
    from synth.syntax import ProbDetGrammar
    cfg = build_cfg(case)
    if case["weights"] == "uniform":
        pg = ProbDetGrammar.uniform(cfg)
    elif case["weights"] == "random":
        pg = ProbDetGrammar.random(cfg, seed=case["wseed"])
    else:
        wl = assign_weights(case, [len(cfg.rules[S]) for S in cfg.rules])
        pg = ProbDetGrammar(cfg, {S: {P: w for P, w in zip(cfg.rules[S], wl[i])} for i, S in enumerate(cfg.rules)})
    if case.get("tag_order", "rules") != "rules":
        ro = random.Random(case["wseed"] + 1)
        tags2 = {}
        for S in pg.tags:
            items = list(pg.tags[S].items())
            if case["tag_order"] == "reversed":
                items.reverse()
            else:
                ro.shuffle(items)
            tags2[S] = dict(items)
        pg = ProbDetGrammar(cfg, tags2)
    if case.get("copy"):
        pg = copy.deepcopy(pg)
    # ---- extraction (ids in the iteration order of pg.tags)
    nts = list(pg.tags.keys())
    nid = {S: i for i, S in enumerate(nts)}
    syms = Symbols()
    rules = []
    for S in nts:
        row = []
        for P in pg.tags[S]:
            args, state = pg.rules[S][P]
            row.append((syms.of(P), [([nid[(a[0], (a[1], state))] for a in args], Fr(float(pg.tags[S][P])))]))
        rules.append(row)
    start = nid[pg.start]
    wireG = [[i, [[sym, alts[0][0], fs(alts[0][1])] for sym, alts in row]] for i, row in enumerate(rules)]
    failures = []
    try:
        lang = language(rules, [(start, Fr(1))], limit=4000)
    except (OverflowError, RecursionError):
        lang = None
    # ---- (0) what init_sampling hands to the alias samplers: rule weights and distinct seeds
    RecordingSampler.log, RecordingSampler.script = [], []
    with impl("init_sampling(seed) (ProbDetGrammar)"), backend(RecordingSampler):
        pg.init_sampling(case["seed"])
    log = RecordingSampler.log
    want_w = [[float(pg.tags[S][P]) for P in pg.tags[S]] for S in nts]
    if [w for w, _ in log] != want_w:
        failures.append({"kind": "oracle", "what": "init_sampling: the alias sampler of a non-terminal is not built from the weights of its rules",
                         "detail": f"{case['dsl']} {case['request']} depth {case['depth']}: {[w for w, _ in log][:3]} vs {want_w[:3]}"})
    m_seeds = M.ask([Sym("c09.seeds"), case["seed"], len(nts), 0])
    if [sd for _, sd in log] != [int(x) for x in m_seeds[0]]:
        failures.append({"kind": "corr", "what": "init_sampling(seed): seeds of the alias samplers differ from the model (seed + i)",
                         "detail": f"seed={case['seed']}: {[sd for _, sd in log][:6]}"})
    # ---- (1) scripted streams
    r = random.Random(case["dseed"])
    streams = [[r.randrange(len(rules[i])) for _ in range(60)] for i in range(len(nts))]
    pg.init_sampling(case["seed"])
    if list(pg.sampling_map.keys()) != nts or any(list(pg.sampling_map[S]) != list(pg.tags[S].keys()) for S in nts):
        failures.append({"kind": "corr", "what": "init_sampling: sampling_map is not the rule list of every non-terminal", "detail": ""})
    for S in nts:
        pg.vose_samplers[S] = ScriptIndex(streams[nid[S]])
    impl_seq = []
    for _ in range(case["ncalls"]):
        try:
            with impl("sample_program() on scripted draws (ProbDetGrammar)"):
                p = pg.sample_program()
        except ImplError as e:
            if not e.what.endswith("IndexError"):
                raise
            impl_seq.append(None)
            break
        impl_seq.append(p)
    fuel = case["depth"] + 3
    ans = M.ask([Sym("c09.gdet"), wireG, start, fuel, [[i, st] for i, st in enumerate(streams)], case["ncalls"]])
    m_seq = [None if a == "none" else (parse_tree(a[1]), a[2] == "1", pf(a[3])) for a in ans]
    i_trees = [None if p is None else prog_tree(p, syms) for p in impl_seq]
    if i_trees != [None if m is None else m[0] for m in m_seq]:
        j = next((j for j in range(min(len(i_trees), len(m_seq))) if i_trees[j] != (m_seq[j][0] if m_seq[j] else None)), min(len(i_trees), len(m_seq)))
        failures.append({"kind": "corr", "what": "sample_program() differs from the model on scripted draws",
                         "detail": f"call #{j}: impl={impl_seq[j] if j < len(impl_seq) else '-'} model={show_tree(m_seq[j][0], syms) if j < len(m_seq) and m_seq[j] else None}"})
    for m in m_seq:
        if m is not None and not m[1]:
            raise RuntimeError("model: sampled program not derivable (contradicts theorem C09_sample_member)")
    for p, t in zip(impl_seq, i_trees):
        if p is None:
            continue
        member = lang is None or tree_key(t) in lang
        if not member or p not in pg:
            failures.append({"kind": "oracle", "what": "sample_program() returned a program outside the grammar",
                             "detail": f"{case['dsl']} {case['request']} depth {case['depth']}: {p} (impl `in`: {p in pg}; harness enumeration: {member})"})
            break
    # ---- model distribution = product of weights = harness enumeration; impl probability()
    nprog = len(lang) if lang is not None else -1
    if lang is not None and nprog <= 400:
        dist = M.ask([Sym("c09.gdist"), wireG, start, fuel])
        md = {tree_key(parse_tree(t)): (pf(mass), pf(pr), d) for t, mass, pr, d in dist}
        if any(v[0] != v[1] or v[2] != "1" for v in md.values()):
            raise RuntimeError("model: sampleDist mass differs from prob (contradicts theorem C09_sample_dist)")
        if {k: v[0] for k, v in md.items() if v[0] != 0} != {k: v for k, v in lang.items() if v != 0}:
            raise RuntimeError("Lean sampleDist and the harness' enumeration of the language disagree")
    # ---- (2) statistics with the real samplers
    stat = None
    if lang is not None and nprog <= 1500:
        N = 20000 if nprog < 300 else 50000
        cls = backend_class(case["backend"])
        pg2 = copy.deepcopy(pg)
        with impl("init_sampling(seed); sample_program() (ProbDetGrammar)"), backend(cls):
            pg.init_sampling(case["seed"])
            seq = [pg.sample_program() for _ in range(N)]
            pg2.init_sampling(case["seed"])
            seq2 = [pg2.sample_program() for _ in range(200)]
            pg.init_sampling(case["seed"])
            seq3 = [pg.sample_program() for _ in range(200)]
        who = f"{case['backend']} back-end, {case['dsl']} {case['request']} depth {case['depth']} weights {case['weights']}({case['wseed']}) seed {case['seed']}"
        if seq[:200] != seq2 or seq[:200] != seq3:
            failures.append({"kind": "oracle", "what": "init_sampling(seed); sample_program() is not reproducible for the same seed",
                             "detail": f"{who}: {[str(p) for p in seq[:4]]} vs {[str(p) for p in seq2[:4]]} vs {[str(p) for p in seq3[:4]]}"})
        counts = collections.Counter(tree_key(prog_tree(p, syms)) for p in seq)
        names = {}
        for p in seq[:3000]:
            names.setdefault(tree_key(prog_tree(p, syms)), p)
        pv, chi, df, impossible = chi2_test(counts, lang, N)
        outside = [k for k in counts if k not in lang]
        if outside or impossible:
            k = (outside or impossible)[0]
            failures.append({"kind": "oracle", "what": "sample_program() returned a program outside the grammar (or of probability 0)",
                             "detail": f"{who}: {names.get(k, k)}"})
        elif pv < PVAL:
            top = sorted(lang, key=lambda k: -lang[k])[:4]
            failures.append({"kind": "oracle", "what": "program frequencies do not follow the grammar's probabilities (chi-square)",
                             "detail": f"{who}: N={N} chi2={chi:.1f} df={df} p={pv:.2e}; " + "; ".join(f"{key_show(k, syms)} freq={counts.get(k, 0) / N:.4f} prob={float(lang[k]):.4f}" for k in top)})
        for k, p in list(names.items())[:25]:
            ip = pg.probability(p)
            if abs(ip - float(lang[k])) > 1e-9 * max(1.0, float(lang[k])):
                failures.append({"kind": "corr", "what": "probability() is not the product of the rule weights", "detail": f"{p}: {ip} vs {float(lang[k])}"})
                break
        stat = {"N": N, "chi2": round(chi, 1), "df": df, "p": pv}
    # ---- (3) history on one object: init_sampling, probabilities updated IN PLACE, init_sampling again.
    # The samplers must then be built from the CURRENT weights, and the object must behave like a freshly built
    # grammar with the same weights and the same seed (the statement speaks of the grammar's probabilities, not of
    # the probabilities it had when it was first prepared for sampling).
    hist_rows = [S for S in nts if len(pg.tags[S]) >= 2 and len(set(float(v) for v in pg.tags[S].values())) >= 2]
    if hist_rows:
        cls = backend_class(case["backend"])
        pgh = ProbDetGrammar(cfg, {S: dict(pg.tags[S]) for S in pg.tags})   # (a grammar holding native samplers cannot be deep-copied)
        with impl("init_sampling(seed) before an in-place update (ProbDetGrammar)"), backend(cls):
            pgh.init_sampling(case["seed"])
            pgh.sample_program()
        for S in hist_rows:                       # same multiset of weights, other assignment: still normalised
            keys = list(pgh.tags[S].keys())
            vals = [pgh.tags[S][k] for k in keys]
            vals = vals[1:] + vals[:1]
            for k, v in zip(keys, vals):
                pgh.tags[S][k] = v
        want_h = [[float(pgh.tags[S][P]) for P in pgh.tags[S]] for S in nts]
        RecordingSampler.log, RecordingSampler.script = [], []
        with impl("init_sampling(seed) after an in-place update (ProbDetGrammar)"), backend(RecordingSampler):
            pgh.init_sampling(case["seed"] + 1)
        if [w for w, _ in RecordingSampler.log] != want_h:
            failures.append({"kind": "oracle", "what": "init_sampling after an in-place update of the probabilities does not build the samplers from the current weights",
                             "detail": f"{case['dsl']} {case['request']} depth {case['depth']}: built from {[w for w, _ in RecordingSampler.log][:2]} current weights {want_h[:2]}"})
        fresh = ProbDetGrammar(cfg, {S: dict(pgh.tags[S]) for S in pgh.tags})
        with impl("init_sampling(seed); sample_program() after an in-place update (ProbDetGrammar)"), backend(cls):
            pgh.init_sampling(case["seed"] + 1)
            sh = [pgh.sample_program() for _ in range(60)]
            fresh.init_sampling(case["seed"] + 1)
            sf = [fresh.sample_program() for _ in range(60)]
        if sh != sf:
            failures.append({"kind": "oracle", "what": "after an in-place update of the probabilities and init_sampling(seed) the grammar does not sample like a fresh grammar with the same weights and seed",
                             "detail": f"{case['dsl']} {case['request']} depth {case['depth']} backend {case['backend']}: {[str(p) for p in sh[:4]]} vs {[str(p) for p in sf[:4]]}"})
    apps = sum(1 for t in i_trees if t and len(t) > 1)
    tags = ["gdet", f"gdet.dsl.{case['dsl']}", f"gdet.weights.{case['weights']}", f"gdet.depth{case['depth']}", f"gdet.nts{min(len(nts), 12)}",
            f"gdet.tag_order.{case.get('tag_order', 'rules')}"]
    if stat:
        tags.append(f"gdet.stat.{case['backend']}")
    if hist_rows:
        tags.append("gdet.history.update-in-place")
    return result(case, json.dumps(["gdet", case["dsl"], case["request"], case["depth"], case["weights"], case["wseed"], case["dseed"], case["seed"], case["backend"], case.get("tag_order", "rules")]),
                  nprog >= 3 and apps >= 1, tags, failures,
                  {"dsl": case["dsl"], "request": case["request"], "depth": case["depth"], "programs": nprog, "scripted": [str(p) for p in impl_seq[:4]], "stat": stat})


def check_gu(case, M):
    import random
    import copy
    from synth.syntax import ProbUGrammar, UCFG
    cfg = build_cfg(case) if case.get("ucfg") != "hand" else None
    if case.get("ucfg") == "hand":
        u = build_hand(case)
    elif case.get("ucfg") == "dfta":
        from synth.filter.constraints.dfta_constraints import add_dfta_constraints
        try:
            u = UCFG.from_DFTA(add_dfta_constraints(cfg, [case["constraint"]], progress=False))
        except Exception as e:  # constraint not applicable to this request: fall back
            u = UCFG.from_CFG(cfg, True)
    else:
        u = UCFG.from_CFG(cfg, True)
    if not u.rules or not u.starts:
        return result(case, json.dumps(["gu-empty", case["dsl"], case["request"], case.get("constraint")]), False, ["gu.empty"], [], {})
    if case["weights"] == "uniform":
        pu = ProbUGrammar.uniform(u)
    elif case["weights"] == "random":
        pu = ProbUGrammar.random(u, seed=case["wseed"])
    else:
        r = random.Random(case["wseed"])
        probs = {}
        for S in u.rules:
            flat = [(P, tuple(a)) for P in u.rules[S] for a in u.rules[S][P]]
            ws = dyadic_split(r, len(flat))
            probs[S] = {}
            for (P, a), w in zip(flat, ws):
                probs[S].setdefault(P, {})[a] = w
        sp = dict(zip(list(u.starts), dyadic_split(r, len(u.starts))))
        pu = ProbUGrammar(u, probs, sp)
    if case.get("copy"):
        pu = copy.deepcopy(pu)   # what a user gets back from pickle / deepcopy: sets are rebuilt
    nts = list(pu.tags.keys())
    nid = {S: i for i, S in enumerate(nts)}
    syms = Symbols()
    failures = []
    rules = []
    for S in nts:
        row = []
        for P in pu.tags[S]:
            alts = [list(a) for a in pu.rules[S][P]]
            if [tuple(a) for a in alts] != list(pu.tags[S][P].keys()):
                failures.append({"kind": "corr", "what": "tags[S][P] is not keyed by the alternatives of rules[S][P] in order", "detail": str(P)})
            row.append((syms.of(P), [([nid[x] for x in a], Fr(float(pu.tags[S][P][tuple(a)]))) for a in alts]))
        rules.append(row)
    # what init_sampling hands to the alias samplers: weights and pairwise distinct seeds
    RecordingSampler.log, RecordingSampler.script = [], []
    with impl("init_sampling(seed) (ProbUGrammar)"), backend(RecordingSampler):
        pu.init_sampling(case["seed"])
    log = RecordingSampler.log
    want_w, kinds = [], []
    for S in nts:
        want_w.append([sum(float(x) for x in pu.tags[S][P].values()) for P in pu.tags[S]])
        kinds.append("rule")
        for P in pu.tags[S]:
            tot = sum(float(x) for x in pu.tags[S][P].values())
            want_w.append([float(x) / tot if tot else float("nan") for x in pu.tags[S][P].values()])
            kinds.append("alt")
    want_w.append([float(x) for x in pu.start_tags.values()])
    kinds.append("start")

    def same_w(a, b):
        return len(a) == len(b) and all((x != x and y != y) or abs(x - y) <= 1e-12 for x, y in zip(a, b))
    if len(log) != len(want_w) or not all(same_w(a, b) for (a, _), b in zip(log, want_w)):
        failures.append({"kind": "oracle", "what": "ProbUGrammar.init_sampling: an alias sampler is not built from the weights of its rules / alternatives / start symbols",
                         "detail": f"{case['dsl']} {case['request']} {case.get('constraint')}: {[w for w, _ in log][:4]} vs {want_w[:4]}"})
    else:
        nrules = sum(1 for k in kinds if k == "alt")
        ms = M.ask([Sym("c09.seeds"), case["seed"], len(nts), nrules])
        rs, st, al = [int(x) for x in ms[1]], int(ms[2]), [int(x) for x in ms[3]]
        want_seeds = []
        for k in kinds:
            want_seeds.append(rs.pop(0) if k == "rule" else (al.pop(0) if k == "alt" else st))
        got_seeds = [sd for _, sd in log]
        if got_seeds != want_seeds:
            dup = len(set(got_seeds)) < len(got_seeds)
            failures.append({"kind": "corr", "what": "ProbUGrammar.init_sampling(seed): seeds of the alias samplers differ from the model" + (" and two samplers share a seed (identical streams)" if dup else ""),
                             "detail": f"seed={case['seed']}: {list(zip(kinds, got_seeds))[:8]} model {want_seeds[:8]}"})
    pu.init_sampling(case["seed"])
    starts_order = list(pu.start_tags.keys())   # the start sampler is built from start_tags.values()
    start_probs = [(nid[S], Fr(float(pu.start_tags[S]))) for S in pu.start_tags]
    try:
        lang = language(rules, start_probs, limit=4000)
    except (OverflowError, RecursionError):
        lang = None
    wireG = [[i, [[sym, [[a, fs(w)] for a, w in alts]] for sym, alts in row]] for i, row in enumerate(rules)]
    # ---- scripted
    r = random.Random(case["dseed"])
    sd = [r.randrange(len(starts_order)) for _ in range(case["ncalls"] + 2)]
    rd = [[r.randrange(len(rules[i])) for _ in range(60)] for i in range(len(nts))]
    ad = []
    for i, row in enumerate(rules):
        for sym, alts in row:
            ad.append([i, sym, [r.randrange(len(alts)) for _ in range(60)]])
    pu._start_sampler = ScriptIndex(sd)
    for S in nts:
        pu.vose_samplers[S] = ScriptIndex(rd[nid[S]])
        for P in pu.tags[S]:
            pu._vose_samplers_2[S][P] = ScriptIndex(next(x[2] for x in ad if x[0] == nid[S] and x[1] == syms.of(P)))
    impl_seq = []
    for _ in range(case["ncalls"]):
        try:
            with impl("sample_program() on scripted draws (ProbUGrammar)"):
                impl_seq.append(pu.sample_program())
        except ImplError as e:
            if not e.what.endswith("IndexError"):
                raise
            impl_seq.append(None)
            break
    fuel = case["depth"] + 3
    ans = M.ask([Sym("c09.gu"), wireG, [nid[S] for S in starts_order], fuel, sd, [[i, st] for i, st in enumerate(rd)], ad, case["ncalls"]])
    m_seq = [None if a == "none" else (parse_tree(a[1]), a[2] == "1") for a in ans]
    i_trees = [None if p is None else prog_tree(p, syms) for p in impl_seq]
    if i_trees != [None if m is None else m[0] for m in m_seq]:
        j = next((j for j in range(min(len(i_trees), len(m_seq))) if i_trees[j] != (m_seq[j][0] if m_seq[j] else None)), min(len(i_trees), len(m_seq)))
        failures.append({"kind": "corr", "what": "ProbUGrammar.sample_program() differs from the model on scripted draws",
                         "detail": f"call #{j}: impl={impl_seq[j] if j < len(impl_seq) else '-'} model={show_tree(m_seq[j][0], syms) if j < len(m_seq) and m_seq[j] else None}"})
    for p, t, m in zip(impl_seq, i_trees, m_seq):
        if p is None:
            continue
        member = lang is None or tree_key(t) in lang
        if m is not None and m[0] == t and m[1] != member and lang is not None:
            raise RuntimeError("Lean derivesU and the harness' enumeration disagree")
        if not member or p not in pu:
            failures.append({"kind": "oracle", "what": "ProbUGrammar.sample_program() returned a program outside the grammar",
                             "detail": f"{case['dsl']} {case['request']} depth {case['depth']} {case.get('constraint')}: {p} (impl `in`: {p in pu}; harness enumeration: {member})"})
            break
    # ---- statistics
    stat = None
    nprog = len(lang) if lang is not None else -1
    if lang is not None and abs(sum(lang.values()) - 1) > TOL:
        lang = None   # not a distribution (weights handed over unnormalised): nothing to compare with
    if lang is not None and nprog <= 1500:
        N = 20000 if nprog < 300 else 50000
        cls = backend_class(case["backend"])
        pu2 = copy.deepcopy(pu)
        with impl("init_sampling(seed); sample_program() (ProbUGrammar)"), backend(cls):
            pu.init_sampling(case["seed"])
            seq = [pu.sample_program() for _ in range(N)]
            pu2.init_sampling(case["seed"])
            seq2 = [pu2.sample_program() for _ in range(200)]
        who = f"{case['backend']} back-end, {case['dsl']} {case['request']} depth {case['depth']} {case.get('ucfg')} {case.get('constraint')} weights {case['weights']}({case['wseed']}) seed {case['seed']}"
        if seq[:200] != seq2:
            failures.append({"kind": "oracle", "what": "ProbUGrammar: init_sampling(seed); sample_program() is not reproducible for the same seed",
                             "detail": f"{who}: {[str(p) for p in seq[:4]]} vs {[str(p) for p in seq2[:4]]}"})
        counts = collections.Counter(tree_key(prog_tree(p, syms)) for p in seq)
        names = {}
        for p in seq[:3000]:
            names.setdefault(tree_key(prog_tree(p, syms)), p)
        pv, chi, df, impossible = chi2_test(counts, lang, N)
        outside = [k for k in counts if k not in lang]
        if outside or impossible:
            k = (outside or impossible)[0]
            failures.append({"kind": "oracle", "what": "ProbUGrammar.sample_program() returned a program outside the grammar (or of probability 0)", "detail": f"{who}: {names.get(k, k)}"})
        elif pv < PVAL:
            top = sorted(lang, key=lambda k: -lang[k])[:4]
            failures.append({"kind": "oracle", "what": "ProbUGrammar: program frequencies do not follow the grammar's probabilities (chi-square)",
                             "detail": f"{who}: N={N} chi2={chi:.1f} df={df} p={pv:.2e}; " + "; ".join(f"{key_show(k, syms)} freq={counts.get(k, 0) / N:.4f} prob={float(lang[k]):.4f}" for k in top)})
        stat = {"N": N, "chi2": round(chi, 1), "df": df, "p": pv}
    maxalts = max(len(alts) for row in rules for _, alts in row)
    apps = sum(1 for t in i_trees if t and len(t) > 1)
    tags = ["gu", f"gu.{case.get('ucfg')}", "gu.deepcopied" if case.get("copy") else "gu.as-built", f"gu.starts{min(len(starts_order), 4)}", f"gu.maxalts{min(maxalts, 4)}", f"gu.weights.{case['weights']}"]
    if stat:
        tags.append(f"gu.stat.{case['backend']}")
    return result(case, json.dumps(["gu", case["dsl"], case["request"], case["depth"], case.get("ucfg"), case.get("constraint"), case["weights"], case["wseed"], case["dseed"], case["seed"], case["backend"], case.get("tag_order", "rules")]),
                  nprog >= 3 and apps >= 1, tags, failures,
                  {"dsl": case["dsl"], "request": case["request"], "depth": case["depth"], "ucfg": case.get("ucfg"), "constraint": case.get("constraint"),
                   "programs": nprog, "scripted": [str(p) for p in impl_seq[:4]], "stat": stat})


def check(case, M):
    import warnings
    warnings.simplefilter("ignore")
    k = case["kind"]
    fn = {"alias": check_alias, "stat": check_stat, "value": check_value, "gdet": check_gdet, "gu": check_gu}[k]
    try:
        return fn(case, M)
    except ImplError as e:
        return result(case, json.dumps(case, sort_keys=True), False, [f"{k}.impl-raised"],
                      [{"kind": "oracle", "what": "the implementation raised an exception: " + e.what, "detail": e.detail}], {"case": case})


def corpus():
    half = [["1/2", "1/2"], ["3/2", "1/4"], ["5/2", "47/64"], ["7/2", "1/8"], ["1/4", "63/64"]]
    return [
        # C09-F1 (repaired by f323cc5): the fallback sampler tossed a fair coin
        {"kind": "stat", "mode": "float", "w": [fs(Fr(0.7)), fs(Fr(0.1)), fs(Fr(0.1)), fs(Fr(0.1))], "seed": 1, "backend": "python", "via": "direct", "N": 50000},
        {"kind": "alias", "mode": "pow2", "w": ["5/8", "1/8", "1/8", "1/8"], "draws": half, "via": "direct"},
        # C09-F2: unnormalised weights / the caller's array
        {"kind": "alias", "mode": "unnorm", "w": ["2/1", "1/1", "1/1"], "draws": [["1/2", "1/2"], ["3/2", "7/8"]], "via": "lexicon"},
        {"kind": "alias", "mode": "pow2", "w": ["1/2", "1/4", "1/8", "1/8"], "draws": half, "via": "direct"},
        {"kind": "stat", "mode": "unnorm", "w": ["2/1", "1/1", "1/1"], "seed": 7, "backend": "python", "via": "lexicon", "N": 50000},
        {"kind": "stat", "mode": "unnorm", "w": ["2/1", "1/1", "1/1"], "seed": 7, "backend": "native", "via": "lexicon", "N": 50000},
        # C09-F3: start symbols indexed through a set (shows under PYTHONHASHSEED=1 after deepcopy)
        {"kind": "gu", "dsl": "list", "request": "int list", "depth": 3, "weights": "random", "wseed": 13797, "seed": 486349287,
         "dseed": 154126820, "ncalls": 12, "backend": "native", "ucfg": "dfta", "constraint": "(cons ^1 _)", "copy": True},
        # C09-F4: alternative sampler of the 2nd non-terminal and rule sampler of the 8th shared a seed
        {"kind": "gu", "ucfg": "hand", "shape": "arrrrrr", "dsl": "hand", "request": "t", "depth": 3, "weights": "uniform", "wseed": 1,
         "seed": 5, "dseed": 3, "ncalls": 4, "backend": "native", "copy": False},
        {"kind": "gu", "ucfg": "hand", "shape": "arrrrrr", "dsl": "hand", "request": "t", "depth": 3, "weights": "uniform", "wseed": 1,
         "seed": 123, "dseed": 4, "ncalls": 4, "backend": "python", "copy": False},
    ]
