"""C16 — equal types/programs hash equally and survive persistence across processes.

Object descriptions (JSON-able nested lists; the same text is the wire format of the model):
  types     ["p",name] ["poly",name] ["fpoly",name,T…] ["sum",T…] ["->",A,B] ["g",name,infix,T…] ["unk"]
  programs  ["P",name,T] ["V",i,T] ["C",T,has_value_arg,val] ["F",args_is_tuple,f,arg…] ["L",body,T]
  values    None ["b",bool] ["i",int] ["h",n] (the float n/2) ["s",str] ["t",atom…] ["l",atom…]

Case kinds
  pair    : a, b (b mostly a near-equal variant of a) -> a==b, b==a, hash(a)==hash(b), membership in
            set/dict keyed by the other, len({a,b}); compared with the Lean model (literal
            transcription `pyEq`/`pyHash`), the Lean spec (`eqS`/`hashS`) and the harness' own
            canonical-form oracle; the laws (reflexive incl. rebuilt twin, symmetric, eq => equal
            hash => interchangeable as keys) are checked on the implementation directly.
  triple  : a, b, c -> the three pairs + transitivity.
  foreign : a compared with non-library values (must be unequal, both ways, without raising).
  mutate  : Constant.assign/reset on a constant inside a program, then comparison with the freshly
            built equal program (eq, hash, dict lookup); model = `assignAt`.
  persist : a batch of objects (types, programs, dict/set keyed by them, Task, Dataset, PBE
            specifications, DSL, CFG/TTCFG/UCFG, ProbDetGrammar, ProbUGrammar) is written by a
            subprocess under PYTHONHASHSEED=s with pickle (random protocol), save_object,
            Dataset.save, and read back by a second subprocess under s' != s which rebuilds a twin of
            every object from the description and reports equality, hash agreement, key lookups both
            ways, structure of the loaded object (compared with the Lean model of the reducers),
            and for grammars programs(), membership and probability of some programs.
"""
import json
import os
import shutil
import subprocess
import sys
import tempfile

from harness.sexp import Sym, dump

CASE_TIMEOUT = {"quick": 120, "thorough": 300}
HERE = os.path.dirname(os.path.abspath(__file__))
REPO = os.environ.get("PS_REPO", "/repo")

NAMES = ["int", "bool", "a", "b", "list"]
PNAMES = ["f", "g", "+", "a", "int"]


# ------------------------------------------------------------------ values
def val_py(v):
    if v is None:
        return None
    k = v[0]
    if k == "b":
        return bool(v[1])
    if k == "i":
        return int(v[1])
    if k == "h":
        return v[1] / 2.0
    if k == "s":
        return str(v[1])
    if k == "t":
        return tuple(val_py(x) for x in v[1:])
    if k == "l":
        return [val_py(x) for x in v[1:]]
    raise ValueError(v)


def val_desc(x):
    """python value -> description (None when outside the modelled value domain)"""
    if x is None:
        return None
    if isinstance(x, bool):
        return ["b", x]
    if isinstance(x, int):
        return ["i", x]
    if isinstance(x, float):
        if x * 2 == int(x * 2):
            return ["h", int(x * 2)]
        raise ValueError("float outside the modelled domain")
    if isinstance(x, str):
        return ["s", x]
    if isinstance(x, tuple):
        return ["t"] + [val_desc(y) for y in x]
    if isinstance(x, list):
        return ["l"] + [val_desc(y) for y in x]
    raise ValueError("value outside the modelled domain: %r" % (x,))


def val_wire(v):
    if v is None:
        return Sym("none")
    k = v[0]
    if k == "b":
        return [Sym("b"), bool(v[1])]
    if k in ("i", "h"):
        return [Sym(k), int(v[1])]
    if k == "s":
        return [Sym("s"), str(v[1])]
    return [Sym(k)] + [val_wire(x) for x in v[1:]]


def val_key(v):
    """independent reading of Python `==` on values: numbers by numeric value, containers by kind"""
    if v is None:
        return ("none",)
    k = v[0]
    if k == "b":
        return ("num", 2 if v[1] else 0)
    if k == "i":
        return ("num", 2 * v[1])
    if k == "h":
        return ("num", v[1])
    if k == "s":
        return ("str", v[1])
    return (k,) + tuple(val_key(x) for x in v[1:])


# ------------------------------------------------------------------ descriptions -> repo objects / wire
def to_repo(d):
    from synth.syntax import type_system as TS
    from synth.syntax import program as PR
    k = d[0]
    if k == "p":
        return TS.PrimitiveType(d[1])
    if k == "poly":
        return TS.PolymorphicType(d[1])
    if k == "fpoly":
        return TS.FixedPolymorphicType(d[1], *[to_repo(x) for x in d[2:]])
    if k == "sum":
        return TS.Sum(*[to_repo(x) for x in d[1:]])
    if k == "->":
        return TS.Arrow(to_repo(d[1]), to_repo(d[2]))
    if k == "g":
        return TS.Generic(d[1], *[to_repo(x) for x in d[3:]], infix=bool(d[2]))
    if k == "unk":
        return TS.UnknownType()
    if k == "P":
        return PR.Primitive(d[1], to_repo(d[2]))
    if k == "V":
        return PR.Variable(d[1], to_repo(d[2]))
    if k == "C":
        return PR.Constant(to_repo(d[1]), val_py(d[3]), d[2])
    if k == "F":
        args = [to_repo(x) for x in d[3:]]
        return PR.Function(to_repo(d[2]), tuple(args) if d[1] else args)
    if k == "L":
        return PR.Lambda(to_repo(d[1]), to_repo(d[2]))
    raise ValueError(d)


def to_wire(d):
    k = d[0]
    if k in ("p", "poly"):
        return [Sym(k), str(d[1])]
    if k == "fpoly":
        return [Sym(k), str(d[1])] + [to_wire(x) for x in d[2:]]
    if k == "sum":
        return [Sym(k)] + [to_wire(x) for x in d[1:]]
    if k == "->":
        return [Sym("->"), to_wire(d[1]), to_wire(d[2])]
    if k == "g":
        return [Sym("g"), str(d[1]), bool(d[2])] + [to_wire(x) for x in d[3:]]
    if k == "unk":
        return [Sym("unk")]
    if k == "P":
        return [Sym("P"), str(d[1]), to_wire(d[2])]
    if k == "V":
        return [Sym("V"), int(d[1]), to_wire(d[2])]
    if k == "C":
        return [Sym("C"), to_wire(d[1]), bool(d[2]), val_wire(d[3]), str(val_py(d[3]))]
    if k == "F":
        return [Sym("F"), bool(d[1])] + [to_wire(x) for x in d[2:]]
    if k == "L":
        return [Sym("L"), to_wire(d[1]), to_wire(d[2])]
    raise ValueError(d)


def encode_repo(o):
    """live repo object -> description of what it IS now (reads the attributes)"""
    from synth.syntax import type_system as TS
    from synth.syntax import program as PR
    t = type(o)
    if t is TS.PrimitiveType:
        return ["p", o.type_name]
    if t is TS.PolymorphicType:
        return ["poly", o.name]
    if t is TS.FixedPolymorphicType:
        return ["fpoly", o.name] + [encode_repo(x) for x in o.types]
    if t is TS.Sum:
        return ["sum"] + [encode_repo(x) for x in o.types]
    if t is TS.Arrow:
        return ["->", encode_repo(o.type_in), encode_repo(o.type_out)]
    if t is TS.Generic:
        return ["g", o.name, bool(o.infix)] + [encode_repo(x) for x in o.types]
    if t is TS.UnknownType:
        return ["unk"]
    if t is PR.Primitive:
        return ["P", o.primitive, encode_repo(o.type)]
    if t is PR.Variable:
        return ["V", o.variable, encode_repo(o.type)]
    if t is PR.Constant:
        return ["C", encode_repo(o.type), bool(o._has_value), val_desc(o.value)]
    if t is PR.Function:
        return ["F", isinstance(o.arguments, tuple), encode_repo(o.function)] + [encode_repo(x) for x in o.arguments]
    if t is PR.Lambda:
        return ["L", encode_repo(o.body), encode_repo(o.type)]
    raise ValueError("not a type/program: %r" % (t,))


def norm_desc(d):
    """description after the constructors ran (has_value normalised), as the model prints it"""
    k = d[0]
    if k == "C":
        return ["C", norm_desc(d[1]), bool(d[2]) or d[3] is not None, d[3]]
    if k in ("p", "poly", "unk"):
        return list(d)
    if k == "fpoly":
        return [k, d[1]] + [norm_desc(x) for x in d[2:]]
    if k == "sum":
        return [k] + [norm_desc(x) for x in d[1:]]
    if k == "->":
        return [k, norm_desc(d[1]), norm_desc(d[2])]
    if k == "g":
        return [k, d[1], bool(d[2])] + [norm_desc(x) for x in d[3:]]
    if k == "P":
        return [k, d[1], norm_desc(d[2])]
    if k == "V":
        return [k, d[1], norm_desc(d[2])]
    if k == "F":
        return [k, bool(d[1])] + [norm_desc(x) for x in d[2:]]
    if k == "L":
        return [k, norm_desc(d[1]), norm_desc(d[2])]
    raise ValueError(d)


def wire_text(d):
    return dump(to_wire(d))


# ------------------------------------------------------------------ independent oracle (canonical forms)
def canon(d):
    """Two objects are equal (English statement) iff their canonical forms are: a sum is the SET of its
    alternatives, a restricted variable its name and the SET of its types, a variable its index, a lambda
    its body, a generic its name and argument list, a constant its type, assigned-flag, value
    (numbers by value) and printed value."""
    k = d[0]
    if k in ("p", "poly"):
        return (k, d[1])
    if k == "fpoly":
        return (k, d[1], frozenset(canon(x) for x in d[2:]))
    if k == "sum":
        return (k, frozenset(canon(x) for x in d[1:]))
    if k == "->":
        return (k, canon(d[1]), canon(d[2]))
    if k == "g":
        return (k, d[1], tuple(canon(x) for x in d[3:]))
    if k == "unk":
        return (k,)
    if k == "P":
        return (k, d[1], canon(d[2]))
    if k == "V":
        return (k, d[1])
    if k == "C":
        hv = bool(d[2]) or d[3] is not None
        return (k, canon(d[1]), hv, val_key(d[3]), str(val_py(d[3])))
    if k == "F":
        return (k, bool(d[1]), canon(d[2]), tuple(canon(x) for x in d[3:]))
    if k == "L":
        return (k, canon(d[1]))
    raise ValueError(d)


def size(d):
    return 1 + sum(size(d[j]) for j in kid_slots(d))


def klass(d):
    return d[0]


# ------------------------------------------------------------------ generators
def gen_type(rng, depth):
    r = rng.random()
    if depth <= 0 or r < 0.3:
        k = rng.random()
        if k < 0.55:
            return ["p", rng.choice(NAMES)]
        if k < 0.8:
            return ["poly", rng.choice(NAMES)]
        if k < 0.9:
            return ["unk"]
        return ["fpoly", rng.choice(NAMES)] + [["p", rng.choice(NAMES)] for _ in range(rng.randint(0, 2))]
    if r < 0.5:
        return ["sum"] + [gen_type(rng, depth - 1) for _ in range(rng.randint(0, 4))]
    if r < 0.65:
        return ["->", gen_type(rng, depth - 1), gen_type(rng, depth - 1)]
    if r < 0.85:
        return ["g", rng.choice(NAMES), rng.random() < 0.3] + [gen_type(rng, depth - 1) for _ in range(rng.randint(0, 3))]
    return ["fpoly", rng.choice(NAMES)] + [gen_type(rng, depth - 1) for _ in range(rng.randint(0, 3))]


VALUES = [None, ["i", 1], ["b", True], ["h", 2], ["s", "1"], ["i", 0], ["b", False], ["h", 0], ["s", "True"], ["s", "None"],
          ["t", ["i", 1]], ["t", ["b", True]], ["l", ["i", 1]], ["l", ["h", 2]], ["t"], ["l"], ["i", -1], ["i", 2], ["h", 1], ["s", ""],
          ["t", ["i", 1], ["s", "x"]], ["l", None], ["t", None]]


def gen_const(rng, depth):
    # unassigned constants and constants explicitly assigned None (has_value=True) on purpose
    value = None if rng.random() < 0.3 else rng.choice(VALUES)
    return ["C", gen_type(rng, min(depth, 1)), rng.choice([None, None, True, True, False]), value]


def gen_prog(rng, depth):
    r = rng.random()
    if depth <= 0 or r < 0.3:
        k = rng.random()
        if k < 0.35:
            return ["P", rng.choice(PNAMES), gen_type(rng, 2)]
        if k < 0.7:
            return ["V", rng.choice([0, 1, 2, 1, 0, 7]), gen_type(rng, 1)]
        return gen_const(rng, depth)
    if r < 0.85:
        n = rng.choice([0, 1, 1, 2, 2, 3])
        return ["F", rng.random() < 0.1, gen_prog(rng, depth - 1)] + [gen_prog(rng, depth - 1) for _ in range(n)]
    return ["L", gen_prog(rng, depth - 1), gen_type(rng, 1)]


def is_type(d):
    return d[0] in ("p", "poly", "fpoly", "sum", "->", "g", "unk")


def kid_slots(d):
    """indices of d that hold sub-objects"""
    k = d[0]
    if k in ("p", "poly", "unk"):
        return []
    if k == "fpoly":
        return list(range(2, len(d)))
    if k == "sum":
        return list(range(1, len(d)))
    if k == "->":
        return [1, 2]
    if k == "g":
        return list(range(3, len(d)))
    if k in ("P", "V"):
        return [2]
    if k == "C":
        return [1]
    if k == "F":
        return list(range(2, len(d)))
    if k == "L":
        return [1, 2]
    return []


def variant(rng, d, depth=3):
    """a near-equal variant of d (often equal, often just not)"""
    d = json.loads(json.dumps(d))
    slots = kid_slots(d)
    r = rng.random()
    if slots and depth > 0 and r < 0.45:
        j = rng.choice(slots)
        d[j] = variant(rng, d[j], depth - 1)
        return d
    k = d[0]
    if k in ("sum", "fpoly"):
        lo = 1 if k == "sum" else 2
        kids = d[lo:]
        op = rng.choice(["perm", "dup", "drop", "rename", "add", "flat", "cls", "perm", "dup"])
        if op == "perm":
            rng.shuffle(kids)
        elif op == "dup" and kids:
            kids.insert(rng.randrange(len(kids) + 1), json.loads(json.dumps(rng.choice(kids))))
        elif op == "drop" and kids:
            kids.pop(rng.randrange(len(kids)))
        elif op == "add":
            kids.insert(rng.randrange(len(kids) + 1), gen_type(rng, 1))
        elif op == "flat":
            out = []
            for x in kids:
                out += x[1:] if x[0] == "sum" else [x]
            kids = out
        elif op == "rename" and k == "fpoly":
            d[1] = rng.choice(NAMES)
        elif op == "cls":
            return (["fpoly", rng.choice(NAMES)] if k == "sum" else ["sum"]) + kids
        return d[:lo] + kids
    if k in ("p", "poly"):
        op = rng.choice(["same", "rename", "cls", "wrap", "fp"])
        if op == "rename":
            d[1] = rng.choice(NAMES)
        elif op == "cls":
            d[0] = "poly" if k == "p" else "p"
        elif op == "wrap":
            return ["sum", d]
        elif op == "fp":
            return ["fpoly", d[1]] + ([["p", "int"]] if rng.random() < 0.5 else [])
        return d
    if k == "->":
        op = rng.choice(["same", "swap", "gen"])
        if op == "swap":
            return ["->", d[2], d[1]]
        if op == "gen":
            return ["g", "->", False, d[1], d[2]]
        return d
    if k == "g":
        kids = d[3:]
        op = rng.choice(["same", "infix", "trunc", "ext", "rename", "perm", "infix", "trunc"])
        if op == "infix":
            d[2] = not d[2]
        elif op == "trunc" and kids:
            kids.pop()
        elif op == "ext":
            kids.append(gen_type(rng, 1))
        elif op == "rename":
            d[1] = rng.choice(NAMES)
        elif op == "perm":
            rng.shuffle(kids)
        return d[:3] + kids
    if k == "unk":
        return rng.choice([["unk"], ["p", "UnknownType"], ["poly", "int"]])
    if k == "P":
        op = rng.choice(["same", "rename", "untype", "var", "const"])
        if op == "rename":
            d[1] = rng.choice(PNAMES)
        elif op == "untype":
            d[2] = ["unk"]
        elif op == "var":
            return ["V", 0, d[2]]
        elif op == "const":
            return ["C", d[2], None, ["s", d[1]]]
        return d
    if k == "V":
        op = rng.choice(["same", "retype", "untype", "idx", "retype", "untype"])
        if op == "retype":
            d[2] = gen_type(rng, 1)
        elif op == "untype":
            d[2] = ["unk"]
        elif op == "idx":
            d[1] = rng.choice([0, 1, 2, 7])
        return d
    if k == "C":
        op = rng.choice(["same", "val", "hv", "val", "val"])
        if op == "val":
            d[3] = rng.choice(VALUES)
        elif op == "hv":
            d[2] = rng.choice([None, True, False])
        return d
    if k == "F":
        args = d[3:]
        op = rng.choice(["same", "tuple", "droparg", "addarg", "head", "wrap0", "perm", "curry"])
        if op == "tuple":
            d[1] = not d[1]
        elif op == "droparg" and args:
            args.pop(rng.randrange(len(args)))
        elif op == "addarg":
            args.append(gen_prog(rng, 1))
        elif op == "head":
            return d[2]
        elif op == "wrap0":
            return ["F", False, d]
        elif op == "perm":
            rng.shuffle(args)
        elif op == "curry" and args:
            return ["F", d[1], ["F", False, d[2]] + args[:-1], args[-1]]
        return d[:3] + args
    if k == "L":
        op = rng.choice(["same", "retype", "body", "retype"])
        if op == "retype":
            d[2] = gen_type(rng, 1)
        elif op == "body":
            return d[1]
        return d
    return d


def gen_obj(rng, tier):
    dmax = 3 if tier == "quick" else 4
    if rng.random() < 0.5:
        return gen_type(rng, rng.randint(0, dmax))
    return gen_prog(rng, rng.randint(0, dmax))


FOREIGN = [None, 0, 1, 1984, "int", "a", "var0", (), [], ("var", 0), 94135, True, 1.0, frozenset()]


def gen(rng, i, tier):
    r = i % 20
    if r == 19:
        return gen_persist(rng, tier)
    if r in (17, 18):
        return gen_mutate(rng, tier)
    if r == 16:
        a = gen_obj(rng, tier)
        return {"kind": "foreign", "a": a, "others": [rng.randrange(len(FOREIGN)) for _ in range(4)]}
    a = gen_obj(rng, tier)
    if r % 3 == 0:
        b = variant(rng, a)
        c = variant(rng, rng.choice([a, b]))
        if rng.random() < 0.3:
            c = variant(rng, c)
        return {"kind": "triple", "a": a, "b": b, "c": c}
    if rng.random() < 0.12:
        b = gen_obj(rng, tier)
    else:
        b = variant(rng, a)
        if rng.random() < 0.3:
            b = variant(rng, b)
    return {"kind": "pair", "a": a, "b": b}


def const_paths(d, here=()):
    """paths (model child indices) to the Constant nodes of a program"""
    out = []
    k = d[0]
    if k == "C":
        out.append(list(here))
    elif k == "F":
        for j, x in enumerate(d[2:]):
            out += const_paths(x, here + (j,))
    elif k == "L":
        out += const_paths(d[1], here + (0,))
    return out


def gen_mutate(rng, tier):
    for _ in range(50):
        a = gen_prog(rng, rng.randint(0, 3))
        ps = const_paths(a)
        if ps:
            break
    else:
        a = ["F", False, ["P", "f", ["->", ["p", "int"], ["p", "int"]]], ["C", ["p", "int"], None, None]]
        ps = const_paths(a)
    ops = []
    for _ in range(rng.randint(1, 3)):
        p = rng.choice(ps)
        if rng.random() < 0.25:
            ops.append({"path": p, "op": "reset"})
        else:
            ops.append({"path": p, "op": "assign", "value": rng.choice(VALUES)})
    return {"kind": "mutate", "a": a, "ops": ops}


# ---- persistence cases
DSL_POOL = [
    {"+": "int -> int -> int", "1": "int", "0": "int", "neg": "int -> int"},
    {"+": "int -> int -> int", "1": "int", "ite": "bool -> int -> int -> int", "lt": "int -> int -> bool", "neg": "int -> int"},
    {"cons": "int -> int list -> int list", "nil": "int list", "head": "int list -> int", "1": "int", "map": "(int -> int) -> int list -> int list", "inc": "int -> int"},
    {"and": "bool -> bool -> bool", "not": "bool -> bool", "t": "bool", "eq": "int -> int -> bool", "0": "int"},
]
REQS = [["int -> int", "int -> int -> int", "int"], ["int -> int -> int", "int -> int", "int -> bool"],
        ["int list -> int list", "int list -> int", "int -> int list"], ["int -> bool", "bool -> bool", "int -> int -> bool"]]
CONSTRAINTS = [["(+ ^+ _)"], ["(+ ^+,1 _)", "(neg ^neg)"], ["(cons ^head _)"], ["(and ^and _)", "(not ^not)"]]


def gen_grammar(rng, tier):
    j = rng.randrange(len(DSL_POOL))
    g = {"dsl": j, "req": rng.choice(REQS[j])}
    k = rng.random()
    if k < 0.3:
        g.update(kind="cfg", depth=rng.randint(2, 3 if tier == "quick" else 4), ngram=rng.choice([1, 2, 2]))
    elif k < 0.45:
        g.update(kind="ttcfg", size=rng.randint(3, 5))
    elif k < 0.6:
        g.update(kind="ucfg", depth=rng.randint(2, 3), strict=rng.random() < 0.5)
    elif k < 0.7:
        g.update(kind="ucfg_dfta", depth=3, constraints=CONSTRAINTS[j])
    elif k < 0.85:
        g.update(kind="pcfg", base=rng.choice(["cfg", "ttcfg"]), depth=rng.randint(2, 3), size=rng.randint(3, 5), ngram=2,
                 seed=rng.choice([None, rng.randrange(100)]))
    else:
        g.update(kind="pucfg", depth=rng.randint(2, 3), strict=rng.random() < 0.5, seed=rng.choice([None, rng.randrange(100)]))
    g["probe_seed"] = rng.randrange(10 ** 6)
    return g


def gen_task(rng):
    n = rng.randint(1, 2)
    exs = [[[rng.choice([0, 1, 2, [1, 2], "ab", True]) for _ in range(n)], rng.choice([0, 3, [1], "x", False])] for _ in range(rng.randint(0, 3))]
    t = {"req": ["->", ["p", "int"], gen_type(rng, 1)], "examples": exs,
         "solution": gen_prog(rng, 2) if rng.random() < 0.7 else None,
         "metadata": {"name": "t%d" % rng.randrange(5)} if rng.random() < 0.5 else {},
         "constants": None}
    if rng.random() < 0.4:
        t["constants"] = [[gen_type(rng, 1), [rng.choice([1, 2, "a", True]) for _ in range(rng.randint(0, 2))]] for _ in range(rng.randint(1, 3))]
    return t


def gen_persist(rng, tier):
    """either a batch of types/programs (+ tasks, dataset, key containers) or ONE grammar (+ its DSL):
    cases with a single grammar are already minimal, so nothing is spent on shrinking them"""
    s = rng.randrange(0, 1000)
    s2 = rng.choice([x for x in [0, 1, 2, 3, s + 1, s + 17, "random"] if x != s])
    case = {"kind": "persist", "objs": [], "tasks": [], "grammars": [], "seed_w": s, "seed_r": s2,
            "protocol": rng.choice([0, 1, 2, 3, 4, 5, None]), "optimize": rng.random() < 0.7,
            # history before saving: the objects were already hashed / printed / counted / used as keys in the writing
            # process (whatever they memoised then must not travel to a process with another hash seed)
            "warm": rng.random() < 0.6}
    if rng.random() < 0.4:
        case["grammars"] = [gen_grammar(rng, tier)]
        return case
    nobj = rng.randint(8, 16) if tier == "quick" else rng.randint(12, 30)
    for _ in range(nobj):
        a = gen_obj(rng, tier)
        case["objs"].append(a)
        if rng.random() < 0.3:
            case["objs"].append(variant(rng, a))
    case["tasks"] = [gen_task(rng) for _ in range(rng.randint(1, 3))]
    return case


# ------------------------------------------------------------------ shrinking
def sub_descs(d):
    for j in kid_slots(d):
        yield d[j]


def shrink_obj(d):
    """smaller candidates for one description"""
    for j in kid_slots(d):
        if is_type(d) == is_type(d[j]):
            yield d[j]
    k = d[0]
    lo = {"sum": 1, "fpoly": 2, "g": 3, "F": 3}.get(k)
    if lo is not None:
        for j in range(lo, len(d)):
            yield d[:j] + d[j + 1:]
    for j in kid_slots(d):
        for s in shrink_obj(d[j]):
            yield d[:j] + [s] + d[j + 1:]
        if is_type(d[j]) and d[j] != ["p", "int"]:
            yield d[:j] + [["p", "int"]] + d[j + 1:]


def shrink(case):
    k = case["kind"]
    if k in ("pair", "triple", "foreign"):
        for f in ("a", "b", "c"):
            if f in case:
                for s in shrink_obj(case[f]):
                    c = dict(case)
                    c[f] = s
                    yield c
        if k == "triple":
            yield {"kind": "pair", "a": case["a"], "b": case["b"]}
            yield {"kind": "pair", "a": case["b"], "b": case["c"]}
            yield {"kind": "pair", "a": case["a"], "b": case["c"]}
    elif k == "mutate":
        for j in range(len(case["ops"])):
            if len(case["ops"]) > 1:
                c = dict(case)
                c["ops"] = case["ops"][:j] + case["ops"][j + 1:]
                yield c
    elif k == "persist":
        for f in ("objs", "tasks"):
            n = len(case[f])
            if n > 1:
                c = dict(case)
                c[f] = case[f][: n // 2]
                yield c
                c = dict(case)
                c[f] = case[f][n // 2:]
                yield c
        if case["objs"] and case["tasks"]:
            c = dict(case)
            c["tasks"] = []
            yield c
            c = dict(case)
            c["objs"] = []
            yield c
        if len(case["objs"]) == 1 and not case["tasks"]:
            for s in shrink_obj(case["objs"][0]):
                c = dict(case)
                c["objs"] = [s]
                yield c


# ------------------------------------------------------------------ checks
def _safe(f):
    try:
        return f()
    except RecursionError:
        return "RecursionError"
    except Exception as e:  # noqa
        return type(e).__name__


def pair_obs(A, B):
    """what the implementation says about the pair"""
    return {
        "eq_ab": _safe(lambda: A == B), "eq_ba": _safe(lambda: B == A), "ne_ab": _safe(lambda: A != B),
        "hash_eq": _safe(lambda: hash(A) == hash(B)),
        "a_in_set_b": _safe(lambda: A in {B}), "b_in_set_a": _safe(lambda: B in {A}),
        "dict_b_get_a": _safe(lambda: {B: 1}.get(A, 0) == 1), "dict_a_get_b": _safe(lambda: {A: 1}.get(B, 0) == 1),
        "len_set": _safe(lambda: len({A, B})), "a_in_list_b": _safe(lambda: A in [B]),
    }


def check_pair_descs(da, db, M, failures, label):
    """all observables for one ordered pair; returns (impl_eq, spec_eq)"""
    A, B = to_repo(da), to_repo(db)
    obs = pair_obs(A, B)
    m = M.ask([Sym("c16.pair"), to_wire(da), to_wire(db)])
    m_eq_ab, m_eq_ba, m_hash, m_mem_ab, m_mem_ba, s_eq_ab, s_eq_ba, s_hash, m_hash_is_spec, wfb = (x == "1" for x in m)
    want = canon(da) == canon(db)
    # spec <-> oracle <-> model (theorems say they agree): harness errors, never violations
    if s_eq_ab != want or s_eq_ba != want:
        raise RuntimeError("Lean spec eqS and harness oracle disagree on %s / %s" % (wire_text(da), wire_text(db)))
    if m_eq_ab != s_eq_ab or m_eq_ba != s_eq_ba or not m_hash_is_spec or (m_hash != s_hash):
        raise RuntimeError("Lean model pyEq/pyHash and spec eqS/hashS disagree (contradicts C16_pyEq_eq_spec): %s / %s" % (wire_text(da), wire_text(db)))
    if want and not s_hash:
        raise RuntimeError("spec: equal objects with different spec hashes (contradicts C16_eq_hash)")
    pr = "%s: a=%s b=%s " % (label, A, B)
    # ---- the laws, on the implementation
    bad = [k for k, v in obs.items() if isinstance(v, str)]
    if bad:
        failures.append({"kind": "oracle", "what": "comparison/hash raises", "detail": pr + str({k: obs[k] for k in bad})})
        return None, want
    if obs["eq_ab"] != obs["eq_ba"]:
        failures.append({"kind": "oracle", "what": "equality is not symmetric", "detail": pr + "a==b: %s, b==a: %s" % (obs["eq_ab"], obs["eq_ba"])})
    if obs["ne_ab"] != (not obs["eq_ab"]):
        failures.append({"kind": "oracle", "what": "a != b is not the negation of a == b", "detail": pr})
    if obs["eq_ab"] and not obs["hash_eq"]:
        failures.append({"kind": "oracle", "what": "equal objects have different hashes", "detail": pr})
    if obs["eq_ab"] and obs["eq_ba"] and not (obs["a_in_set_b"] and obs["b_in_set_a"] and obs["dict_b_get_a"] and obs["dict_a_get_b"] and obs["len_set"] == 1):
        failures.append({"kind": "oracle", "what": "equal objects are not interchangeable as set/dict keys", "detail": pr + str(obs)})
    if not obs["eq_ab"] and not obs["eq_ba"] and (obs["a_in_set_b"] or obs["b_in_set_a"] or obs["dict_b_get_a"] or obs["dict_a_get_b"] or obs["len_set"] != 2):
        failures.append({"kind": "oracle", "what": "unequal objects found as each other's key", "detail": pr + str(obs)})
    if obs["eq_ab"] != want or obs["eq_ba"] != want:
        failures.append({"kind": "oracle", "what": "equality differs from the statement's identification of objects",
                         "detail": pr + "a==b: %s, b==a: %s, expected %s" % (obs["eq_ab"], obs["eq_ba"], want)})
    # ---- correspondence with the literal model
    impl_bits = (obs["eq_ab"], obs["eq_ba"], obs["hash_eq"], obs["a_in_set_b"], obs["b_in_set_a"])
    model_bits = (m_eq_ab, m_eq_ba, m_hash, m_mem_ab, m_mem_ba)
    if impl_bits != model_bits:
        failures.append({"kind": "corr", "what": "eq/hash/membership bits differ from the model",
                         "detail": pr + "impl(eq_ab,eq_ba,hash_eq,a in {b},b in {a})=%s model=%s" % (impl_bits, model_bits)})
    if obs["a_in_list_b"] != obs["eq_ba"]:
        failures.append({"kind": "corr", "what": "list membership differs from ==", "detail": pr})
    return obs["eq_ab"], want


def check_self(d, M, failures):
    """reflexivity: the object itself, a twin rebuilt from the same description, clone()"""
    A, A2 = to_repo(d), to_repo(d)
    r = {"self": _safe(lambda: A == A), "twin": _safe(lambda: A == A2 and A2 == A), "hash": _safe(lambda: hash(A) == hash(A2)),
         "key": _safe(lambda: A2 in {A} and {A: 1}.get(A2) == 1)}
    if not all(v is True for v in r.values()):
        failures.append({"kind": "oracle", "what": "equality is not reflexive / twin objects differ", "detail": "%s: %s" % (A, r)})
    if not is_type(d) and d[0] not in ("V", "L"):
        # clone() drops the type of variables and lambdas by design of the code; for the other classes it is a deep copy
        pass
    enc = _safe(lambda: encode_repo(A))
    if enc != norm_desc(d):
        failures.append({"kind": "corr", "what": "fields of a freshly constructed object differ from the model's constructor",
                         "detail": "%s: impl %s model %s" % (A, enc, norm_desc(d))})


def tags_of(d, pre):
    out = set()

    def walk(x):
        out.add(pre + "." + x[0])
        for j in kid_slots(x):
            walk(x[j])
    walk(d)
    return sorted(out)


def check_pair(case, M):
    failures = []
    da, db = case["a"], case["b"]
    check_self(da, M, failures)
    check_self(db, M, failures)
    eq, want = check_pair_descs(da, db, M, failures, "pair")
    tags = ["pair", "pair.equal" if want else "pair.unequal", "pair.types" if is_type(da) else "pair.programs"] + tags_of(da, "cls")
    if want and da != db:
        tags.append("pair.equal-but-not-identical")
    nontrivial = da != db and (size(da) >= 2 or size(db) >= 2)
    return {"key": "pair:" + wire_text(da) + "|" + wire_text(db), "nontrivial": nontrivial, "tags": tags, "failures": failures,
            "sample": {"kind": "pair", "a": wire_text(da), "b": wire_text(db), "equal": want}}


def check_triple(case, M):
    failures = []
    ds = [case["a"], case["b"], case["c"]]
    for d in ds:
        check_self(d, M, failures)
    eqs = {}
    wants = {}
    for i, j in ((0, 1), (1, 2), (0, 2)):
        eqs[(i, j)], wants[(i, j)] = check_pair_descs(ds[i], ds[j], M, failures, "triple(%d,%d)" % (i, j))
    if eqs[(0, 1)] and eqs[(1, 2)] and eqs[(0, 2)] is False:
        failures.append({"kind": "oracle", "what": "equality is not transitive", "detail": " ; ".join(str(to_repo(d)) for d in ds)})
    if wants[(0, 1)] and wants[(1, 2)] and not wants[(0, 2)]:
        raise RuntimeError("spec equality not transitive (contradicts C16_eq_trans)")
    objs = [to_repo(d) for d in ds]
    # a dict filled with all three must have one slot per equivalence class
    nclasses = len({canon(d) for d in ds})
    got = _safe(lambda: len({o: 1 for o in objs}))
    if got != nclasses:
        failures.append({"kind": "oracle", "what": "dict over three objects has the wrong number of keys",
                         "detail": "%s -> %s keys, %d classes" % (objs, got, nclasses)})
    neq = sum(1 for v in wants.values() if v)
    tags = ["triple", "triple.eqpairs%d" % neq] + tags_of(ds[0], "cls")
    return {"key": "triple:" + "|".join(wire_text(d) for d in ds), "nontrivial": ds[0] != ds[1] and ds[1] != ds[2], "tags": tags,
            "failures": failures, "sample": {"kind": "triple", "objs": [wire_text(d) for d in ds], "equal_pairs": neq}}


def check_foreign(case, M):
    failures = []
    d = case["a"]
    A = to_repo(d)
    check_self(d, M, failures)
    for j in case["others"]:
        x = FOREIGN[j % len(FOREIGN)]
        r = (_safe(lambda: A == x), _safe(lambda: x == A), _safe(lambda: A != x))
        if r != (False, False, True):
            failures.append({"kind": "oracle", "what": "comparison with a foreign value is not plain inequality",
                             "detail": "%s vs %r: (a==x, x==a, a!=x)=%s" % (A, x, r)})
    return {"key": "foreign:" + wire_text(d) + str(case["others"]), "nontrivial": True, "tags": ["foreign"], "failures": failures,
            "sample": {"kind": "foreign", "a": wire_text(d)}}


def _follow(obj, path):
    from synth.syntax import program as PR
    for i in path:
        if isinstance(obj, PR.Function):
            obj = obj.function if i == 0 else obj.arguments[i - 1]
        elif isinstance(obj, PR.Lambda):
            obj = obj.body
        else:
            raise ValueError("bad path")
    return obj


def _set_desc(d, path, f):
    d = json.loads(json.dumps(d))
    if not path:
        return f(d)
    i = path[0]
    if d[0] == "F":
        d[2 + i] = _set_desc(d[2 + i], path[1:], f)
    elif d[0] == "L":
        d[1] = _set_desc(d[1], path[1:], f)
    return d


_REHASH = None


def rehash_impl():
    """does the implementation contain the repair of C16-F7 (fixes_proposed/C16-F7.diff)?  probed at the witness:
    (f <int>), assign(5): the hash must be that of a freshly built (f 5)"""
    global _REHASH
    if _REHASH is None:
        from synth.syntax.program import Constant, Function, Primitive
        from synth.syntax.type_system import INT, Arrow
        f = Primitive("f", Arrow(INT, INT))
        c = Constant(INT)
        p = Function(f, [c])
        c.assign(5)
        _REHASH = hash(p) == hash(Function(f, [Constant(INT, 5, True)]))
    return _REHASH


def mutate_is_nested(case):
    """decidable classifier of finding C16-F7: some assign/reset targets a constant that lies strictly
    inside a Function/Lambda (whose cached hash is not refreshed) and the implementation is without the repair"""
    return any(len(op["path"]) > 0 for op in case["ops"]) and not rehash_impl()


def check_mutate(case, M):
    failures = []
    d = case["a"]
    A = to_repo(d)
    cur = norm_desc(d)
    done = []
    for op in case["ops"]:
        path = op["path"]
        c = _follow(A, path)
        if op["op"] == "reset":
            c.reset()
            v, hv = None, False
        else:
            v, hv = op["value"], True
            c.assign(val_py(v))
        # model: the whole history so far folded over the object built from the description
        cur = _set_desc(cur, path, lambda cd: ["C", cd[1], hv, v])
        done.append([path, hv, val_wire(v), str(val_py(v))])
        m = M.ask([Sym("c16.assign"), int(rehash_impl()), to_wire(d), done, to_wire(cur)])
        m_struct, m_eq, m_eq2, m_hash_fresh, m_hash_stale, m_valid = m[0], m[1] == "1", m[2] == "1", m[3] == "1", m[4] == "1", m[5] == "1"
        if rehash_impl() and m_valid and m_eq and not m_hash_fresh:
            raise RuntimeError("model: hash after assign differs from the fresh program's although the path is valid (contradicts C16_assign)")
        fresh = to_repo_raw(cur)
        enc = _safe(lambda: encode_repo(A))
        if enc != cur:
            failures.append({"kind": "oracle", "what": "assign/reset left the object in an unexpected state", "detail": "%s expected %s" % (enc, cur)})
            break
        if dump(_raw_wire(cur)) != _sexp_text(m_struct):
            raise RuntimeError("model assignAt and harness disagree on the resulting structure: %s vs %s" % (dump(_raw_wire(cur)), _sexp_text(m_struct)))
        eq = _safe(lambda: A == fresh and fresh == A)
        heq = _safe(lambda: hash(A) == hash(fresh))
        if (eq, heq) != (m_eq and m_eq2, m_hash_fresh):
            failures.append({"kind": "corr", "what": "eq/hash after assign differ from the model",
                             "detail": "%s: impl (eq,hash_eq)=%s model=%s" % (A, (eq, heq), (m_eq and m_eq2, m_hash_fresh))})
        nested = len(path) > 0
        if eq is not True:
            failures.append({"kind": "oracle", "what": "mutated program differs from the freshly built one", "detail": "%s vs %s" % (A, fresh)})
        if eq is True and heq is not True:
            f = {"kind": "oracle", "what": "after Constant.assign/reset an equal freshly built program has a different hash",
                 "detail": "%s (path %s)" % (A, path)}
            if mutate_is_nested(case):
                f["finding"] = "C16-F7"
            failures.append(f)
        if (not nested or rehash_impl()) and eq is True and heq is True:
            if _safe(lambda: {fresh: 1}.get(A)) != 1:
                failures.append({"kind": "oracle", "what": "assigned constant not found under the key of its fresh twin", "detail": str(A)})
    tags = ["mutate", "mutate.nested" if any(len(op["path"]) > 0 for op in case["ops"]) else "mutate.root", "mutate.code-" + ("with" if rehash_impl() else "without") + "-the-repair-of-C16-F7"] + ["mutate." + op["op"] for op in case["ops"]]
    return {"key": "mutate:" + wire_text(d) + json.dumps(case["ops"]), "nontrivial": True, "tags": sorted(set(tags)), "failures": failures,
            "sample": {"kind": "mutate", "a": wire_text(d), "ops": case["ops"]}}


def _raw_wire(d):
    """wire of a NORMALISED description (has_value already final): sent with has_value_arg = has_value"""
    return to_wire(d)


def to_repo_raw(d):
    return to_repo(d)


def _sexp_text(x):
    """parsed driver answer -> canonical text comparable with dump(to_wire(..))"""
    from harness.sexp import Str
    if isinstance(x, list):
        return "(" + " ".join(_sexp_text(y) for y in x) + ")"
    if isinstance(x, Str):
        return dump(str(x))
    return str(x)


# ------------------------------------------------------------------ persistence
def check_persist(case, M):
    failures = []
    tmp = tempfile.mkdtemp(prefix="c16-")
    try:
        spec = os.path.join(tmp, "case.json")
        with open(spec, "w") as f:
            json.dump(case, f)
        outs = []
        for role, seed in (("write", case["seed_w"]), ("read", case["seed_r"])):
            env = dict(os.environ, PYTHONHASHSEED=str(seed), OMP_NUM_THREADS="1", OPENBLAS_NUM_THREADS="1", MKL_NUM_THREADS="1", PYTHONPATH=REPO + os.pathsep + os.path.dirname(HERE))
            p = subprocess.run([sys.executable, os.path.join(HERE, "c16_persist.py"), role, spec, tmp], env=env,
                               stdout=subprocess.PIPE, stderr=subprocess.PIPE, text=True, timeout=100)
            if p.returncode != 0:
                failures.append({"kind": "oracle", "what": "persistence %s process failed" % role, "detail": p.stderr[-600:]})
                break
            outs.append(p.stdout)
        rep = json.loads(outs[1]) if len(outs) == 2 else None
    finally:
        shutil.rmtree(tmp, ignore_errors=True)
    ntags = ["persist", "persist.warm" if case.get("warm") else "persist.cold"]
    if rep is not None:
        for r in rep["objs"]:
            d = case["objs"][r["index"]]
            who = "object #%d %s via %s" % (r["index"], wire_text(d), r["via"])
            if r.get("error"):
                failures.append({"kind": "oracle", "what": "loading a persisted object raises", "detail": who + ": " + r["error"]})
                continue
            bad = [k for k in ("eq_lt", "eq_tl", "hash_eq", "loaded_in_fresh_set", "fresh_in_loaded_dict", "loaded_dict_get_fresh", "type_eq") if r[k] is not True]
            if bad:
                failures.append({"kind": "oracle", "what": "persisted object differs from its rebuilt twin (%s)" % ",".join(bad), "detail": who + " " + str(r)})
            # structure of the loaded object against the model of the reducers
            m = M.ask([Sym("c16.pickle"), to_wire(d)])
            if not (m[1] == "1" and m[2] == "1" and m[3] == "1"):
                raise RuntimeError("model: unpickle/pickle does not reproduce eq/hash (contradicts C16_pickle_eq / C16_pickle_hash)")
            want_struct = dump(to_wire(norm_desc(d)))
            if _sexp_text(m[0]) != want_struct:
                raise RuntimeError("model: unpickled structure differs from the object (contradicts C16_pickle_id): %s vs %s" % (_sexp_text(m[0]), want_struct))
            if r["struct"] != norm_desc(d):
                failures.append({"kind": "oracle", "what": "persisted object does not have the fields of the original",
                                 "detail": who + " loaded=%s expected=%s" % (r["struct"], norm_desc(d))})
        for r in rep["others"]:
            if r.get("error"):
                failures.append({"kind": "oracle", "what": "loading a persisted %s raises" % r["what"], "detail": r["error"]})
                continue
            ntags.append("persist." + r["what"])
            bad = sorted(k for k, v in r["checks"].items() if v is not True)
            if bad:
                f = {"kind": "oracle", "what": "persisted %s differs from its rebuilt twin (%s)" % (r["what"], ",".join(bad)),
                     "detail": "%s via %s: %s" % (r["desc"], r["via"], {k: r["checks"][k] for k in bad})}
                fid = persist_finding(r["what"], bad)
                if fid:
                    f["finding"] = fid
                failures.append(f)
    key = "persist:" + json.dumps([case["objs"], case["grammars"], case["seed_w"], case["seed_r"]])[:4000]
    return {"key": key, "nontrivial": (len(case["objs"]) >= 3 or len(case["grammars"]) >= 1) and case["seed_w"] != case["seed_r"], "tags": sorted(set(ntags)),
            "failures": failures,
            "sample": {"kind": "persist", "objects": len(case["objs"]), "grammars": [g["kind"] for g in case["grammars"]],
                       "seeds": [case["seed_w"], case["seed_r"]]}}


def persist_finding(what, bad):
    """decidable classifier for the two recorded grammar findings (by grammar class and observable only)"""
    if what in ("ucfg", "ucfg_dfta", "pucfg") and set(bad) <= {"eq", "eq_rev"}:
        return "C16-F9"
    if what in ("ttcfg", "pcfg") and set(bad) <= {"hash_eq"}:
        return "C16-F8"
    return None


def check(case, M):
    case = json.loads(json.dumps(case))
    k = case["kind"]
    if k == "pair":
        return check_pair(case, M)
    if k == "triple":
        return check_triple(case, M)
    if k == "foreign":
        return check_foreign(case, M)
    if k == "mutate":
        return check_mutate(case, M)
    if k == "persist":
        return check_persist(case, M)
    raise ValueError(k)


def corpus():
    I, B = ["p", "int"], ["p", "bool"]
    f = ["P", "f", ["->", I, I]]
    return [
        # the six defects repaired by fix: commits (C16-F1…F6)
        {"kind": "pair", "a": ["sum", I, B], "b": ["sum", B, I]},
        {"kind": "pair", "a": ["fpoly", "a", I], "b": ["fpoly", "b", I]},
        {"kind": "triple", "a": ["g", "list", False, I], "b": ["g", "list", False, I, B], "c": ["g", "list", False, I, ["p", "string"]]},
        {"kind": "pair", "a": ["V", 0, I], "b": ["V", 0, ["unk"]]},
        {"kind": "pair", "a": ["C", I, None, ["i", 1]], "b": ["C", I, None, ["b", True]]},
        {"kind": "pair", "a": ["C", I, True, None], "b": ["C", I, None, None]},
        # subclass / reflected equality, duplicates, nested sums
        {"kind": "pair", "a": ["poly", "a"], "b": ["fpoly", "a", I]},
        {"kind": "pair", "a": ["sum", I, I, B], "b": ["sum", B, I]},
        {"kind": "pair", "a": ["sum", ["sum", I, B], ["p", "a"]], "b": ["sum", ["p", "a"], ["sum", B, I, I]]},
        {"kind": "pair", "a": ["sum", ["poly", "a"], ["p", "a"]], "b": ["sum", ["p", "a"], ["poly", "a"], ["fpoly", "a"]]},
        {"kind": "pair", "a": ["F", False, f], "b": f},
        {"kind": "pair", "a": ["L", ["V", 0, I], I], "b": ["L", ["V", 0, B], B]},
        # two nested constants swapping their values (made a linear model hash collide)
        {"kind": "mutate", "a": ["F", False, ["P", "f", ["p", "int"]], ["F", False, ["P", "g", ["p", "int"]], ["C", ["p", "int"], True, ["b", False]]],
                                ["F", False, ["P", "g", ["p", "int"]], ["C", ["p", "int"], True, ["t", ["i", 1]]]]],
         "ops": [{"path": [1, 1], "op": "assign", "value": ["t", ["i", 1]]}, {"path": [2, 1], "op": "assign", "value": ["b", False]}]},
        # minimised failures of the self-test mutations
        {"kind": "pair", "a": ["g", "list", False], "b": ["g", "list", False, I]},
        {"kind": "pair", "a": ["sum", ["poly", "a"], ["poly", "a"]], "b": ["sum", ["poly", "a"], ["poly", "a"], ["poly", "a"]]},
        {"kind": "pair", "a": ["->", I, B], "b": ["->", B, B]},
        {"kind": "pair", "a": ["C", I, None, ["i", 2]], "b": ["C", I, False, ["i", 2]]},
        {"kind": "pair", "a": ["fpoly", "a", I, B], "b": ["fpoly", "a", B, I]},
        {"kind": "persist", "objs": [["V", 7, ["g", "int", False, B]], ["C", I, True, None], ["P", "f", ["->", I, I]], ["g", "list", True, I]],
         "tasks": [], "grammars": [], "seed_w": 1, "seed_r": 2, "protocol": None, "optimize": True},
        {"kind": "mutate", "a": ["C", I, None, None], "ops": [{"path": [], "op": "assign", "value": ["i", 5]}, {"path": [], "op": "reset"}]},
        {"kind": "mutate", "a": ["F", False, f, ["C", I, None, None]], "ops": [{"path": [1], "op": "assign", "value": ["i", 5]}]},
    ]
