"""Shared machinery of the heap-search parts (c02_hs, c03_hs, c12_hs).

impl    : synth.syntax.grammars.enumeration.heap_search / u_heap_search on grammars built with the
          real constructors (CFG.depth_constraint, TTCFG.size_constraint, UCFG.from_CFG,
          UCFG.from_DFTA(add_dfta_constraints(...))), weights and rule order chosen by the case
model   : PS.HS / PS.UHS through the driver ops hs.det / hs.u (lean/PS/Drv/C92.lean)
oracle  : the language and the exact probability of every program by exhaustive expansion of the
          rule table (written here, no enumerator / membership / probability code of synth)
Symbols, non-terminal contexts and states are numbered by Python equality for the wire.
"""
import itertools
import random
from fractions import Fraction

from harness import gen as G
from harness import wire as W
from harness.sexp import Sym

MAX_LANG = {"quick": 1500, "thorough": 6000}
FUEL = 1000000
SENTINEL = 123891


def _tt(t):
    return tuple(_tt(x) for x in t) if isinstance(t, list) else t


# --------------------------------------------------------------------------- case generation
TEST_DSL = {"kind": "testdsl"}


def gen_build(rng, tier, family):
    """description of a finite grammar (JSON-able)"""
    r = rng.random()
    if r < 0.12:
        b = {"src": "testdsl", "request": ["->", "int", "int"]}
    elif r < 0.30:
        names = rng.sample(["+", "-", "*"], rng.choice([1, 1, 2]))
        consts = rng.sample(["0", "1", "2", "3"], rng.choice([1, 2, 2, 3]))
        prims = [[n, ["->", "int", ["->", "int", "int"]]] for n in names] + [[c, "int"] for c in consts]
        if rng.random() < 0.4:
            prims.append(["neg", ["->", "int", "int"]])
        b = {"src": "prims", "prims": prims, "forbidden": [], "request": rng.choice(["int", ["->", "int", "int"], ["->", "int", ["->", "int", "int"]]])}
    else:
        syn = G.random_syntax(rng, allow_ho=rng.random() < 0.5)
        b = {"src": "prims", "prims": syn["prims"], "forbidden": [[k[0], k[1], v] for k, v in syn["forbidden"].items()],
             "request": G.random_request(rng, syn)}
    if family == "det":
        if rng.random() < 0.3:
            b.update(kind="ttcfg-size", max_size=rng.choice([2, 3, 4, 5, 5, 6]), n_gram=rng.choice([2, 2, 1]))
        else:
            b.update(kind="cfg", max_depth=rng.choice([2, 3, 3, 3, 4, 4]), min_var=rng.choice([0, 1, 1]), n_gram=rng.choice([2, 2, 2, 1, 3]))
    else:
        b.update(kind=rng.choice(["ucfg-cfg", "ucfg-dfta", "ucfg-dfta", "ucfg-dfta-ngram"]), max_depth=rng.choice([2, 3, 3, 3, 4]),
                 min_var=rng.choice([0, 1, 1]), n_gram=2, cseed=rng.randrange(1 << 30), nconstraints=rng.choice([0, 1, 1, 2]))
    return b


def gen_case(rng, i, tier, family=None):
    family = family or ("det" if rng.random() < 0.6 else "u")
    case = {
        "family": family,
        "build": gen_build(rng, tier, family),
        "order": rng.choice(["built", "built", "reversed", "shuffled", "shuffled"]),
        "oseed": rng.randrange(1 << 30),
        "weights": rng.choice(["uniform", "uniform", "dyadic", "dyadic", "skewed", "ties", "pow2"]),
        "wseed": rng.randrange(1 << 30),
        "enum": rng.choice([{"kind": "heap", "threshold": "0"}] * 3 + [{"kind": "bucket", "size": rng.choice([1, 2, 3, 3, 4, 5, 7, 9])}]
                           + [{"kind": "heap", "threshold": rng.choice(["1/8", "1/16", "1/64", "3/1024", "1/4096"])}]),
        "filter": None,
        "merges": [],
        "fseed": rng.randrange(1 << 30) if rng.random() < 0.5 else None,
        "tier": tier,
    }
    fit_size(case, tier)
    return case


def lang_size(b, limit):
    """size of the language of the grammar described by b (by the harness' own expansion), or
    None (constructor refuses / dangling) or limit + 1"""
    g = build_grammar(dict(b))
    if g is None:
        return None
    try:
        if hasattr(g, "starts"):
            if not g.starts or any(S not in g.rules for S in g.starts):
                return 0
            one = {S: {P: {tuple(v): 1 for v in alts} for P, alts in rs.items()} for S, rs in g.rules.items()}
            return len(expand_u(g, one, {S: 1 for S in g.starts}, limit))
        if g.start not in g.rules:
            return 0
        return len(expand_det(g, {S: {P: 1 for P in rs} for S, rs in g.rules.items()}, limit))
    except TooLarge:
        return limit + 1
    except (Dangling, RecursionError):
        return None


def fit_size(case, tier):
    """move the depth / size bound so that the language is neither huge nor tiny"""
    b = case["build"]
    fld = "max_size" if b["kind"] == "ttcfg-size" else "max_depth"
    limit = MAX_LANG[tier]
    for _ in range(4):
        n = lang_size(b, limit)
        if n is None:
            return
        if n > limit and b[fld] > 1:
            b[fld] -= 1
        elif n < 8 and b[fld] < (7 if fld == "max_size" else 4):
            b[fld] += 1
            m = lang_size(b, limit)
            if m is None or m > limit:
                b[fld] -= 1
                return
        else:
            return


def gen_filter(rng):
    r = rng.random()
    if r < 0.4:
        return {"kind": "reject", "idx": [rng.randrange(1 << 20) for _ in range(rng.choice([1, 1, 2, 3, 5, 8]))]}
    if r < 0.55:
        return {"kind": rng.choice(["even", "odd"])}
    if r < 0.8:
        return {"kind": "nosym", "name": rng.choice(["+", "1", "0", "c0", "c1", "f0", "f1", "var0", "2", "neg"])}
    return {"kind": "shallow", "depth": rng.choice([1, 2, 2, 3])}


# --------------------------------------------------------------------------- building with the implementation
def make_dsl(b):
    from synth.syntax.dsl import DSL
    if b["src"] == "testdsl":
        from synth.syntax.type_system import INT, STRING, List, PolymorphicType, PrimitiveType
        from synth.syntax.type_helper import FunctionType
        dsl = DSL({"+": FunctionType(INT, INT, INT), "head": FunctionType(List(PolymorphicType("a")), PolymorphicType("a")),
                   "non_reachable": PrimitiveType("non_reachable"), "1": INT, "2": INT, "non_productive": FunctionType(INT, STRING)})
        dsl.instantiate_polymorphic_types()
        return dsl
    forb = {(a, k): set(v) for a, k, v in b.get("forbidden", [])}
    return DSL({n: W.tt_repo(_tt(t)) for n, t in b["prims"]}, forb)


def random_constraints(rng, b, n):
    """constraint strings of the sharpening language over the primitive names of the DSL"""
    if b["src"] == "testdsl":
        funs, leaves = [("+", 2)], ["1", "2"]
    else:
        funs = [(nm, len(G.args_ret(_tt(t))[0])) for nm, t in b["prims"] if not isinstance(t, str) and t[0] == "->"]
        leaves = [nm for nm, t in b["prims"] if isinstance(t, str) or t[0] != "->"]
    out = []
    for _ in range(n):
        if not funs:
            break
        f, ar = rng.choice(funs)
        args = []
        for _k in range(ar):
            r = rng.random()
            if r < 0.5 or not (funs or leaves):
                args.append("_")
            else:
                pool = [x for x, _ in funs] + leaves
                args.append(("^" if rng.random() < 0.6 else "") + ",".join(rng.sample(pool, min(len(pool), rng.choice([1, 1, 2])))))
        if all(a == "_" for a in args):
            args[rng.randrange(len(args))] = "^" + f
        out.append("(" + " ".join([f] + args) + ")")
    return out


def build_grammar(b):
    """-> grammar (CFG/TTCFG/UCFG) or None when the constructor refuses (empty language)"""
    from synth.syntax.grammars.cfg import CFG
    from synth.syntax.grammars.ttcfg import TTCFG
    from synth.syntax.grammars.u_cfg import UCFG
    dsl = make_dsl(b)
    tr = W.tt_repo(_tt(b["request"]))
    kind = b["kind"]
    try:
        if kind == "cfg":
            return CFG.depth_constraint(dsl, tr, b["max_depth"], b["min_var"], b["n_gram"])
        if kind == "ttcfg-size":
            return TTCFG.size_constraint(dsl, tr, b["max_size"], b["n_gram"])
        cfg = CFG.depth_constraint(dsl, tr, b["max_depth"], b["min_var"], b["n_gram"])
        if kind == "ucfg-cfg":
            return UCFG.from_CFG(cfg, True)
        from synth.filter.constraints.dfta_constraints import add_dfta_constraints
        cons = random_constraints(random.Random(b["cseed"]), b, b["nconstraints"])
        b["_constraints"] = cons
        dfta = add_dfta_constraints(cfg, cons, progress=False)
        if kind == "ucfg-dfta-ngram":
            return UCFG.from_DFTA_with_ngrams(dfta, 2)
        return UCFG.from_DFTA(dfta)
    except (KeyError, IndexError, AssertionError) as e:
        b["_error"] = type(e).__name__
        return None


def reorder(d, mode, rng):
    keys = list(d.keys())
    if mode == "reversed":
        keys.reverse()
    elif mode == "shuffled":
        rng.shuffle(keys)
    return {k: d[k] for k in keys}


def reorder_rules(g, mode, seed):
    """rebuild g.rules (outer and inner dicts) in the chosen iteration order"""
    if mode == "built":
        return
    rng = random.Random(seed)
    g.rules = reorder({S: reorder(rs, mode, rng) for S, rs in g.rules.items()}, mode, rng)


def pick_weight(rng, mode, n):
    if mode == "uniform":
        k = 1
        while (1 << k) < n:
            k += 1
        return Fraction(1, 1 << k)
    if mode == "dyadic":
        return Fraction(rng.randint(1, 15), 16)
    if mode == "skewed":
        return Fraction(rng.choice([1, 1, 1, 15, 14, 2]), 16)
    if mode == "ties":
        return Fraction(1, rng.choice([2, 4]))
    return Fraction(1, 1 << rng.randint(1, 4))   # pow2


# --------------------------------------------------------------------------- oracle: language + exact probability
class TooLarge(Exception):
    pass


class Dangling(Exception):
    """a rule mentions a non-terminal that has no rules (the constructor did not clean the table)"""


def expand_det(g, weights, limit):
    """[(program tuple, Fraction)] derivable from g.start, by top-down expansion of the rule table.
    A TTCFG threads its state through the arguments from left to right (ttcfg.py docstring):
    the non-terminal of argument i is (type_i, (ctx_i, state after argument i-1))."""
    memo = {}
    dangling = []

    def go(S):
        if S in memo:
            if memo[S] is None:
                raise RecursionError("cyclic rule table")
            return memo[S]
        memo[S] = None
        out = []
        for P, (args, st) in g.rules[S].items():
            partial = [((), st, weights[S][P])]
            for a in args:
                nxt = []
                for kids, t, w in partial:
                    nS = (a[0], (a[1], t))
                    if nS not in g.rules:
                        dangling.append(nS)
                        continue
                    for sub, t2, w2 in go(nS):
                        nxt.append((kids + (sub,), t2, w * w2))
                        if len(nxt) > 4 * limit:
                            raise TooLarge()
                partial = nxt
            for kids, t, w in partial:
                out.append(((P, kids), t, w))
            if len(out) > limit:
                raise TooLarge()
        memo[S] = out
        return out
    res = [(p, w) for p, _, w in go(g.start)]
    if dangling:
        raise Dangling()
    return res


def expand_u(g, weights, start_w, limit):
    """[(program tuple, Fraction incl. start weight, start)] for an unambiguous CFG"""
    memo = {}

    def go(S):
        if S in memo:
            if memo[S] is None:
                raise RecursionError("cyclic rule table")
            return memo[S]
        memo[S] = None
        out = []
        for P, alts in g.rules[S].items():
            for v in alts:
                subs = []
                ok = True
                for a in v:
                    r = go(a) if a in g.rules else []
                    if not r:
                        ok = False
                        break
                    subs.append(r)
                if not ok:
                    continue
                w0 = weights[S][P][tuple(v)]
                n = 1
                for s in subs:
                    n *= len(s)
                if n + len(out) > limit:
                    raise TooLarge()
                for combo in itertools.product(*subs):
                    w = w0
                    for _, ww in combo:
                        w *= ww
                    out.append(((P, tuple(k for k, _ in combo)), w))
        memo[S] = out
        return out
    res = []
    for S in g.starts:
        for p, w in go(S):
            res.append((p, w * start_w[S], S))
            if len(res) > limit:
                raise TooLarge()
    return res


def show(t):
    P, kids = t
    return str(P) if not kids else "(" + " ".join([str(P)] + [show(k) for k in kids]) + ")"


def to_prog(t):
    from synth.syntax.program import Function
    P, kids = t
    return P if not kids else Function(P, [to_prog(k) for k in kids])


def of_prog(p):
    from synth.syntax.program import Function
    if isinstance(p, Function):
        return (p.function, tuple(of_prog(a) for a in p.arguments))
    return (p, ())


def tsize(t):
    return 1 + sum(tsize(k) for k in t[1])


def subterms(t):
    yield t
    for k in t[1]:
        yield from subterms(k)


# --------------------------------------------------------------------------- wire
class Ids:
    """numbering by Python equality (dict keys)"""

    def __init__(self):
        self.d = {}
        self.rev = []

    def __call__(self, x):
        if x not in self.d:
            self.d[x] = len(self.rev)
            self.rev.append(x)
        return self.d[x]


class Wire:
    def __init__(self):
        self.sym = Ids()
        self.ctx = Ids()
        self.st = Ids()

    def prog(self, t):
        return [self.sym(t[0])] + [self.prog(k) for k in t[1]]

    def unprog(self, w):
        return (self.sym.rev[int(w[0])], tuple(self.unprog(k) for k in w[1:]))

    def nt_det(self, S):
        return [str(S[0]), self.ctx(S[1][0]), self.st(S[1][1])]

    def det(self, g, weights):
        entries = []
        for S, rs in g.rules.items():
            rl = []
            for P, (args, st) in rs.items():
                rl.append([self.sym(P), [[str(a[0]), self.ctx(a[1])] for a in args], self.st(st), frac(weights[S][P])])
            entries.append([self.nt_det(S), rl])
        return [Sym("tt"), self.nt_det(g.start), entries]

    def nt_u(self, S):
        return [str(S[0]), self.ctx(S[1])]

    def ucfg(self, g, weights, starts, start_w):
        entries = []
        for S, rs in g.rules.items():
            rl = []
            for P, alts in rs.items():
                rl.append([self.sym(P), [[[self.nt_u(a) for a in v], frac(weights[S][P][tuple(v)])] for v in alts]])
            entries.append([self.nt_u(S), rl])
        return [Sym("ucfg"), [[self.nt_u(S), frac(start_w[S])] for S in starts], entries]


def frac(q):
    q = Fraction(q)
    return f"{q.numerator}/{q.denominator}"


def exact_float(q):
    """the float product of dyadic factors is exact when the numerator fits the mantissa"""
    return q.numerator.bit_length() <= 52 and q.denominator.bit_length() <= 900


# --------------------------------------------------------------------------- filters
class HFilter:
    """a deterministic filter given by a predicate on harness tuples (subclass of synth's Filter
    is not needed: enumerators only call .accept)"""

    def __init__(self, pred):
        self.pred = pred
        self.calls = 0

    def accept(self, obj):
        self.calls += 1
        return self.pred(of_prog(obj))

    def reject(self, obj):
        return not self.accept(obj)


def make_filter(desc, lang_sorted):
    """-> predicate on program tuples"""
    if desc is None:
        return None
    k = desc["kind"]
    if k == "reject":
        rej = {lang_sorted[i % len(lang_sorted)] for i in desc["idx"]} if lang_sorted else set()
        return lambda t: show(t) not in rej
    if k == "even":
        return lambda t: tsize(t) % 2 == 0
    if k == "odd":
        return lambda t: tsize(t) % 2 == 1
    if k == "nosym":
        name = desc["name"]
        return lambda t: all(str(s[0]) != name for s in subterms(t))
    if k == "shallow":
        d = desc["depth"]

        def depth(t):
            return 1 + max([depth(x) for x in t[1]], default=0)
        return lambda t: depth(t) <= d
    raise ValueError(k)


# --------------------------------------------------------------------------- running the implementation
def chain_of(succ):
    out = []
    k = SENTINEL
    seen = 0
    while k in succ and seen < 100000:
        p = succ[k]
        out.append(p)
        k = hash(p)
        seen += 1
    return out


def run_script(en, plan, limit):
    """plan: list of ("take", k) / ("merge", j): merge the j-th program yielded so far (mod count);
    returns (steps, concrete script, error)"""
    it = en.generator()
    yielded = []
    steps = []
    script = []
    err = None
    try:
        for act in plan:
            if act[0] == "merge":
                if not yielded:
                    continue
                other = yielded[act[1] % len(yielded)]
                rep = yielded[0]
                en.merge_program(rep, other)
                script.append(("merge", of_prog(other)))
                continue
            k = act[1]
            ys = []
            fin = False
            script.append(("take", k))
            for _ in range(k):
                try:
                    p = next(it)
                except StopIteration:
                    fin = True
                    break
                ys.append(p)
                yielded.append(p)
                if len(yielded) > limit:
                    raise TooLarge()
            steps.append(([of_prog(p) for p in ys], fin))
    except TooLarge:
        err = "TooLarge"
    except RecursionError:
        err = "RecursionError"
    except Exception as e:  # noqa: the exception class is the observable
        err = type(e).__name__
    return steps, script, err


# --------------------------------------------------------------------------- one case, determinstic family
def stateful(g):
    """decidable classifier of finding C02-F3: the grammar threads a state through the derivation
    (some non-terminal context occurs with two different states), so the non-terminal of an
    argument depends on the arguments before it"""
    by_ctx = {}
    for S in g.rules:
        by_ctx.setdefault((S[0], S[1][0]), set()).add(S[1][1])
    return any(len(v) > 1 for v in by_ctx.values())


def plan_of(case, n_lang):
    """take/merge plan from the case: merges [[pos, j], …] sorted by position"""
    plan = []
    done = 0
    for pos, j in sorted(case.get("merges") or []):
        pos = min(pos, n_lang)
        if pos > done:
            plan.append(("take", pos - done))
            done = pos
        plan.append(("merge", j))
    plan.append(("take", 1000000))
    return plan


def run_det(case, M, tier="quick"):
    """-> dict(trivial=…) or dict with language, implementation run, model run and corr failures"""
    from synth.syntax.grammars.tagged_det_grammar import ProbDetGrammar
    from synth.syntax.grammars.enumeration.heap_search import HeapSearch, BucketSearch
    b = dict(case["build"])
    g = build_grammar(b)
    if g is None:
        return {"trivial": "constructor:" + b.get("_error", "?")}
    if g.start not in g.rules or not g.rules[g.start]:
        return {"trivial": "empty"}
    reorder_rules(g, case["order"], case["oseed"])
    limit = MAX_LANG[tier]
    mode = case["weights"]
    res = None
    for attempt in (mode, "pow2"):
        rng = random.Random(case["wseed"])
        weights = {S: {P: pick_weight(rng, attempt, len(rs)) for P in rs} for S, rs in g.rules.items()}
        try:
            lang = expand_det(g, weights, limit)
        except TooLarge:
            return {"trivial": "too-large"}
        except RecursionError:
            return {"trivial": "cyclic"}
        except Dangling:
            return {"trivial": "dangling-rule(grammar not clean)"}
        if all(exact_float(w) for _, w in lang):
            res = attempt
            break
    if res is None:
        return {"trivial": "inexact-weights"}
    pcfg = ProbDetGrammar(g, {S: {P: float(w) for P, w in ws.items()} for S, ws in weights.items()})
    lang_sorted = sorted(show(p) for p, _ in lang)
    pred = make_filter(case.get("filter"), lang_sorted)
    e = case["enum"]
    thr = Fraction(e.get("threshold", "0"))

    def fresh():
        if e["kind"] == "heap":
            en = HeapSearch(pcfg, float(thr))
        else:
            en = BucketSearch(pcfg, e["size"])
        if pred is not None:
            en.filter = HFilter(pred)
        return en
    en = fresh()
    plan = plan_of(case, len(lang))
    steps, script, err = run_script(en, plan, 4 * limit + 10)
    wire = Wire()
    gw = wire.det(g, weights)
    rejected = [p for p, _ in lang if pred is not None and not pred(p)]
    kindw = [Sym("heap"), frac(thr)] if e["kind"] == "heap" else [Sym("bucket"), e["size"]]
    scriptw = [[Sym("take"), a[1]] if a[0] == "take" else [Sym("merge"), wire.prog(a[1])] for a in script]
    import inspect
    from synth.syntax.grammars.enumeration.heap_search import HSEnumerator
    drops = "not in self.deleted" in inspect.getsource(HSEnumerator.__add_successors__)
    ans = M.ask([Sym("hs.det"), gw, kindw, [wire.prog(p) for p in rejected], scriptw, FUEL, drops])
    corr = []
    out = {"g": g, "weights": weights, "lang": lang, "steps": steps, "script": script, "err": err, "wmode": res, "pred": pred,
           "stateful": stateful(g), "en": en, "wire": wire, "thr": thr, "corr": corr, "model": None, "rejected": rejected,
           "fresh": fresh, "pcfg": pcfg, "drops": drops}
    if ans[0] == "undef":
        if err is None:
            corr.append(("model undefined (fuel or uncaught exception) where the implementation runs", ""))
        return out
    if err is not None:
        corr.append(("implementation raises where the model runs", err))
        return out
    _, msteps, mchains, mheaps, mdeleted = ans
    m_steps = [([show(wire.unprog(p)) for p in ys], fin == "1") for ys, fin in msteps]
    i_steps = [([show(p) for p in ys], fin) for ys, fin in steps]
    out["model"] = m_steps
    if m_steps != i_steps:
        d = next((k for k, (a, c) in enumerate(zip(sum((s[0] for s in i_steps), []), sum((s[0] for s in m_steps), []))) if a != c), None)
        corr.append(("yielded sequence differs from the model", f"first difference at position {d}: impl {sum((s[0] for s in i_steps), [])[d:d+3] if d is not None else [len(x[0]) for x in i_steps]} model {sum((s[0] for s in m_steps), [])[d:d+3] if d is not None else [len(x[0]) for x in m_steps]}"))
    # structural: pop order per non-terminal, heap arrays, deleted set
    i_chains = [[show(of_prog(p)) for p in chain_of(en.succ[S])] for S in g.rules]
    m_chains = [[show(wire.unprog(p)) for p in ch] for ch in mchains]
    if i_chains != m_chains:
        k = next(k for k, (a, c) in enumerate(zip(i_chains, m_chains)) if a != c)
        corr.append(("pop order of a non-terminal differs from the model", f"non-terminal #{k}: impl {i_chains[k][:6]} model {m_chains[k][:6]}"))
    i_heaps = [[show(of_prog(el.program)) for el in en.heaps[S]] for S in g.rules]
    m_heaps = [[show(wire.unprog(el[1])) for el in h] for h in mheaps]
    if i_heaps != m_heaps:
        corr.append(("heap arrays differ from the model", ""))
    if sorted(show(of_prog(p)) for p in en.deleted) != sorted(show(wire.unprog(p)) for p in mdeleted):
        corr.append(("deleted set differs from the model", ""))
    return out


def flat(steps):
    return [p for ys, _ in steps for p in ys]


# --------------------------------------------------------------------------- one case, unambiguous family
def run_u(case, M, tier="quick"):
    from synth.syntax.grammars.tagged_u_grammar import ProbUGrammar
    from synth.syntax.grammars.enumeration.u_heap_search import UHeapSearch, BucketSearch
    b = dict(case["build"])
    g = build_grammar(b)
    if g is None:
        return {"trivial": "constructor:" + b.get("_error", "?")}
    if not g.starts or any(S not in g.rules for S in g.starts):
        return {"trivial": "empty"}
    if case["order"] != "built":
        rng = random.Random(case["oseed"])
        new = {}
        for S, rs in g.rules.items():
            inner = {}
            for P, alts in rs.items():
                alts = list(alts)
                if case["order"] == "reversed":
                    alts.reverse()
                else:
                    rng.shuffle(alts)
                inner[P] = alts
            new[S] = reorder(inner, case["order"], rng)
        g.rules = reorder(new, case["order"], rng)
    starts = list(g.starts)
    limit = MAX_LANG[tier]
    res = None
    for attempt in (case["weights"], "pow2"):
        rng = random.Random(case["wseed"])
        weights = {S: {P: {tuple(v): pick_weight(rng, attempt, sum(len(a) for a in rs.values())) for v in alts} for P, alts in rs.items()}
                   for S, rs in g.rules.items()}
        start_w = {S: pick_weight(rng, attempt, len(starts)) for S in starts}
        try:
            lang = expand_u(g, weights, start_w, limit)
        except TooLarge:
            return {"trivial": "too-large"}
        except RecursionError:
            return {"trivial": "cyclic"}
        if all(exact_float(w) for _, w, _ in lang):
            res = attempt
            break
    if res is None:
        return {"trivial": "inexact-weights"}
    if any(len(set(map(tuple, alts))) != len(alts) for rs in g.rules.values() for alts in rs.values()):
        return {"trivial": "duplicate-alternative"}
    pu = ProbUGrammar(g, {S: {P: {v: float(w) for v, w in d.items()} for P, d in ws.items()} for S, ws in weights.items()},
                      {S: float(w) for S, w in start_w.items()})
    lang_sorted = sorted(show(p) for p, _, _ in lang)
    pred = make_filter(case.get("filter"), lang_sorted)
    e = case["enum"]
    thr = Fraction(e.get("threshold", "0"))

    def fresh():
        if e["kind"] == "heap":
            en = UHeapSearch(pu, float(thr))
        else:
            en = BucketSearch(pu, e["size"])
        if pred is not None:
            en.filter = HFilter(pred)
        return en
    en = fresh()
    plan = plan_of(case, len(lang))
    steps, script, err = run_script(en, plan, 4 * limit + 10)
    wire = Wire()
    gw = wire.ucfg(g, weights, starts, start_w)
    rejected = [p for p, _, _ in lang if pred is not None and not pred(p)]
    kindw = [Sym("heap"), frac(thr)] if e["kind"] == "heap" else [Sym("bucket"), e["size"]]
    scriptw = [[Sym("take"), a[1]] if a[0] == "take" else [Sym("merge"), wire.prog(a[1])] for a in script]
    fixed = hasattr(en, "__push_next_from_start__")
    ans = M.ask([Sym("hs.u"), gw, kindw, [wire.prog(p) for p in rejected], scriptw, FUEL, fixed])
    corr = []
    nstarts_used = len({S for _, _, S in lang})
    out = {"g": g, "weights": weights, "start_w": start_w, "lang": [(p, w) for p, w, _ in lang], "lang_starts": lang, "steps": steps,
           "script": script, "err": err, "wmode": res, "pred": pred, "en": en, "wire": wire, "thr": thr, "corr": corr, "model": None,
           "rejected": rejected, "nstarts": len(starts), "nstarts_used": nstarts_used, "fresh": fresh, "pu": pu, "fixed": fixed,
           "constraints": b.get("_constraints")}
    if ans[0] == "undef":
        if err is None:
            corr.append(("model undefined (fuel or uncaught exception) where the implementation runs", ""))
        return out
    if err is not None:
        corr.append(("implementation raises where the model runs", err))
        return out
    _, msteps, mchains, mheaps, mdeleted, mstart = ans
    m_steps = [([show(wire.unprog(p)) for p in ys], fin == "1") for ys, fin in msteps]
    i_steps = [([show(p) for p in ys], fin) for ys, fin in steps]
    out["model"] = m_steps
    if m_steps != i_steps:
        fi, fm = sum((s[0] for s in i_steps), []), sum((s[0] for s in m_steps), [])
        d = next((k for k, (a, c) in enumerate(zip(fi, fm)) if a != c), None)
        corr.append(("yielded sequence differs from the model", f"first difference at position {d}: impl {fi[d:d+3] if d is not None else len(fi)} model {fm[d:d+3] if d is not None else len(fm)}"))
    i_chains = [[show(of_prog(p)) for p in chain_of(en.succ[S])] for S in g.rules]
    m_chains = [[show(wire.unprog(p)) for p in ch] for ch in mchains]
    if i_chains != m_chains:
        k = next(k for k, (a, c) in enumerate(zip(i_chains, m_chains)) if a != c)
        corr.append(("pop order of a non-terminal differs from the model", f"non-terminal #{k}: impl {i_chains[k][:6]} model {m_chains[k][:6]}"))
    i_heaps = [[show(of_prog(el.program)) for el in en.heaps[S]] for S in g.rules]
    m_heaps = [[show(wire.unprog(el[1])) for el in h] for h in mheaps]
    if i_heaps != m_heaps:
        corr.append(("heap arrays differ from the model", ""))
    if [show(of_prog(el.program)) for el in en._start_heap] != [show(wire.unprog(el[1])) for el in mstart]:
        corr.append(("start heap differs from the model", ""))
    if sorted(show(of_prog(p)) for p in en.deleted) != sorted(show(wire.unprog(p)) for p in mdeleted):
        corr.append(("deleted set differs from the model", ""))
    return out


# --------------------------------------------------------------------------- shared oracles
def run_case(case, M, tier="quick"):
    return run_det(case, M, tier) if case["family"] == "det" else run_u(case, M, tier)


FINDING_IDS = {"C02": {"start-heap": "C02-F2", "stateful": "C02-F3"}, "C03": {"start-heap": "C03-F1", "stateful": "C03-F2"},
               "C12": {"start-heap": "C12-F2", "stateful": "C12-F3", "merge": "C12-F1", "drop-deleted": "C12-F4"}}


def finding_of(case, r, pid="C02"):
    """decidable classifiers of the open findings (functions of the case / its grammar / which
    start_query the implementation has — never of the enumerator's output)"""
    if case["family"] == "det":
        if r.get("stateful"):
            return FINDING_IDS[pid]["stateful"]
        if pid == "C12" and r.get("drops") and (case.get("filter") or case.get("merges")):
            return FINDING_IDS[pid]["drop-deleted"]
        return None
    if not r.get("fixed") and (r.get("nstarts", 1) >= 2 or case["enum"]["kind"] == "bucket"):
        return FINDING_IDS[pid]["start-heap"]
    return None


def bucket_index(size, w):
    """Bucket.add_prob_uniform: 'add 1 in the relevant bucket assuming buckets are linearly
    distributed': index = size - int(w * size) - 1"""
    i = size - int(w * size) - 1
    return i if i >= 0 else i + size


def bucket_of_det(g, weights, size, t):
    """bucket tuple of a program: one count per rule of its derivation (state threaded left to right)"""
    b = [0] * size

    def go(t, S):
        P, kids = t
        args, st = g.rules[S][P]
        b[bucket_index(size, weights[S][P])] += 1
        for a, k in zip(args, kids):
            st = go(k, (a[0], (a[1], st)))
        return st
    go(t, g.start)
    return tuple(b)


def bucket_of_u(g, weights, start_w, size, t, S):
    b = [0] * size

    def go(t, S):
        P, kids = t
        for v in g.rules[S][P]:
            if len(v) == len(kids) and all(derivable_u(g, k, a) for k, a in zip(kids, v)):
                b[bucket_index(size, weights[S][P][tuple(v)])] += 1
                for k, a in zip(kids, v):
                    go(k, a)
                return
        raise KeyError(show(t))
    go(t, S)
    b[bucket_index(size, start_w[S])] += 1
    return tuple(b)


def derivable_u(g, t, S, memo={}):
    P, kids = t
    if S not in g.rules or P not in g.rules[S]:
        return False
    return any(len(v) == len(kids) and all(derivable_u(g, k, a) for k, a in zip(kids, v)) for v in g.rules[S][P])


def base_tags(case, r):
    tags = [case["family"], case["build"]["kind"], "enum:" + case["enum"]["kind"], "weights:" + r.get("wmode", "?"), "order:" + case["order"]]
    if case["enum"].get("threshold", "0") != "0":
        tags.append("threshold")
    n = len(r["lang"])
    tags.append("lang<10" if n < 10 else "lang<100" if n < 100 else "lang<1000" if n < 1000 else "lang>=1000")
    if case["family"] == "u":
        tags.append(f"starts:{min(r['nstarts'], 4)}")
        tags.append("impl:fixed-start-heap" if r.get("fixed") else "impl:start-heap-as-is")
    elif r.get("stateful"):
        tags.append("stateful-ttcfg(C02-F3 region)")
    return tags


def key_of(case):
    import json
    return json.dumps(case, sort_keys=True)


def sample_of(case, r):
    ys = [show(p) for p in flat(r["steps"])]
    return {"family": case["family"], "grammar": case["build"]["kind"], "enumerator": case["enum"], "weights": r.get("wmode"), "order": case["order"],
            "language_size": len(r["lang"]), "yielded": len(ys), "first": ys[:5], "filter": case.get("filter"), "merges": case.get("merges")}


def ntie_groups(lang):
    c = {}
    for _, w in lang:
        c[w] = c.get(w, 0) + 1
    return sum(1 for v in c.values() if v > 1), len(c)


def shrink_case(case):
    """smaller cases: drop merges / filter, simpler enumerator, fewer primitives, smaller bounds"""
    import copy
    if case.get("merges"):
        for j in range(len(case["merges"])):
            c = copy.deepcopy(case)
            del c["merges"][j]
            yield c
    if case.get("filter"):
        c = copy.deepcopy(case)
        c["filter"] = None
        yield c
    b = case["build"]
    if b["src"] == "prims":
        for j in range(len(b["prims"])):
            c = copy.deepcopy(case)
            del c["build"]["prims"][j]
            names = {n for n, _ in c["build"]["prims"]}
            c["build"]["forbidden"] = [[a, k, [x for x in v if x in names]] for a, k, v in b.get("forbidden", []) if a in names]
            yield c
        if b.get("forbidden"):
            c = copy.deepcopy(case)
            c["build"]["forbidden"] = []
            yield c
    for fld in ("max_depth", "max_size"):
        if b.get(fld, 0) > 1:
            c = copy.deepcopy(case)
            c["build"][fld] -= 1
            yield c
    if b.get("nconstraints", 0) > 0:
        c = copy.deepcopy(case)
        c["build"]["nconstraints"] -= 1
        yield c
    if case["order"] != "built":
        c = copy.deepcopy(case)
        c["order"] = "built"
        yield c
    if case["weights"] != "uniform":
        c = copy.deepcopy(case)
        c["weights"] = "uniform"
        yield c
    if case["enum"].get("threshold", "0") != "0":
        c = copy.deepcopy(case)
        c["enum"]["threshold"] = "0"
        yield c
