"""C15 — textual types and programs parse to the objects they denote.

Case kinds
  type   : a random expression of the documented type notation (nesting <= 5, all constructs)
           and a random spacing.  text = the harness' own rendering (must equal the Lean
           `render`), impl = auto_type(text) dumped structurally (class, name, children),
           model = PS.C15.autoTypeText(text), spec = ⟦e⟧ (Lean `denote`), oracle = the harness'
           own denotation written from the English statement (unions as sets).
  tmal   : a malformed type text (unclosed / unmatched bracket, dangling operator, two types
           without operator, restriction of a non-variable, empty, random garbage): must raise
           and never loop; outcome compared with the model.
  prog   : a random DSL (arity 0-3, higher-order arguments, optional polymorphic primitive,
           optional constant types instantiated with values), a type request (0-3 arguments,
           possibly of function type) and a depth: every program (up to a cap) enumerated by
           heap search from CFG.depth_constraint; p -> str(p) -> parse_program -> compare with p
           (own structural dump incl. all types) ; model printer and parser on the same data;
           plus malformed program texts derived from the printed programs.
"""
import itertools
import json
import signal

from harness.sexp import Sym, dump

CASE_TIMEOUT = {"quick": 120, "thorough": 240}

# ------------------------------------------------------------------ type expressions
PRIMS = ["int", "bool", "string", "float", "a", "bb", "x_1", "T2", "unit", "list", "optional", "Int_", "z9"]
VARS = ["a", "b", "key", "t_1", "Z"]
GENERICS = ["list", "set", "tree", "some", "opt_1", "L2"]
OPS = ["*", "=>", "+", "-", "**", "~>", "<", "*-", ",", ":", "=", "/", "&", "^", "%", "$", "#", "@", "!", "?", ".", "<->", "-->", "->>"]


def gen_expr(rng, depth):
    if depth <= 0 or rng.random() < 0.18:
        k = rng.random()
        if k < 0.6:
            return ["prim", rng.choice(PRIMS)]
        return ["var", rng.choice(VARS)]
    k = rng.random()
    if k < 0.30:
        op = "->" if rng.random() < 0.75 else rng.choice(OPS)
        return ["infx", op, gen_expr(rng, depth - 1), gen_expr(rng, depth - 1)]
    if k < 0.50:
        return ["generic", rng.choice(GENERICS), gen_expr(rng, depth - 1)]
    if k < 0.60:
        return ["optional", gen_expr(rng, depth - 1)]
    if k < 0.82:
        return ["union", gen_expr(rng, depth - 1), gen_expr(rng, depth - 1)]
    return ["fvar", rng.choice(VARS), gen_expr(rng, depth - 1)]


def e_depth(e):
    subs = [x for x in e[1:] if isinstance(x, list)]
    return 0 if not subs else 1 + max(e_depth(x) for x in subs)


def e_kinds(e):
    s = {e[0] if e[0] != "infx" else ("arrow" if e[1] == "->" else "infixop")}
    for x in e[1:]:
        if isinstance(x, list):
            s |= e_kinds(x)
    return s


def e_subs(e):
    return [x for x in e[1:] if isinstance(x, list)]


def wire_expr(e):
    return [Sym(e[0])] + [wire_expr(x) if isinstance(x, list) else x for x in e[1:]]


# --- the harness' own reading of the notation -------------------------------------------
LEVEL = {"prim": 3, "var": 3, "fvar": 2, "infx": 0, "generic": 1, "optional": 1, "union": 1}


def toks_at(lvl, e):
    k = e[0]
    if k == "prim":
        body = [("name", e[1])]
    elif k == "var":
        body = [("pvar", e[1])]
    elif k == "fvar":
        body = [("pvar", e[1]), ("brack", toks_at(0, e[2]))]
    elif k == "infx":
        body = toks_at(1, e[2]) + [("op", e[1])] + toks_at(0, e[3])
    elif k == "generic":
        body = toks_at(1, e[2]) + [("name", e[1])]
    elif k == "optional":
        body = toks_at(1, e[1]) + [("name", "optional")]
    else:
        body = toks_at(1, e[1]) + [("bar",)] + toks_at(3, e[2])
    return body if lvl <= LEVEL[k] else [("paren", body)]


def render(e, sp, places=None):
    """text of e; sp[k] blanks at the k-th place where blanks may be written (one more between
    two words).  `places` (optional list) receives the kind of every place: lead (before the
    first token of the text / of a bracketed text), opq (between an operator and a quote),
    mid, trail."""
    pos = [0]
    if places is None:
        places = []

    def nxt():
        v = sp[pos[0]] if pos[0] < len(sp) else 0
        pos[0] += 1
        return v

    def r_list(ts):
        out = []
        prev_word = False
        prev_kind = None
        for j, t in enumerate(ts):
            places.append("lead" if j == 0 else ("opq" if prev_kind == "op" and t[0] == "pvar" else "mid"))
            prev_kind = t[0]
            n = nxt()
            if prev_word and t[0] == "name":
                n += 1
            out.append(" " * n)
            if t[0] == "name":
                out.append(t[1])
            elif t[0] == "pvar":
                out.append("'" + t[1])
            elif t[0] == "op":
                out.append(t[1])
            elif t[0] == "bar":
                out.append("|")
            elif t[0] == "paren":
                out.append("(" + r_list(t[1]) + ")")
            else:
                out.append("[" + r_list(t[1]) + "]")
            prev_word = t[0] in ("name", "pvar")
        places.append("trail")
        out.append(" " * nxt())
        return "".join(out)
    return r_list(toks_at(0, e))


def n_places(e):
    def cnt(ts):
        return 1 + sum(1 + (cnt(t[1]) if t[0] in ("paren", "brack") else 0) for t in ts)
    return cnt(toks_at(0, e))


def members(t):
    return list(t[1:]) if t[0] == "sum" else [t]


def norm(t):
    """canonical form of a dumped type: alternatives of a union as a sorted duplicate-free list"""
    if t[0] in ("p", "poly"):
        return (t[0], t[1])
    if t[0] == "fpoly":
        return ("fpoly", t[1]) + tuple(sorted(set(norm(x) for x in t[2:])))
    if t[0] == "sum":
        return ("sum",) + tuple(sorted(set(norm(x) for x in t[1:])))
    if t[0] == "->":
        return ("->", norm(t[1]), norm(t[2]))
    if t[0] == "g":
        return ("g", t[1]) + tuple(norm(x) for x in t[3:])      # infix flag only matters for printing
    raise ValueError(t)


def denote(e):
    """the object an expression stands for (own reading of the statement): n-ary functions are
    right-nested arrows, `t g` is Generic(g, t), `t optional` is unit | t as a two-element sum,
    `'a[r]` restricts 'a to r, `t | u` is the union of the alternatives of t and u"""
    k = e[0]
    if k == "prim":
        return ["p", e[1]]
    if k == "var":
        return ["poly", e[1]]
    if k == "fvar":
        return ["fpoly", e[1], denote(e[2])]
    if k == "infx":
        a, b = denote(e[2]), denote(e[3])
        return ["->", a, b] if e[1] == "->" else ["g", e[1], True, a, b]
    if k == "generic":
        return ["g", e[1], False, denote(e[2])]
    if k == "optional":
        return ["sum", ["p", "unit"], denote(e[1])]
    a, b = denote(e[1]), denote(e[2])
    return ["sum"] + members(a) + members(b)


# ------------------------------------------------------------------ repo objects <-> wire
def dump_type(t):
    from synth.syntax.type_system import (Arrow, FixedPolymorphicType, Generic, PolymorphicType, PrimitiveType, Sum)
    if isinstance(t, FixedPolymorphicType):
        return ["fpoly", t.name] + [dump_type(x) for x in t.types]
    if isinstance(t, PolymorphicType):
        return ["poly", t.name]
    if isinstance(t, PrimitiveType):
        return ["p", t.type_name]
    if isinstance(t, Sum):
        return ["sum"] + [dump_type(x) for x in t.types]
    if isinstance(t, Arrow):
        return ["->", dump_type(t.type_in), dump_type(t.type_out)]
    if isinstance(t, Generic):
        return ["g", t.name, bool(t.infix)] + [dump_type(x) for x in t.types]
    return ["p", "?" + type(t).__name__]


def wire_type(d):
    return [Sym(d[0])] + [wire_type(x) if isinstance(x, list) else x for x in d[1:]]


def unwire(a):
    """driver answer -> same shape as dump_type / dump_prog (atoms come back as str)"""
    if not isinstance(a, list):
        return a
    h = str(a[0])
    if h == "g":
        return ["g", str(a[1]), a[2] == "1"] + [unwire(x) for x in a[3:]]
    if h in ("p", "poly"):
        return [h, str(a[1])]
    if h == "fpoly":
        return ["fpoly", str(a[1])] + [unwire(x) for x in a[2:]]
    if h == "P":
        return ["P", str(a[1]), unwire(a[2])]
    if h == "V":
        return ["V", int(a[1]), unwire(a[2])]
    if h == "C":
        return ["C", unwire(a[1]), str(a[2]), a[3] == "1"]
    return [h] + [unwire(x) for x in a[1:]]


def res(a):
    """(ok X) -> ("ok", X) ; (err E) -> ("err", E)"""
    return (str(a[0]), unwire(a[1]) if str(a[0]) == "ok" else str(a[1]))


def dump_prog(p):
    from synth.syntax.program import Constant, Function, Primitive, Variable
    if isinstance(p, Function):
        return ["app", dump_prog(p.function)] + [dump_prog(a) for a in p.arguments]
    if isinstance(p, Primitive):
        return ["P", p.primitive, dump_type(p.type)]
    if isinstance(p, Variable):
        return ["V", p.variable, dump_type(p.type)]
    if isinstance(p, Constant):
        return ["C", dump_type(p.type), format(p.value), bool(p.has_value())]
    return ["?", type(p).__name__]


def wire_prog(d):
    if d[0] == "app":
        return [Sym("app")] + [wire_prog(x) for x in d[1:]]
    if d[0] == "P":
        return [Sym("P"), d[1], wire_type(d[2])]
    if d[0] == "V":
        return [Sym("V"), d[1], wire_type(d[2])]
    if d[0] == "C":
        return [Sym("C"), wire_type(d[1]), d[2], bool(d[3])]
    raise ValueError(d)


def own_print(d):
    """independent printer of a dumped program (from the documented format: (f a b))"""
    if d[0] == "app":
        return own_print(d[1]) if len(d) == 2 else "(" + " ".join(own_print(x) for x in d[1:]) + ")"
    if d[0] == "P":
        return d[1]
    if d[0] == "V":
        return "var%d" % d[1]
    return d[2]


class _Hang(Exception):
    pass


def guarded(f, seconds=3):
    """run f(); returns ("ok", value) | ("err", ExceptionClass) | ("hang", None).  Uses ITIMER_REAL
    inside the per-case alarm of run.py (restored afterwards)."""
    def h(signum, frame):
        raise _Hang()
    old = signal.signal(signal.SIGALRM, h)
    remaining = signal.alarm(0)
    signal.setitimer(signal.ITIMER_REAL, seconds)
    try:
        return ("ok", f())
    except _Hang:
        return ("hang", None)
    except RecursionError:
        return ("err", "RecursionError")
    except MemoryError:
        return ("err", "MemoryError")
    except Exception as ex:  # noqa
        return ("err", type(ex).__name__)
    finally:
        signal.setitimer(signal.ITIMER_REAL, 0)
        signal.signal(signal.SIGALRM, old)
        if remaining:
            signal.alarm(remaining)


# ------------------------------------------------------------------ generation
def gen_spacing(rng, n):
    mode = rng.random()
    if mode < 0.15:
        return [0] * n
    if mode < 0.30:
        return [1] * n
    p = rng.choice([0.2, 0.5, 0.8])
    return [(0 if rng.random() > p else rng.choice([1, 1, 1, 2, 3])) for _ in range(n)]


MAL_KINDS = ["unclosed", "unmatched_close", "dangling", "juxta", "brack_nonpoly", "empty", "garbage"]
# kinds on which the statement's "must raise" is known to fail (finding C15-F4)
LENIENT = ("unmatched_close", "dangling")


def gen_tmal(rng):
    e = gen_expr(rng, rng.randint(1, 4))
    text = render(e, gen_spacing(rng, n_places(e)))
    kind = rng.choice(MAL_KINDS)
    if kind == "unclosed":
        idx = [i for i, c in enumerate(text) if c in ")]"]
        if idx:
            i = rng.choice(idx)
            text = text[:i] + text[i + 1:]
        else:
            text = rng.choice(["(", "'a["]) + text
    elif kind == "unmatched_close":
        idx = [i for i, c in enumerate(text) if c in "(["]
        if idx:
            i = rng.choice(idx)
            text = text[:i] + text[i + 1:]
        else:
            text = text + rng.choice([")", "]", " )"])
    elif kind == "dangling":
        text = rng.choice([text + " ->", "-> " + text, text + " |", text + "->", text + " *"])
    elif kind == "juxta":
        e2 = gen_expr(rng, rng.randint(0, 2))
        text = text.rstrip() + " (" + render(e2, []) + ")"
    elif kind == "brack_nonpoly":
        text = rng.choice(["int", "(int -> 'a)", "'a list", "int | 'a"]) + rng.choice(["", " "]) + "[" + text + "]"
    elif kind == "empty":
        text = rng.choice(["", " ", "()", "( )", "  ", "(())"])
    else:
        alphabet = ["(", ")", "[", "]", "|", "->", "'", "a", "int", " ", " ", "list", "*", "_", "1", "optional"]
        text = "".join(rng.choice(alphabet) for _ in range(rng.randint(1, 9)))
    return {"kind": "tmal", "mal": kind, "text": text}


NAMES = ["+", "-", "*", "<=", "0", "1", "2", "nil", "cons", "map", "app", "ite", "neg", "succ", "f", "g", "h",
         "not", "and", "T", "F", "x_1", "len", "comp", "if", "==", "va", "v", "[]", "a.b", "#t", "<int>", "'q"]
BASE = ["int", "bool", "int list"]


def gen_dsl(rng):
    tret = rng.choice(["int", "int", "bool", "int list"])
    n = rng.randint(2, 7)
    names = rng.sample(NAMES, n)
    prims = []
    ho_used = False
    for j, nm in enumerate(names):
        ar = rng.choice([0, 0, 1, 1, 2, 2, 3])
        if j == 0:
            ar = 0
        if j == 1:
            ar = rng.choice([0, 0, 1])
        ret = tret if j == 0 else ("int" if j == 1 else rng.choice(BASE))
        args = []
        for _ in range(ar):
            if not ho_used and rng.random() < 0.2:
                ho_used = True
                args.append("(" + rng.choice(["int -> int", "int -> bool", "int -> int -> int", "bool -> int"]) + ")")
            else:
                args.append(rng.choice(BASE))
        prims.append([nm, " -> ".join(args + [ret])])
    poly = rng.random() < 0.15
    if poly:
        prims.append(rng.choice([["id", "'a -> 'a"], ["eq", "'a -> 'a -> bool"], ["fst", "'a -> 'b -> 'a"],
                                 ["sel", "'a[int | bool] -> 'a[int | bool] -> 'a[int | bool]"]]))
    nargs = rng.choice([0, 1, 1, 2, 2, 3])
    targs = []
    for _ in range(nargs):
        if rng.random() < 0.25:
            targs.append("(" + rng.choice(["int -> int", "int -> int -> int", "bool -> int", "int list -> int"]) + ")")
        else:
            targs.append(rng.choice(BASE))
    tr = " -> ".join(targs + [tret])
    ctypes = []
    cvals = {}
    if rng.random() < 0.4:
        ctypes = ["int"] if rng.random() < 0.7 else ["int", "bool"]
        for ct in ctypes:
            pool = [5, -3, 17, 100, "k1", "ab", 2.5] if ct == "int" else [True, False, "yes"]
            k = rng.randint(1, 3)
            cvals[ct] = rng.sample(pool, min(k, len(pool)))
    return {"kind": "prog", "dsl": prims, "poly": poly, "tr": tr, "depth": rng.randint(2, 4), "ctypes": ctypes,
            "cvals": cvals, "cap": 120, "sub": rng.randrange(1 << 30), "pick": None}


def gen(rng, i, tier):
    m = i % 10
    if m < 5:
        e = gen_expr(rng, rng.randint(1, 5))
        return {"kind": "type", "expr": e, "sp": gen_spacing(rng, n_places(e))}
    if m < 7:
        return gen_tmal(rng)
    c = gen_dsl(rng)
    if tier == "thorough":
        c["cap"] = 250
    return c


def shrink(case):
    if case["kind"] == "type":
        if any(case["sp"]):
            yield dict(case, sp=[0] * len(case["sp"]))
            for j, v in enumerate(case["sp"]):
                if v:
                    s = list(case["sp"])
                    s[j] = 0
                    yield dict(case, sp=s)
        for s in e_subs(case["expr"]):
            n = n_places(s)
            yield {"kind": "type", "expr": s, "sp": [0] * n}
            yield {"kind": "type", "expr": s, "sp": [1] * n}
        e = case["expr"]
        for j, x in enumerate(e):
            if isinstance(x, list):
                for s in e_subs(x):
                    e2 = list(e)
                    e2[j] = s
                    yield {"kind": "type", "expr": e2, "sp": [0] * n_places(e2)}
                    yield {"kind": "type", "expr": e2, "sp": [1] * n_places(e2)}
    elif case["kind"] == "tmal":
        # a shrunk text is no longer malformed by construction: only the outcome comparison
        # and the termination oracle survive (kind "garbage")
        t = case["text"]
        if case.get("_hang"):
            for j in (len(t) - 1, 0):
                if len(t) > 1:
                    yield {"kind": "tmal", "mal": "garbage", "text": t[:j] + t[j + 1:], "_hang": True}
        else:
            for j in range(len(t)):
                yield {"kind": "tmal", "mal": "garbage", "text": t[:j] + t[j + 1:]}
    else:
        if case.get("failing"):
            for f in case["failing"][:3]:
                yield dict(case, pick=[f], failing=None)
        if case.get("pick"):
            for j in range(len(case["dsl"])):
                d = case["dsl"][:j] + case["dsl"][j + 1:]
                if d:
                    yield dict(case, dsl=d)


# ------------------------------------------------------------------ checks
def check_type(case, M):
    from synth.syntax import auto_type
    e = json.loads(json.dumps(case["expr"]))
    sp = list(case["sp"])
    text = render(e, sp)
    ans = M.ask([Sym("c15.expr"), int(strict_impl()), wire_expr(e), sp])
    ltext, lden, lwf, ltoks = str(ans[0]), unwire(ans[1]), ans[2] == "1", res(ans[3])
    if ltext != text:
        raise RuntimeError(f"Lean render and harness render differ: {ltext!r} vs {text!r}")
    want = denote(e)
    if norm(lden) != norm(want):
        raise RuntimeError(f"Lean spec ⟦e⟧ and harness oracle disagree on {text!r}")
    if not lwf:
        raise RuntimeError(f"generated expression is not well-formed for the Lean spec: {e}")
    if ltoks != ("ok", lden):
        raise RuntimeError(f"token-level parser differs from ⟦e⟧ (contradicts theorem C15_type_tokens): {text!r}")
    m = M.ask([Sym("c15.type"), int(strict_impl()), text])
    mchar, mtok = res(m[0]), res(m[1])
    if mchar != mtok:
        raise RuntimeError(f"character-level model and token-level machine differ on {text!r}")
    if mchar != ("ok", lden):
        raise RuntimeError(f"model autoType(render sp e) differs from ⟦e⟧ on {text!r}: {mchar}")
    st, val = guarded(lambda: dump_type(auto_type(text)))
    failures = []
    places = []
    sp = (sp + [0] * n_places(e))[:n_places(e)]
    render(e, sp, places)
    in_f1 = any(k == "lead" and v > 0 for k, v in zip(places, sp))
    in_f2 = any(k == "opq" and v == 0 for k, v in zip(places, sp))

    def passes(sp2):
        s2, v2 = guarded(lambda: dump_type(auto_type(render(e, sp2))))
        return s2 == "ok" and norm(v2) == norm(want)

    def attribute():
        """which pending/open finding explains a failure on this case (decidable region of the
        case + the same expression passes once the region is left)"""
        no_lead = [0 if k == "lead" else v for k, v in zip(places, sp)]
        no_opq = [max(v, 1) if k == "opq" else v for k, v in zip(places, sp)]
        both = [max(v, 1) if k == "opq" else v for k, v in zip(places, no_lead)]
        if in_f1 and passes(no_lead):
            return "C15-F1"
        if in_f2 and passes(no_opq):
            return "C15-F2"
        if in_f1 and in_f2 and passes(both):
            return "C15-F1"
        return None
    if st != "ok" or norm(val) != norm(want):
        fid = attribute()
    if st != "ok":
        failures.append({"kind": "oracle", "what": "auto_type raises on a well-formed type text",
                         "detail": f"text={text!r}: {val or 'does not return'}; expected {lden}"})
        if fid:
            failures[-1]["finding"] = fid
    else:
        if norm(val) != norm(want):
            failures.append({"kind": "oracle", "what": "auto_type returns an object that is not the one denoted",
                             "detail": f"text={text!r} got={val} expected={want}"})
            if fid:
                failures[-1]["finding"] = fid
        elif val != lden:
            failures.append({"kind": "corr", "what": "type object differs structurally from the model (order of union members / infix flag)",
                             "detail": f"text={text!r} got={val} model={lden}"})
    kinds = e_kinds(e)
    d = e_depth(e)
    tags = ["type", f"type.depth{d}"] + [f"type.has-{k}" for k in sorted(kinds)]
    if "  " in text:
        tags.append("type.multi-blank")
    if in_f1:
        tags.append("type.leading-blank")
    if in_f2:
        tags.append("type.op-then-quote")
    if "(" in text:
        tags.append("type.parenthesised")
    return {"key": "type:" + text, "nontrivial": d >= 2 and len(kinds) >= 3, "tags": tags, "failures": failures,
            "sample": {"kind": "type", "text": text, "object": dump(wire_type(lden))}}


def has_unmatched_open(text):
    """some opening bracket of the text has no partner after it (own scan, not the code's)"""
    for i, c in enumerate(text):
        if c in "([":
            close = ")" if c == "(" else "]"
            level = 0
            ok = False
            for d in text[i:]:
                if d == c:
                    level += 1
                elif d == close:
                    level -= 1
                if level == 0:
                    ok = True
                    break
            if not ok:
                return True
    return False


def is_lenient_text(case):
    return case["mal"] in LENIENT and not strict_impl()


_STRICT = None


def strict_impl():
    """does the implementation contain the repair of C15-F4 (fixes_proposed/C15-F4.diff)?  probed at the
    witnesses of the finding; the driver is asked for the same variant of the model (flag `s`)"""
    global _STRICT
    if _STRICT is None:
        from synth.syntax import auto_type
        n = 0
        for t in ("int)", "int ->", "-> int", "int |"):
            try:
                auto_type(t)
            except Exception:  # noqa
                n += 1
        _STRICT = n == 4
    return _STRICT


def check_tmal(case, M):
    import re
    from synth.syntax import auto_type
    text = case["text"]
    m = M.ask([Sym("c15.type"), int(strict_impl()), text])
    mchar = res(m[0])
    mo = (mchar[0], mchar[1] if mchar[0] == "ok" else None)
    st, val = guarded(lambda: dump_type(auto_type(text)), 2)
    io = (st, val if st == "ok" else None)
    failures = []
    must_raise = case["mal"] in ("unclosed", "unmatched_close", "dangling", "juxta", "brack_nonpoly", "empty")

    def pending_fix():
        """a difference from the model (= the code with the proposed repairs F1/F2) is attributed
        to F1 / F2 when it disappears on the same text without blanks after opening brackets
        (resp. with a blank between an operator and a quote); the model maps all three texts to
        the same outcome."""
        t2 = re.sub(r"([(\[])\s+", r"\1", text.strip())
        t3 = re.sub(r"(?<=[^\s(\[])'", " '", t2)
        for t, fid in ((t2, "C15-F1"), (t3, "C15-F2")):
            if t == text:
                continue
            if res(M.ask([Sym("c15.type"), int(strict_impl()), t])[0]) != mchar:
                return None
            s2, v2 = guarded(lambda: dump_type(auto_type(t)), 2)
            if (s2, v2 if s2 == "ok" else None) == mo:
                return fid
        return None
    if st == "hang":
        failures.append({"kind": "oracle", "what": "auto_type does not terminate on a malformed type text",
                         "detail": f"text={text!r} (no result within 2 s); model: {mchar}"})
        case["_hang"] = True
        if has_unmatched_open(text):
            failures[-1]["finding"] = "C15-F3"
    else:
        if st == "ok" and must_raise:
            f = {"kind": "oracle", "what": "auto_type returns an object for a malformed type text instead of raising",
                 "detail": f"text={text!r} ({case['mal']}) returned {val}"}
            if is_lenient_text(case) and mchar[0] == "ok":
                f["finding"] = "C15-F4"
            elif io != mo:
                fid = pending_fix()
                if fid:
                    f["finding"] = fid
            failures.append(f)
        if io != mo:
            f = {"kind": "corr", "what": "outcome on a malformed type text differs from the model",
                 "detail": f"text={text!r} impl={(st, val)} model={mchar}"}
            fid = pending_fix()
            if fid:
                f["finding"] = fid
            failures.append(f)
    tags = ["tmal", "tmal." + case["mal"], "tmal.impl-" + (val if st == "err" else st)]
    return {"key": "tmal:" + text, "nontrivial": len(text.strip()) >= 3, "tags": tags, "failures": failures,
            "sample": {"kind": "tmal", "text": text, "outcome": val if st == "err" else st}}


def build_grammar(case):
    from synth.syntax import CFG, DSL, auto_type
    dsl = DSL(auto_type({n: t for n, t in case["dsl"]}))
    if case["poly"]:
        dsl.instantiate_polymorphic_types()
    tr = auto_type(case["tr"])
    ctypes = {auto_type(c) for c in case["ctypes"]}
    cfg = CFG.depth_constraint(dsl, tr, case["depth"], constant_types=ctypes)
    consts = {}
    if ctypes:
        vals = {auto_type(c): list(v) for c, v in case["cvals"].items()}
        cfg = cfg.instantiate_constants(vals)
        for c, vs in vals.items():
            for v in vs:
                consts[format(v)] = (c, v)
    return dsl, tr, cfg, consts


def mutate_prog_text(rng, text):
    k = rng.randrange(9)
    idx_c = [i for i, c in enumerate(text) if c == ")"]
    idx_o = [i for i, c in enumerate(text) if c == "("]
    idx_b = [i for i, c in enumerate(text) if c == " "]
    if k == 0 and idx_c:
        i = rng.choice(idx_c)
        return text[:i] + text[i + 1:], "drop-close"
    if k == 1 and idx_o:
        i = rng.choice(idx_o)
        return text[:i] + text[i + 1:], "drop-open"
    if k == 2 and idx_b:
        i = rng.choice(idx_b)
        return text[:i] + " " + text[i:], "double-blank"
    if k == 3:
        words = text.split(" ")
        j = rng.randrange(len(words))
        w = words[j]
        core = w.strip("()")
        words[j] = w.replace(core, rng.choice(["zz?", "var99", "varx", "var", "unknown", "var1x"]), 1) if core else w
        return " ".join(words), "unknown-name"
    if k == 4 and idx_c:
        i = rng.choice(idx_c)
        return text[:i] + " " + rng.choice(["var0", "1", "zz"]) + text[i:], "extra-argument"
    if k == 5 and idx_b:
        words = text.split(" ")
        j = rng.randrange(1, len(words))
        w = words.pop(j)
        closes = len(w) - len(w.rstrip(")"))
        if w.startswith("("):
            closes -= 1
        if closes > 0:
            words[j - 1] += ")" * closes
        return " ".join(words), "drop-word"
    if k == 6:
        return "(" + text + ")", "extra-parens"
    if k == 7 and idx_c:
        return text + ")", "extra-close"
    return text + " ", "trailing-blank"


def check_prog(case, M):
    import random as _random
    from synth.syntax.grammars import ProbDetGrammar
    from synth.syntax.grammars.enumeration.heap_search import enumerate_prob_grammar
    failures = []
    tags = ["prog"]
    built = guarded(lambda: build_grammar(case), 60)
    if built[0] != "ok":
        # the grammar constructors are other properties' business (C01/C14/C17)
        return {"key": "prog:" + json.dumps([case["dsl"], case["tr"], case["depth"]]), "nontrivial": False,
                "tags": ["prog", "prog.grammar-not-built-" + str(built[1])], "failures": [], "sample": case["dsl"]}
    dsl, tr, cfg, consts = built[1]
    prims = [[p.primitive, dump_type(p.type)] for p in dsl.list_primitives]
    first = {}
    for n, t in prims:
        first.setdefault(n, t)
    dup_names = len(first) < len(prims)
    wdsl = [[n, wire_type(t)] for n, t in prims]
    wtr = wire_type(dump_type(tr))
    wconsts = [[k, wire_type(dump_type(c)), format(v)] for k, (c, v) in consts.items()]
    try:
        it = enumerate_prob_grammar(ProbDetGrammar.uniform(cfg))
        progs = list(itertools.islice(iter(it), case["cap"] * (8 if case.get("pick") else 1)))
    except Exception as ex:  # noqa  (empty grammars etc.: C01/C02's business)
        progs = []
        tags.append("prog.enumeration-" + type(ex).__name__)
    if case.get("pick"):
        progs = [p for p in progs if str(p) in case["pick"]]
    failing = []
    shapes = set()
    n_f5 = 0
    for p in progs:
        text = str(p)
        dp = dump_prog(p)
        # F5 classifier: some primitive of p is not the first primitive of the DSL with its name
        def shadowed(d):
            if d[0] == "app":
                return any(shadowed(x) for x in d[1:])
            return d[0] == "P" and first.get(d[1]) != d[2]
        hyp_f5 = shadowed(dp)
        # ---- model printer + guards
        a = M.ask([Sym("c15.print"), wdsl, wtr, wconsts, wire_prog(dp)])
        mtext, mtype, good, goodc = str(a[0]), unwire(a[1]), a[2] == "1", a[3] == "1"
        if own_print(dp) != text:
            failures.append({"kind": "oracle", "what": "printed form of a program is not the documented (f a b) form",
                             "detail": f"str(p)={text!r} expected {own_print(dp)!r}"})
            failing.append(text)
        if mtext != text or mtype != dump_type(p.type):
            failures.append({"kind": "corr", "what": "printer / Function type differs from the model",
                             "detail": f"str(p)={text!r} model={mtext!r}; type {dump_type(p.type)} model {mtype}"})
            failing.append(text)
        if good and hyp_f5:
            raise RuntimeError(f"guard goodProg holds but the F5 classifier fires on {text!r}")
        if not good and not hyp_f5:
            tags.append("prog.guard-false-other")
        # ---- model parser
        b = M.ask([Sym("c15.parse"), wdsl, wtr, wconsts, True, text])
        mres, mrtype = res(b[0]), res(b[1])
        if good and goodc and mtext == text and mres != ("ok", dp):
            raise RuntimeError(f"model round trip fails under the guards (contradicts theorem C15_program): {text!r} -> {mres}")
        # ---- implementation
        st, q = guarded(lambda: dsl.parse_program(text, tr, consts), 20)
        if st == "ok":
            dq = dump_prog(q)
            ires = ("ok", dq)
            ok = dq == dp and q == p and dump_type(q.type) == dump_type(p.type) and q.type == p.type
        else:
            ires = ("err", q)
            ok = False
        if not ok:
            f = {"kind": "oracle", "what": "parse_program(str(p)) is not p (or has another type)",
                 "detail": f"p={text!r} type {p.type}; got {ires if st != 'ok' else (str(q), str(q.type))}"}
            if hyp_f5 and (ires[0] == mres[0]) and (ires[0] == "err" or ires == mres):
                f["finding"] = "C15-F5"
                n_f5 += 1
            failures.append(f)
            failing.append(text)
        if (ires[0], ires[1] if ires[0] == "ok" else None) != (mres[0], mres[1] if mres[0] == "ok" else None):
            failures.append({"kind": "corr", "what": "parse_program outcome differs from the model",
                             "detail": f"text={text!r} impl={ires} model={mres}"})
            failing.append(text)
        shapes |= prog_shapes(dp)
        if len(failures) > 6:
            break
    # ---- the printed form follows the object: print, change a constant in place, print again
    from synth.syntax.program import Constant as _Constant, Function as _Function
    n_hist = 0
    for p in progs:
        if n_hist >= 8 or len(failures) > 6:
            break
        if not isinstance(p, _Function):
            continue
        cs = [c for c in p.depth_first_iter() if isinstance(c, _Constant) and c.has_value()]
        if not cs:
            continue
        c = cs[0]
        alts = [(k, v) for k, (t, v) in consts.items() if t == c.type and v != c.value]
        if not alts:
            continue
        n_hist += 1
        old_value = c.value
        before = str(p)
        c.assign(alts[0][1])
        try:
            after = str(p)
            want = own_print(dump_prog(p))
            if after != want:
                failures.append({"kind": "oracle", "what": "printed form does not follow the program after a constant was assigned a new value",
                                 "detail": f"printed {before!r}, then assign({alts[0][1]!r}): str(p)={after!r} expected {want!r}"})
                failing.append(before)
            else:
                st, q = guarded(lambda: dsl.parse_program(after, tr, consts), 20)
                if st != "ok" or not (q == p):
                    f = {"kind": "oracle", "what": "parse_program(str(p)) is not p after a constant was assigned a new value",
                         "detail": f"text={after!r} got {(st, str(q))}"}
                    # same decidable classifier as above: a primitive of p is shadowed by an earlier primitive
                    # of the same name (open finding C15-F5; which instance comes first depends on the hash seed)
                    dpa = dump_prog(p)
                    def shadowed_a(d):
                        if d[0] == "app":
                            return any(shadowed_a(x) for x in d[1:])
                        return d[0] == "P" and first.get(d[1]) != d[2]
                    if shadowed_a(dpa):
                        f["finding"] = "C15-F5"
                    failures.append(f)
                    failing.append(before)
        finally:
            c.assign(old_value)
    if n_hist:
        tags.append("prog.print-assign-print-history")
    # ---- malformed program texts
    rng = _random.Random(case["sub"])
    n_mal = 0
    if progs and not case.get("pick"):
        for _ in range(min(12, len(progs))):
            p = rng.choice(progs)
            text, mk = mutate_prog_text(rng, str(p))
            n_mal += 1
            b = M.ask([Sym("c15.parse"), wdsl, wtr, wconsts, True, text])
            mres = res(b[0])
            st, q = guarded(lambda: dsl.parse_program(text, tr, consts), 20)
            tags.append("pmal." + mk + ("-accepted" if st == "ok" else "-raises"))
            if st == "hang":
                failures.append({"kind": "oracle", "what": "parse_program does not terminate on a malformed text", "detail": repr(text)})
                continue
            if st == "ok":
                dq = dump_prog(q)
                # a single word is read after `strip("()")`: "(1)" is accepted as "1"
                if own_print(dq) != text and not (" " not in text and own_print(dq) == text.strip("()")):
                    failures.append({"kind": "oracle", "what": "parse_program returns a program whose printed form is not the text",
                                     "detail": f"text={text!r} returned {own_print(dq)!r}"})
                ires = ("ok", dq)
            else:
                ires = ("err", None)
            if ires != (mres[0], mres[1] if mres[0] == "ok" else None):
                failures.append({"kind": "corr", "what": "parse_program outcome on a mutated text differs from the model",
                                 "detail": f"text={text!r} ({mk}) impl={(st, q if st != 'ok' else dq)} model={mres}"})
    for s in sorted(shapes):
        tags.append("prog." + s)
    if dup_names:
        tags.append("prog.duplicate-names")
    if consts:
        tags.append("prog.constants-table")
    tags.append(f"prog.depth{case['depth']}")
    out = {"key": "prog:" + json.dumps([prims, case["tr"], case["depth"], sorted(consts), case.get("pick")]),
           "nontrivial": len(progs) >= 3 and "application" in shapes, "tags": tags, "failures": failures[:8],
           "sample": {"kind": "prog", "dsl": case["dsl"], "request": case["tr"], "depth": case["depth"], "programs": len(progs),
                      "first": [str(p) for p in progs[:6]], "malformed": n_mal}}
    # one failure per signature and case (each reported failure is shrunk by the runner)
    seen = set()
    uniq = []
    for f in failures:
        k = (f["kind"], f["what"], f.get("finding"))
        if k not in seen:
            seen.add(k)
            uniq.append(f)
    out["failures"] = uniq
    if failing and not case.get("pick"):
        case["failing"] = failing[:5]
    return out


def prog_shapes(d):
    s = set()
    if d[0] == "app":
        s.add("application")
        head = d[1]
        if head[0] == "V":
            s.add("variable-applied")
        ht = head[2] if head[0] in ("P", "V") else None
        n = 0
        while ht is not None and ht[0] == "->":
            n += 1
            ht = ht[2]
        if len(d) - 2 < n:
            s.add("partial-application")
        s.add(f"arity{len(d) - 2}")
        for x in d[2:]:
            s |= prog_shapes(x)
            if x[0] in ("P", "V") and x[2][0] == "->":
                s.add("function-as-argument")
    elif d[0] == "C":
        s.add("valued-constant")
    elif d[0] == "V":
        s.add("variable")
    return s


def check(case, M):
    if case["kind"] == "type":
        return check_type(case, M)
    if case["kind"] == "tmal":
        return check_tmal(case, M)
    return check_prog(case, M)


def corpus():
    return [
        # C15-F1: blank after an opening parenthesis / at the start
        {"kind": "type", "expr": ["generic", "list", ["prim", "int"]], "sp": [1, 0, 0]},
        {"kind": "type", "expr": ["infx", "->", ["infx", "->", ["generic", "list", ["prim", "int"]], ["prim", "b"]], ["prim", "c"]],
         "sp": [0, 1, 0, 0, 0, 0, 0, 0, 0]},
        # C15-F2: operator directly followed by a type variable
        {"kind": "type", "expr": ["infx", "->", ["prim", "int"], ["var", "a"]], "sp": [0, 0, 0, 0]},
        # C15-F3: unclosed parenthesis used to loop forever
        {"kind": "tmal", "mal": "unclosed", "text": "(int"},
        {"kind": "tmal", "mal": "unclosed", "text": "'a[int | bool"},
        # C15-F4: unmatched closing parenthesis / dangling operator accepted (known finding on a tree without
        # fixes_proposed/C15-F4.diff; must raise on a tree with it)
        {"kind": "tmal", "mal": "unmatched_close", "text": "int)"},
        {"kind": "tmal", "mal": "dangling", "text": "int ->"},
        {"kind": "tmal", "mal": "dangling", "text": "-> int"},
        {"kind": "tmal", "mal": "dangling", "text": "int |"},
        {"kind": "tmal", "mal": "dangling", "text": "-> int list"},
        {"kind": "tmal", "mal": "dangling", "text": "int -> bool *"},
        {"kind": "tmal", "mal": "dangling", "text": "int -> -> int"},
        {"kind": "tmal", "mal": "unmatched_close", "text": "'a[int]] -> (int -> int)) list"},
        # documented examples
        {"kind": "type", "expr": ["infx", "->", ["union", ["prim", "int"], ["prim", "float"]], ["prim", "float"]], "sp": [0, 1, 1, 1, 1, 1, 0]},
        {"kind": "type", "expr": ["infx", "->", ["fvar", "a", ["union", ["prim", "int"], ["prim", "float"]]],
                                  ["fvar", "a", ["union", ["prim", "int"], ["prim", "float"]]]], "sp": [0] * 20},
        # C15-F5 (open): duplicated primitive names after polymorphic instantiation
        {"kind": "prog", "dsl": [["1", "int"], ["t", "bool"], ["id", "'a -> 'a"]], "poly": True, "tr": "bool -> int", "depth": 3,
         "ctypes": [], "cvals": {}, "cap": 60, "sub": 1, "pick": None},
        {"kind": "prog", "dsl": [["+", "int -> int -> int"], ["1", "int"], ["app", "(int -> int) -> int -> int"]], "poly": False,
         "tr": "(int -> int) -> int -> int", "depth": 3, "ctypes": ["int"], "cvals": {"int": [5, -3]}, "cap": 200, "sub": 2, "pick": None},
    ]
