"""C03, part beap — beap search yields programs by non-decreasing cost (non-increasing probability);
when a program of cost c is produced every program of strictly smaller cost has been produced
(finite grammars: whole run and every prefix; recursive grammars: a prefix of N programs).

oracle : exact Fraction cost of every program by walking its derivation in the rule table; all
         programs below a cost bound by bounded expansion of the rule table (harness/enumbeap.py);
         minimal cost of every non-terminal by value iteration (compared with _cost_lists[S][0]
         after _reevaluate_ and with the Lean specification Beap.minCostSpec)
search : enumerate_prob_grammar on random float probabilities spanning 1e-4..1; order and prefix
         completeness asserted on float products of the probabilities with relative tolerance 1e-9
"""
import random
from fractions import Fraction

from harness import enumbeap as B
from harness import enumhs as E
from harness.c02_beap import common_failures

CASE_TIMEOUT = {"quick": 150, "thorough": 600}
TOL = 1e-9        # relative tolerance of the float-cost search (float products carry ~1e-15 per factor)


def gen(rng, i, tier):
    c = B.gen_case(rng, i, tier, "C03")
    if c["family"] != "rec" and not c.get("take") and rng.random() < 0.25:
        c["take"] = rng.choice([1, 2, 3, 5, 8, 13, 30, 100])     # stop early: every prefix length
    return c


def shrink(case):
    return B.shrink_case(case)


@B.deep
def check(case, M):
    tier = case.get("tier", "quick")
    case = dict(case)
    case["merges"] = []
    case["filter"] = None
    r = B.run_case(case, M, tier)
    if "trivial" in r:
        return {"key": B.key_of(case), "nontrivial": False, "tags": ["trivial:" + r["trivial"]], "failures": []}
    if r.get("inconclusive"):
        return {"key": B.key_of(case), "nontrivial": False, "tags": ["inconclusive:" + r["inconclusive"]], "failures": []}
    failures = []
    fid = B.finding_of(case, r, "C03")

    def fail(kind, what, detail):
        f = {"kind": kind, "what": what, "detail": detail}
        if fid:
            f["finding"] = fid.get("other") if isinstance(fid, dict) else fid
        failures.append(f)
    common_failures(case, r, failures)
    g, costs = r["g"], r["costs"]
    ys = B.flat(r["steps"])
    Y = [E.show(p) for p in ys]
    seq = [B.cost_of(g, costs, t, g.start) for t in ys]
    complete = None
    if r["err"] is None and all(c is not None for c in seq):
        bad = next((k for k in range(1, len(seq)) if seq[k] < seq[k - 1]), None)
        if bad is not None:
            fail("oracle", "a program is yielded after a more expensive (less probable) one", f"position {bad}: {Y[bad]} (cost {seq[bad]}) after {Y[bad-1]} (cost {seq[bad-1]})")
        if seq:
            top = max(seq)
            try:
                if r["lang"] is not None:
                    owed = {E.show(p) for p, c in r["lang"] if c < top}
                else:
                    owed = {E.show(t) for t, _ in B.below(g, costs, g.start, top, 200000)}
                miss = sorted(owed - set(Y))
                if miss:
                    fail("oracle", "a strictly cheaper (more probable) program was not yielded before", f"{len(miss)} e.g. {miss[:3]} (cost < {top})")
                complete = not miss
            except (E.TooLarge, RecursionError):
                complete = None
    if case.get("fseed") is not None and not failures:
        float_search(case, r, fail)
    ties, ncost = B.ntie_groups(seq)
    tags = B.base_tags(case, r)
    if ties:
        tags.append("ties")
    if r["cyclic"]:
        tags.append("prefix-complete" if complete else "prefix-completeness-not-checked(too large)" if complete is None else "prefix-incomplete")
        deep = any(mc is not None and all(mc < costs[S][P] for P, (args, _) in g.rules[S].items() if not args) for S, mc in r["mc"].items())
        if deep:
            tags.append("cheapest-program-of-a-non-terminal-is-an-application")
    nontrivial = len(seq) >= 10 and ncost >= 2 and ties >= 1
    return {"key": B.key_of(case), "nontrivial": nontrivial, "tags": tags, "failures": failures, "sample": B.sample_of(case, r)}


def prob_of(g, probs, t, S):
    P, kids = t
    if S not in g.rules or P not in g.rules[S] or len(g.rules[S][P][0]) != len(kids):
        return None
    w = float(probs[S][P])
    for a, k in zip(g.rules[S][P][0], kids):
        q = prob_of(g, probs, k, B.nt_of(a))
        if q is None:
            return None
        w *= q
    return w


def float_search(case, r, fail):
    rng = random.Random(case["fseed"])
    g = r["g"]
    probs = B.float_probs(case, g, rng)
    n = case.get("take") or (len(r["lang"]) + 5)
    ys, err = B.float_run(g, probs, n)
    if err is not None:
        return      # C02's business
    qs = [prob_of(g, probs, t, g.start) for t in ys]
    if any(q is None for q in qs):
        return
    for k in range(1, len(qs)):
        if qs[k] > qs[k - 1] * (1 + TOL):
            fail("oracle", "a program is yielded after a less probable one (float costs)", f"position {k}: {E.show(ys[k])} ({float(qs[k])}) after {E.show(ys[k-1])} ({float(qs[k-1])})")
            return
    if not qs:
        return
    low = min(qs)
    if low <= 1e-290:
        return      # the float product underflows: no statement
    Y = {E.show(t) for t in ys}
    # prefix completeness: every program of probability > low (1 + tol) was produced
    try:
        if r["lang"] is not None:
            owed = [p for p, _ in r["lang"] if prob_of(g, probs, p, g.start) > low * (1 + TOL)]
        else:
            owed = above(g, probs, g.start, low * (1 + TOL), 30000)
    except (E.TooLarge, RecursionError):
        return
    miss = sorted(E.show(p) for p in owed if E.show(p) not in Y)
    if miss:
        fail("oracle", "a strictly more probable program was not yielded before (float costs)", f"{len(miss)} e.g. {miss[:3]}")


def above(g, probs, S, bound, limit):
    """all programs from S of probability > bound (every probability < 1): the programs of cost
    -log p below -log bound, by the bounded expansion of enumbeap.below on float costs"""
    import math
    fc = {S2: {P: -math.log(p) for P, p in ps.items()} for S2, ps in probs.items()}
    return [t for t, _ in B.below(g, fc, S, -math.log(bound), limit)]


def corpus():
    return [
        # the grammar of seeded/C03-2/demo.py: X -> p(Y) | m(X,Z) | a, Y -> q(Z) | b, Z -> r(X) | c with the cheapest
        # programs of Y and Z going through the recursive rules
        {"family": "tbl", "build": {"table": [["X", [["p", ["Y"]], ["m", ["X", "Z"]], ["a", []]]], ["Y", [["q", ["Z"]], ["b", []]]], ["Z", [["r", ["X"]], ["c", []]]]], "acyclic": False},
         "order": "built", "oseed": 0, "costs": "skewed", "wseed": 1, "filter": None, "merges": [], "take": 200, "fseed": 2},
        {"family": "rec", "build": {"dsl": 3, "n_gram": 2}, "order": "built", "oseed": 0, "costs": "skewed", "wseed": 7, "filter": None, "merges": [], "take": 100, "fseed": 5},
        {"family": "fin", "build": {"src": "testdsl", "request": ["->", "int", "int"], "kind": "cfg", "max_depth": 3, "min_var": 1, "n_gram": 2},
         "order": "built", "oseed": 0, "costs": "dyadic", "wseed": 3, "filter": None, "merges": [], "take": None, "fseed": 3},
    ]
