"""C19 — prediction layers turn any tensor into a normalised, consistent grammar.

A case = one layer (DetGrammarPredictorLayer over CFGs or UGrammarPredictorLayer over UCFGs,
1-3 grammars of one DSL sharing an abstraction function, a variable probability), one type
request, one tensor (zeros / normal x {1,10,80} / one-hot extremes / explicit), the flag
total_variable_order, and a few programs (sampled by the harness from the rule tables, plus
some that are not in the grammar).

impl   : the real layer: tables (all_pairs, abs2index, real2abs, all_starts_abs),
         tensor2log_prob_grammar, to_prob_det_grammar / to_prob_u_grammar, log_probability, encode
model  : PS/Model/Predictor.lean on Float (driver op c19.run), fed the rule tables, the n-gram
         component of every non-terminal, the iteration order of the sets all_pairs[key]
         (hash dependent) and the tensor as IEEE bit patterns
spec   : Lean: specNorm / specVarMass (what the theorems C19_norm/C19_varmass say), derivation
         steps, indicator vector, product of converted weights along the derivation
oracle : this file, written from the English statement: weights positive and finite, sums to 1
         (exactly: 1 - eps*(m(m-1)/2 + c*m) with the documented 1e-7 ordering trick), variable and
         constant mass = variable_probability when other rules exist, start weights sum to 1,
         weight of a primitive rule = re-normalised softmax of the tensor entries that `encode`
         marks for the rules of that non-terminal, exp(log_probability t) = to_prob grammar
         .probability(t) = product of converted rule weights along the derivation found by the
         harness' own tree-recursive derivation (and = start weight x that product: with several
         start symbols this last identity fails by the start weight, open known finding C04-F1,
         listed here as C19-F1; classifier: the grammar has more than one start symbol), encode t = indicator of the primitive rules of that derivation; the slice
         table is a bijection between (abstraction, primitive) pairs and tensor positions.
Tolerances (float32 tensors, float64 model): per tag 1e-4 abs/rel (variable/constant tags, float64
on both sides: 1e-9), sums 1e-5, encode exact; for tensors with max|x| > 80 (3% of the cases use
scale 400 / 1000) both tolerances are multiplied by max|x|/80 (float32 ulp), and when the spread
max(x)-min(x) or max|x| exceeds 700 only the property oracle is evaluated and its failures carry
the listed open finding C19-F3 (float64 exp underflow).
"""
import json
import math
import random
import struct
import warnings

from harness.sexp import Sym

CASE_TIMEOUT = {"quick": 60, "thorough": 120}
EPS = 1e-7          # the constant of the ordering trick (det_grammar_predictor.py:198, u:236)
TAG_TOL = 1e-4
SUM_TOL = 1e-5

DSLS = {
    "arith": {"+": "int -> int -> int", "neg": "int -> int", "1": "int", "0": "int"},
    "mixed": {"+": "int -> int -> int", "1": "int", "not": "bool -> bool", "ite": "bool -> int -> int -> int",
              "T": "bool", "lt": "int -> int -> bool"},
    "opaque": {"+": "int -> int -> int", "1": "int", "f": "A -> int", "g": "A -> A -> int", "h": "A -> B -> int"},
    "ho": {"+": "int -> int -> int", "1": "int", "app": "(int -> int) -> int -> int", "inc": "int -> int"},
}
TREQS = {
    "arith": ["int", "int -> int", "int -> int -> int", "int -> int -> int -> int"],
    "mixed": ["int -> int", "bool -> int", "bool -> int -> int", "int -> bool", "int -> bool -> bool -> int"],
    "opaque": ["A -> int", "A -> A -> int", "int -> A -> int", "A -> B -> int", "A -> A -> A -> int", "int -> int"],
    "ho": ["(int -> int) -> int -> int", "int -> int", "(int -> int) -> int"],
}
CONSTRAINTS = {"arith": ["(+ ^+ _)", "(neg ^neg)", "(+ _ ^0)"], "mixed": ["(+ ^+ _)", "(not ^not)"],
               "opaque": ["(+ ^+ _)"], "ho": ["(+ ^+ _)", "(inc ^inc)"]}
VS = [0.05, 0.2, 0.5, 0.9]


# ------------------------------------------------------------------ generation
def gen(rng, i, tier):
    kind = rng.choice(["det", "u", "u"])
    dsl = rng.choice(list(DSLS))
    ng = rng.choice([1, 1, 2, 2, 3])
    grammars = []
    for _ in range(ng):
        g = {"treq": rng.choice(TREQS[dsl]), "depth": rng.choice([2, 3, 3, 4]), "minvar": rng.choice([1, 1, 1, 2]),
             "ngram": rng.choice([1, 2, 2, 2, 2, 3]), "consts": rng.random() < 0.3, "mode": "plain"}
        if kind == "u":
            r = rng.random()
            if r < 0.3:
                g["mode"] = "dfta"
                g["constraint"] = rng.choice(CONSTRAINTS[dsl])
                g["depth"] = min(g["depth"], 3)
            elif r < 0.6:
                g["mode"] = "multistart"
                g["nstarts"] = rng.choice([2, 3])
                g["startseed"] = rng.randrange(1 << 30)
        grammars.append(g)
    tt = rng.choice(["zeros", "normal", "normal", "normal", "onehot", "onehot", "uniform"])
    tensor = {"type": tt, "seed": rng.randrange(1 << 30), "scale": rng.choice([1, 10, 80]),
              "sign": rng.choice([1, -1]), "hot": rng.randrange(1 << 16)}
    malformed = None
    if rng.random() < 0.04:
        malformed = rng.choice(["short", "long", "empty"])
    elif rng.random() < 0.03 and tt != "zeros":
        tensor["scale"] = rng.choice([400, 1000])     # float64 exp underflows: known finding C19-F3
    return {"kind": kind, "abs": rng.choice(["bigram", "bigram", "presence"]), "v": rng.choice(VS), "dsl": dsl,
            "grammars": grammars, "which": rng.randrange(ng), "tvo": rng.random() < 0.6, "tensor": tensor,
            "nprogs": rng.choice([1, 2, 3, 4]), "progseed": rng.randrange(1 << 30), "malformed": malformed}


def shrink(case):
    if case.get("nprogs", 0) > 1:
        yield dict(case, nprogs=case["nprogs"] - 1)
    if len(case["grammars"]) > 1:
        for j in range(len(case["grammars"])):
            if j != case["which"]:
                gs = case["grammars"][:j] + case["grammars"][j + 1:]
                yield dict(case, grammars=gs, which=case["which"] - (1 if j < case["which"] else 0))
    if case["tensor"]["type"] != "zeros":
        yield dict(case, tensor=dict(case["tensor"], type="zeros"))
    if case["tvo"]:
        yield dict(case, tvo=False)
    g = case["grammars"][case["which"]]
    for key, val in (("consts", False), ("minvar", 1), ("ngram", 2)):
        if g.get(key) != val:
            gs = list(case["grammars"])
            gs[case["which"]] = dict(g, **{key: val})
            yield dict(case, grammars=gs)
    if g["depth"] > 2:
        gs = list(case["grammars"])
        gs[case["which"]] = dict(g, depth=g["depth"] - 1)
        yield dict(case, grammars=gs)
    if case["abs"] != "presence":
        yield dict(case, abs="presence")


def corpus():
    ms = {"treq": "int -> int", "depth": 3, "minvar": 1, "ngram": 2, "consts": False, "mode": "multistart", "nstarts": 2, "startseed": 1}
    z = {"type": "zeros", "seed": 0, "scale": 1, "sign": 1, "hot": 0}
    return [
        # C19-F1 (= C04-F1): several start symbols, the start weight is not part of log_probability / probability
        {"kind": "u", "abs": "bigram", "v": 0.2, "dsl": "arith", "grammars": [ms], "which": 0, "tvo": False, "tensor": z,
         "nprogs": 2, "progseed": 3, "malformed": None},
        {"kind": "u", "abs": "presence", "v": 0.5, "dsl": "arith", "grammars": [dict(ms, mode="dfta", constraint="(+ ^+ _)")], "which": 0,
         "tvo": True, "tensor": dict(z, type="normal", scale=10), "nprogs": 3, "progseed": 5, "malformed": None},
        # non-terminals with only variables (two of them: ordering trick in the all-variables branch)
        {"kind": "det", "abs": "bigram", "v": 0.9, "dsl": "opaque", "grammars": [dict(ms, mode="plain", treq="A -> A -> int")], "which": 0,
         "tvo": True, "tensor": dict(z, type="onehot", scale=80), "nprogs": 3, "progseed": 7, "malformed": None},
        # C19-F2: a variable used as a function with two alternatives
        {"kind": "u", "abs": "presence", "v": 0.2, "dsl": "ho", "grammars": [dict(ms, mode="dfta", treq="(int -> int) -> int", constraint="(+ ^+ _)")], "which": 0,
         "tvo": False, "tensor": z, "nprogs": 2, "progseed": 11, "malformed": None},
        # shared slices across type requests + constants
        {"kind": "det", "abs": "presence", "v": 0.05, "dsl": "mixed", "grammars": [dict(ms, mode="plain", treq="bool -> int", consts=True),
                                                                                 dict(ms, mode="plain", treq="int -> int")], "which": 1,
         "tvo": True, "tensor": dict(z, type="normal", scale=80), "nprogs": 3, "progseed": 9, "malformed": None},
    ]


# ------------------------------------------------------------------ helpers
def f2b(x):
    return struct.unpack("<Q", struct.pack("<d", float(x)))[0]


def b2f(n):
    return struct.unpack("<d", struct.pack("<Q", int(n)))[0]


def sexp(t):
    try:
        return math.exp(t)
    except OverflowError:
        return math.inf


def close(a, b, tol=TAG_TOL):
    if a == b:
        return True
    if not (math.isfinite(a) and math.isfinite(b)):
        return False
    return abs(a - b) <= tol * max(1.0, abs(a), abs(b))


def dp_wire(P):
    from synth.syntax.program import Primitive, Variable, Constant
    if isinstance(P, Primitive):
        return (Sym("p"), f"{P.primitive}:{P.type}")
    if isinstance(P, Variable):
        return (Sym("v"), f"var{P.variable}:{P.type}")
    if isinstance(P, Constant):
        return (Sym("c"), f"cst:{P.type}")
    raise TypeError(P)


def dp_key(w):
    """canonical hashable form of a DP that came from either side"""
    return (str(w[0]), str(w[1]))


def abs_wire(a):
    if a is None:
        return Sym("none")
    return [list(dp_wire(a[0])), int(a[1])]


def abs_key(a):
    """canonical key of an abstraction value from the wire (or from abs_wire)"""
    if a == "none" or a is None:
        return None
    return (dp_key(a[0]), int(a[1]))


def build_grammars(case):
    from synth.syntax import DSL, auto_type
    from synth.syntax.grammars.cfg import CFG
    from synth.syntax.grammars.u_cfg import UCFG
    dsl = DSL(auto_type(dict(DSLS[case["dsl"]])))
    out = []
    for g in case["grammars"]:
        tr = auto_type(g["treq"])
        kw = dict(min_variable_depth=g["minvar"], n_gram=g["ngram"])
        if g["consts"]:
            kw["constant_types"] = {auto_type("int")}
        cfg = CFG.depth_constraint(dsl, tr, g["depth"], **kw)
        if case["kind"] == "det":
            out.append(cfg)
            continue
        if g["mode"] == "dfta":
            from synth.filter.constraints.dfta_constraints import add_dfta_constraints
            try:
                d = add_dfta_constraints(cfg, [g["constraint"]], progress=False)
                u = UCFG.from_DFTA_with_ngrams(d, 2)
                if len(u.rules) == 0 or len(u.starts) == 0:
                    raise ValueError("empty")
            except Exception:
                u = UCFG.from_CFG(cfg, True)
            out.append(u)
        elif g["mode"] == "multistart":
            base = UCFG.from_CFG(cfg, True)
            (s0,) = list(base.starts)
            cands = [S for S in base.rules if S[0] == s0[0] and S != s0]
            r = random.Random(g["startseed"])
            r.shuffle(cands)
            starts = {s0} | set(cands[: g["nstarts"] - 1])
            out.append(UCFG(starts, {S: dict(v) for S, v in base.rules.items()}, clean=True))
        else:
            out.append(UCFG.from_CFG(cfg, True))
    return out


def ngram_of(kind, S):
    """the n-gram component of a non-terminal: CFG (type, ((ngram, depth), None)); UCFG (type, (ngram, x))"""
    from synth.syntax.grammars.grammar import NGram
    ng = S[1][0][0] if kind == "det" else S[1][0]
    assert isinstance(ng, NGram), S
    return list(ng.predecessors)


def make_tensor(spec, n, malformed):
    r = random.Random(spec["seed"])
    t = spec["type"]
    if t == "zeros":
        xs = [0.0] * n
    elif t == "normal":
        xs = [r.gauss(0, 1) * spec["scale"] for _ in range(n)]
        if spec["scale"] <= 80:
            xs = [max(-80.0, min(80.0, t)) for t in xs]
    elif t == "uniform":
        xs = [r.uniform(-1, 1) * spec["scale"] for _ in range(n)]
    elif t == "onehot":
        xs = [0.0] * n
        if n:
            hot = spec["hot"] % n
            xs[hot] = float(spec["sign"] * spec["scale"])
            if n > 1 and r.random() < 0.5:
                xs[(hot + 1 + r.randrange(n - 1)) % n] = -float(spec["sign"] * spec["scale"])
    elif t == "explicit":
        xs = list(spec["values"])
    else:
        raise ValueError(t)
    if malformed == "short":
        xs = xs[: max(0, n - 1 - r.randrange(3))]
    elif malformed == "long":
        xs = xs + [r.gauss(0, 1) for _ in range(1 + r.randrange(3))]
    elif malformed == "empty":
        xs = []
    return xs


class Tables:
    """rule tables of the grammars in harness form (numbers for non-terminals, wire DPs)"""

    def __init__(self, kind, grammars):
        self.kind = kind
        self.nt_id = {}
        self.nts = []
        self.dp_obj = {}
        self.grams = []
        for g in grammars:
            rules = []
            starts = [g.start] if kind == "det" else list(g.starts)
            for S in g.rules:
                row = []
                for P, rhs in g.rules[S].items():
                    w = dp_wire(P)
                    self.dp_obj[dp_key(w)] = P
                    if kind == "det":
                        alts = [[self.nid(a) for a in self._det_args(rhs)]]
                    else:
                        alts = [[self.nid(a) for a in alt] for alt in rhs]
                    row.append((w, alts))
                rules.append((self.nid(S), row))
            self.grams.append({"treq": str(g.type_request), "starts": [self.nid(S) for S in starts], "rules": rules, "obj": g})

    def _det_args(self, rhs):
        args, state = rhs
        # CFG: the next non-terminal of argument (type, s) is (type, (s, state)) with state None
        return [(a[0], (a[1], state)) for a in args]

    def nid(self, S):
        if S not in self.nt_id:
            self.nt_id[S] = len(self.nts) + 1
            self.nts.append(S)
        return self.nt_id[S]


def wire_prog(t):
    if t[0] == "L":
        return list(t[1])
    return [Sym("A"), list(t[1])] + [wire_prog(a) for a in t[2]]


def prog_str(t):
    if t[0] == "L":
        return t[1][1].split(":")[0]
    return "(" + " ".join([t[1][1].split(":")[0]] + [prog_str(a) for a in t[2]]) + ")"


def to_repo_prog(t, dp_obj):
    from synth.syntax.program import Function
    P = dp_obj[dp_key(t[1])]
    if t[0] == "L":
        return P
    return Function(P, [to_repo_prog(a, dp_obj) for a in t[2]])


def sample_prog(rng, rules, S, budget=40):
    """top-down random program from non-terminal S using the rule tables (harness' own sampler)"""
    row = rules.get(S)
    if not row:
        return None
    for _ in range(6):
        w, alts = row[rng.randrange(len(row))]
        if not alts:
            continue
        alt = alts[rng.randrange(len(alts))]
        if not alt:
            return ("L", w)
        if budget <= 0:
            continue
        kids = [sample_prog(rng, rules, a, budget - len(alt)) for a in alt]
        if all(k is not None for k in kids):
            return ("A", w, kids)
    leaves = [w for w, alts in row if any(len(a) == 0 for a in alts)]
    return ("L", leaves[rng.randrange(len(leaves))]) if leaves else None


def derive_tree(rules, S, t):
    """harness' own derivations (tree recursive, the textbook reading): the list of all
    derivations of t from S, each a list of (S, P, alternative) steps in pre-order."""
    row = rules.get(S)
    if row is None:
        return []
    key = dp_key(t[1])
    kids = t[2] if t[0] == "A" else []
    out = []
    for w, alts in row:
        if dp_key(w) != key:
            continue
        for alt in alts:
            if len(alt) != len(kids):
                continue
            partial = [[(S, key, tuple(alt))]]
            for a, k in zip(alt, kids):
                subs = derive_tree(rules, a, k)
                partial = [p + sub for p in partial for sub in subs]
                if not partial:
                    break
            out += partial
    return out


def mutate_prog(rng, t, all_dps):
    """a program that is probably not in the grammar: replace one node's symbol / drop or add an argument"""
    r = rng.random()
    if t[0] == "L":
        return ("L", all_dps[rng.randrange(len(all_dps))])
    if r < 0.3:
        return ("A", t[1], t[2][:-1]) if len(t[2]) > 1 else ("L", t[1])
    if r < 0.5:
        return ("A", t[1], t[2] + [t[2][0]])
    j = rng.randrange(len(t[2]))
    return ("A", t[1], t[2][:j] + [mutate_prog(rng, t[2][j], all_dps)] + t[2][j + 1:])


def outcome(fn):
    try:
        return ("ok", fn())
    except Exception as e:  # noqa
        return ("err", type(e).__name__)


# ------------------------------------------------------------------ check
def check(case, M):
    import numpy as np
    import torch
    from synth.nn import abstractions as ABS
    from synth.nn.det_grammar_predictor import DetGrammarPredictorLayer
    from synth.nn.u_grammar_predictor import UGrammarPredictorLayer
    from synth.syntax.program import Primitive, Variable, Constant

    kind = case["kind"]
    isu = kind == "u"
    v = float(case["v"])
    tvo = bool(case["tvo"])
    failures = []

    extreme = [False]

    def fail(k, what, detail, finding=None):
        if extreme[0]:
            # outside the float range of the model (its plain log-sum-exp overflows): only the
            # property oracle is evaluated, and its failures belong to the listed finding C19-F3
            if k != "oracle":
                return
            finding = "C19-F3"
        f = {"kind": k, "what": what, "detail": str(detail)[:600]}
        if finding:
            f["finding"] = finding
        if not any(g["what"] == what for g in failures):
            failures.append(f)

    grammars = build_grammars(case)
    T = Tables(kind, grammars)
    absname = {"det": {"bigram": "cfg_bigram_without_depth", "presence": "primitive_presence"},
               "u": {"bigram": "ucfg_bigram", "presence": "primitive_presence"}}[kind][case["abs"]]
    absf = getattr(ABS, absname)
    Layer = UGrammarPredictorLayer if isu else DetGrammarPredictorLayer
    layer = Layer(4, grammars, absf, v)
    which = case["which"]
    treq = T.grams[which]["obj"].type_request
    # `grammar_dictionary = {g.type_request: g for g in grammars}`: the last grammar of that type request
    G = [g for g in T.grams if g["obj"].type_request == treq][-1]
    gobj = G["obj"]

    # ---- harness' own abstraction of every non-terminal (from the English: parent primitive and
    #      argument index = most recent element of the n-gram; presence = nothing)
    infos = {}
    for S, sid in T.nt_id.items():
        try:
            infos[sid] = ngram_of(kind, S)
        except Exception:
            infos[sid] = []

    def habs(sid):
        if case["abs"] == "presence" or not infos[sid]:
            return None
        p, i = infos[sid][0]
        return (dp_key(dp_wire(p)), int(i))

    # ---- implementation tables
    impl_pairs = [(abs_key(abs_wire(k)), [dp_key(dp_wire(P)) for P in s]) for k, s in layer.all_pairs.items()]
    impl_index = [(abs_key(abs_wire(k)), int(a), int(b), {dp_key(dp_wire(P)): int(i) for P, i in d.items()})
                  for k, (a, b, d) in layer.abs2index.items()]
    impl_real2abs = {T.nt_id[S]: abs_key(abs_wire(a)) for S, a in layer.real2abs.items()}
    impl_startsabs = [abs_key(abs_wire(a)) for a in layer.all_starts_abs] if isu else []
    n = int(layer.output_size)

    xs = make_tensor(case["tensor"], n, case.get("malformed"))
    x32 = torch.tensor(xs, dtype=torch.float32)
    xs = [float(t) for t in x32.tolist()]
    # decidable classifier of the known finding C19-F3: the spread of the tensor exceeds what
    # float64 exp can represent (exp(-745) == 0); |x| > 700 is included because the model's plain
    # log-sum-exp overflows there (the implementation has no failure when the spread is small)
    # float32 rounding of the log-softmax values grows linearly with the magnitude of the entries:
    # the stated tolerances hold for |x| <= 80 and are scaled by max|x|/80 beyond
    mag = max([abs(t) for t in xs] + [0.0])
    fscale = max(1.0, mag / 80.0)
    TAG_TOL_ = TAG_TOL * fscale
    SUM_TOL_ = SUM_TOL * fscale
    extreme[0] = bool(xs) and (max(xs) - min(xs) > 700.0 or max(abs(t) for t in xs) > 700.0)

    # ---- programs
    prng = random.Random(case["progseed"])
    rules_map = {sid: row for sid, row in G["rules"]}
    all_dps = sorted({dp_key(w) for _, row in G["rules"] for w, _ in row})
    all_dps = [(Sym(a), b) for a, b in all_dps]
    progs = []
    for _ in range(case["nprogs"]):
        s0 = G["starts"][prng.randrange(len(G["starts"]))]
        t = sample_prog(prng, rules_map, s0)
        if t is None:
            continue
        if prng.random() < 0.25:
            t = mutate_prog(prng, t, all_dps)
        progs.append(t)

    # ---- model
    req = [Sym("c19.run"), Sym(kind), Sym(case["abs"]), f2b(v), f2b(EPS), tvo,
           [[g["treq"], g["starts"], [[sid] + [[list(w)] + alts for w, alts in row] for sid, row in g["rules"]]] for g in T.grams],
           [[sid] + [[list(dp_wire(p)), int(i)] for p, i in ng] for sid, ng in infos.items()],
           [[abs_wire(k), [list(dp_wire(P)) for P in s]] for k, s in layer.all_pairs.items()],
           str(treq), [f2b(t) for t in xs], [wire_prog(t) for t in progs]]
    ans = M.ask(req)
    A = {str(item[0]): item[1:] for item in ans}
    ml = {str(item[0]): item[1:] for item in A["layer"][0]}

    # ---- 1. layer tables: model vs implementation (structural) and the bijection oracle
    m_pairs = [(abs_key(e[0]), [dp_key(p) for p in e[1]]) for e in ml["allpairs"]]
    if [k for k, _ in m_pairs] != [k for k, _ in impl_pairs] or any(set(a[1]) != set(b[1]) or len(b[1]) != len(set(b[1])) for a, b in zip(m_pairs, impl_pairs)):
        fail("corr", "all_pairs differs from the model", f"impl={impl_pairs} model={m_pairs}")
    m_index = [(abs_key(e[0]), int(e[1]), int(e[2]), {dp_key(z[0]): int(z[1]) for z in e[3]}) for e in ml["abs2index"]]
    if m_index != impl_index:
        fail("corr", "abs2index differs from the model", f"impl={impl_index} model={m_index}")
    if int(ml["outsize"][0]) != n:
        fail("corr", "output_size differs from the model", f"impl={n} model={ml['outsize'][0]}")
    if [abs_key(a) for a in ml["startsabs"]] != impl_startsabs:
        fail("corr", "all_starts_abs differs from the model", f"impl={impl_startsabs} model={ml['startsabs']}")
    if {int(e[0]): abs_key(e[1]) for e in ml["real2abs"]} != impl_real2abs:
        fail("corr", "real2abs differs from the model", "")
    # oracle: positions <-> (abstraction, primitive) pairs, computed with the harness' abstraction
    want_pairs = {}
    for g in T.grams:
        for sid, row in g["rules"]:
            want_pairs.setdefault(habs(sid), set())
            for w, _ in row:
                if str(w[0]) == "p":
                    want_pairs[habs(sid)].add(dp_key(w))
    pos = {}
    for k, a, b, d in impl_index:
        for p, i in d.items():
            pos.setdefault(a + i, []).append((k, p))
    npairs = sum(len(s) for s in want_pairs.values())
    got_pairs = {k: set(d) for k, _, _, d in impl_index}
    if got_pairs != want_pairs or sorted(pos) != list(range(npairs)) or any(len(z) != 1 for z in pos.values()) \
            or n != npairs + len(impl_startsabs) or any(not (0 <= i < b) for _, _, b, d in impl_index for i in d.values()):
        fail("oracle", "slice table is not a bijection between (abstraction, primitive) pairs and tensor positions",
             f"abs2index={impl_index} expected pairs={ {k: sorted(s) for k, s in want_pairs.items()} } output_size={n}")
    for sid, a in impl_real2abs.items():
        if a != habs(sid):
            fail("oracle", "abstraction of a non-terminal is not its parent (primitive, argument index)", f"nt={T.nts[sid - 1]} impl={a} expected={habs(sid)}")
            break
    if isu:
        want_sa = []
        for g in T.grams:
            for s in g["starts"]:
                if habs(s) not in want_sa:
                    want_sa.append(habs(s))
        if sorted(map(str, want_sa)) != sorted(map(str, impl_startsabs)) or len(set(map(str, impl_startsabs))) != len(impl_startsabs):
            fail("oracle", "all_starts_abs is not the set of abstractions of the start symbols", f"impl={impl_startsabs} expected={want_sa}")

    def position(sid, p):
        a = impl_real2abs.get(sid)
        for k, st, ln, d in impl_index:
            if k == a and p in d:
                return st + d[p]
        return None

    # ---- 2. tensor2log_prob_grammar
    with warnings.catch_warnings():
        warnings.simplefilter("ignore")
        res = outcome(lambda: layer.tensor2log_prob_grammar(x32.clone(), treq, total_variable_order=tvo))
    tags_l = A.get("tags", [["err"]])
    model_err = (tags_l[0] == "err") if "grammar" not in A else True
    tagsum = {}
    ntags = {"variable-with-several-alternatives": False, "only-variables": False, "vars+prims": False, "consts": False, "shared-slice": False}
    if res[0] == "err":
        if not model_err:
            fail("corr", "tensor2log_prob_grammar raises where the model returns a grammar", f"{res[1]} tensor length {len(xs)} output_size {n}")
        lg = None
    elif model_err:
        fail("corr", "tensor2log_prob_grammar returns a grammar where the model fails (KeyError/IndexError)", f"tensor length {len(xs)} output_size {n}")
        lg = None
    else:
        lg = res[1]
    if not bool(int(A.get("wf", [1])[0])):
        raise RuntimeError("rule tables sent to the model are not well-formed dicts")

    specs = {int(e[0]): (int(e[1]), int(e[2]), int(e[3]), b2f(e[4]), b2f(e[5]), bool(int(e[6]))) for e in A.get("nts", [])}
    nonfinite = False
    ambiguous = False
    if lg is not None and not case.get("malformed"):
        # flatten both sides to {(sid, P, alt): tag}
        def flat_impl(tags):
            out = {}
            for S, d in tags.items():
                for P, w in d.items():
                    if isu:
                        for alt, t in w.items():
                            out[(T.nt_id[S], dp_key(dp_wire(P)), tuple(T.nt_id[a] for a in alt))] = float(t.item() if hasattr(t, "item") else t)
                    else:
                        out[(T.nt_id[S], dp_key(dp_wire(P)), ())] = float(w.item() if hasattr(w, "item") else w)
            return out

        def flat_model(tl):
            out = {}
            for e in tl:
                sid = int(e[0])
                for d in e[1:]:
                    if isu:
                        for z in d[1:]:
                            out[(sid, dp_key(d[0]), tuple(int(a) for a in z[0]))] = b2f(z[1])
                    else:
                        out[(sid, dp_key(d[0]), ())] = b2f(d[1])
            return out

        it = flat_impl(lg.tags)
        mt = flat_model(A["tags"][0])
        if set(it) != set(mt):
            fail("corr", "tagged rules differ from the model", f"only impl={sorted(set(it) - set(mt))[:3]} only model={sorted(set(mt) - set(it))[:3]}")
        else:
            for k in it:
                # variable/constant tags are float64 on both sides (numpy / Lean Float): tight tolerance,
                # primitive tags come from a float32 log_softmax
                if not close(it[k], mt[k], 1e-9 if k[1][0] in ("v", "c") else TAG_TOL_):
                    fail("corr", "tag differs from the model", f"rule {T.nts[k[0] - 1]} -> {k[1]} {k[2]}: impl={it[k]!r} model={mt[k]!r}")
                    break
        # expected structure: every alternative of every rule is tagged
        want_keys = set()
        for sid, row in G["rules"]:
            for w, alts in row:
                for alt in alts:
                    want_keys.add((sid, dp_key(w), tuple(alt) if isu else ()))
        if set(it) != want_keys:
            fail("oracle", "not every rule of the grammar carries a tag", f"missing={sorted(want_keys - set(it))[:3]} extra={sorted(set(it) - want_keys)[:3]}")
        # oracle per non-terminal
        for sid, row in G["rules"]:
            ks = [k for k in it if k[0] == sid]
            if not ks:
                continue
            # number of tagged variable / constant rules (U: alternatives)
            m = sum(len(alts) for w, alts in row if str(w[0]) == "v")
            c = sum(len(alts) for w, alts in row if str(w[0]) == "c")
            if any(len(alts) > 1 for w, alts in row if str(w[0]) in ("v", "c")):
                ntags["variable-with-several-alternatives"] = True
            prim = [dp_key(w) for w, alts in row if str(w[0]) == "p" and alts]
            K = (m * (m - 1) // 2 + c * m) if tvo else 0
            want_sum = 1.0 - EPS * K
            want_var = (v if prim else 1.0) - EPS * K
            sm, sc, snp, ssum, svar, shyp = specs[sid]
            if (sm, sc) != (m, c) or abs(ssum - want_sum) > 1e-12 or (m + c > 0 and abs(svar - want_var) > 1e-12):
                raise RuntimeError(f"Lean spec and harness oracle disagree on the normalisation values: {specs[sid]} vs {(m, c, want_sum, want_var)}")
            if not shyp:
                raise RuntimeError("hypothesis m*eps < p of C19_norm is false on a generated case")
            if m + c > 0 and not prim:
                ntags["only-variables"] = True
            if m + c > 0 and prim:
                ntags["vars+prims"] = True
            if c:
                ntags["consts"] = True
            vals = [it[k] for k in ks]
            if any(not math.isfinite(t) for t in vals):
                nonfinite = True
                fail("oracle", "non-finite tag", f"nt={T.nts[sid - 1]} tags={vals[:6]}")
                continue
            ws = [sexp(t) for t in vals]
            if any(not (w > 0) for w in ws):
                fail("oracle", "a rule weight is not positive", f"nt={T.nts[sid - 1]} weights={ws[:6]}")
            s = math.fsum(ws)
            tagsum[sid] = s
            if abs(s - want_sum) > SUM_TOL_:
                fail("oracle", "rule weights of a non-terminal do not sum to 1", f"nt={T.nts[sid - 1]} sum={s} expected={want_sum} (m={m} c={c} tvo={tvo})")
            if m + c > 0:
                sv = math.fsum(sexp(it[k]) for k in ks if k[1][0] in ("v", "c"))
                if abs(sv - want_var) > SUM_TOL_:
                    fail("oracle", "variables and constants do not receive variable_probability", f"nt={T.nts[sid - 1]} mass={sv} expected={want_var} other rules exist={bool(prim)}")
            # model vs spec (theorems C19_norm / C19_varmass on Float, up to rounding)
            ms_ = ssum if extreme[0] else math.fsum(sexp(mt[k]) for k in mt if k[0] == sid)
            if abs(ms_ - ssum) > 1e-9:
                raise RuntimeError(f"model contradicts C19_norm beyond rounding: {ms_} vs {ssum}")
            # closed form: re-normalised softmax of the entries that encode marks
            if prim:
                ps = [position(sid, p) for p in prim]
                if any(p is None or p >= len(xs) for p in ps):
                    fail("oracle", "a primitive rule has no position in the tensor", f"nt={T.nts[sid - 1]}")
                else:
                    mx = max(xs[p] for p in ps)
                    nalt = {dp_key(w): (len(alts) if isu else 1) for w, alts in row}
                    den = math.fsum(nalt[q] * sexp(xs[p] - mx) for p, q in zip(ps, prim))
                    for p, q in zip(ps, prim):
                        want = math.log(1 - v if m + c > 0 else 1.0) + (xs[p] - mx) - math.log(den)
                        for k in ks:
                            if k[1] == q and not close(it[k], want, TAG_TOL_):
                                fail("oracle", "weight of a primitive rule is not the re-normalised softmax of the tensor entries that encode marks for its non-terminal",
                                     f"nt={T.nts[sid - 1]} rule={q} tag={it[k]} expected={want}")
                                break
        # start tags
        if isu:
            ist = {T.nt_id[S]: float(t.item()) for S, t in lg.start_tags.items()}
            mst = {int(e[0]): b2f(e[1]) for e in A["starttags"][0]}
            if set(ist) != set(mst) or any(not close(ist[k], mst[k], TAG_TOL_) for k in ist):
                fail("corr", "start tags differ from the model", f"impl={ist} model={mst}")
            if set(ist) != set(G["starts"]):
                fail("oracle", "start tags are not defined exactly on the start symbols", f"{sorted(ist)} vs {sorted(G['starts'])}")
            elif any(not math.isfinite(t) for t in ist.values()):
                fail("oracle", "non-finite start tag", str(ist))
            else:
                if abs(math.fsum(sexp(t) for t in ist.values()) - 1.0) > SUM_TOL_:
                    fail("oracle", "start weights do not sum to 1", str(ist))
                zs = {s: xs[n - len(impl_startsabs) + impl_startsabs.index(habs(s))] for s in ist if habs(s) in impl_startsabs}
                if len(zs) == len(ist):
                    mx = max(zs.values())
                    den = math.fsum(sexp(z - mx) for z in zs.values())
                    for s in ist:
                        if not close(ist[s], zs[s] - mx - math.log(den), TAG_TOL_):
                            fail("oracle", "start weight is not the softmax of the start entries of the tensor", f"start={T.nts[s - 1]} tag={ist[s]}")
                            break

        # ---- 3. conversion
        with warnings.catch_warnings():
            warnings.simplefilter("ignore")
            pres = outcome(lambda: lg.to_prob_u_grammar() if isu else lg.to_prob_det_grammar())
        if pres[0] == "err":
            fail("oracle", "conversion to a probabilistic grammar raises", pres[1])
            pg = None
        else:
            pg = pres[1]
            ip = flat_impl(pg.tags)
            mp = flat_model(A["prob"][0])
            if set(ip) != set(mp) or any(not close(ip[k], mp[k], TAG_TOL_) for k in ip):
                bad = next((k for k in ip if k not in mp or not close(ip[k], mp[k], TAG_TOL_)), None)
                fail("corr", "converted probability differs from the model", f"{bad}: impl={ip.get(bad)} model={mp.get(bad)}")
            for sid, row in G["rules"]:
                ws = [ip[k] for k in ip if k[0] == sid]
                if not ws:
                    continue
                if any(not (math.isfinite(w) and w > 0) for w in ws):
                    fail("oracle", "a converted weight is not positive and finite", f"nt={T.nts[sid - 1]} {ws[:6]}")
                    continue
                want = 1.0 if isu else specs[sid][3]
                if abs(math.fsum(ws) - want) > SUM_TOL_:
                    fail("oracle", "converted weights of a non-terminal do not sum to 1", f"nt={T.nts[sid - 1]} sum={math.fsum(ws)}")
                for k in ip:
                    if k[0] == sid and k in it and not close(ip[k], sexp(it[k]) / (tagsum.get(sid, 1.0) if isu else 1.0), 1e-6 * fscale):
                        fail("oracle", "converted weight is not exp(tag)", f"{k}: {ip[k]} vs exp({it[k]})")
                        break
            if isu:
                isp = {T.nt_id[S]: float(t) for S, t in pg.start_tags.items()}
                msp = {int(e[0]): b2f(e[1]) for e in A["startprob"][0]}
                if set(isp) != set(msp) or any(not close(isp[k], msp[k], TAG_TOL_) for k in isp):
                    fail("corr", "converted start probability differs from the model", f"impl={isp} model={msp}")
                if abs(math.fsum(isp.values()) - 1.0) > SUM_TOL_ or any(not (w > 0) for w in isp.values()):
                    fail("oracle", "converted start weights are not positive summing to 1", str(isp))

        # ---- 4. programs: log_probability and encode
        mprogs = A.get("progs", [])
        kept_enc = []      # (program, tensor returned by encode, its content when it was returned)
        for j, t in enumerate(progs):
            mp_ = mprogs[j]
            m_lp, m_prob, m_enc, m_nder, m_steps, m_ind, m_w, m_wraw = mp_
            rp = to_repo_prog(t, T.dp_obj)
            # harness' own derivations (from every start symbol)
            ders = [(s0, d) for s0 in G["starts"] for d in derive_tree(rules_map, s0, t)]
            der = ders[0][1] if len(ders) == 1 else None
            der_start = ders[0][0] if len(ders) == 1 else None
            if len(ders) > 1:
                ambiguous = True
            with warnings.catch_warnings():
                warnings.simplefilter("ignore")
                ilp = outcome(lambda: float(lg.log_probability(rp).item()))
                raw_enc = outcome(lambda: layer.encode(rp, treq))
                ienc = outcome(lambda: [int(z) for z in raw_enc[1].tolist()]) if raw_enc[0] == "ok" else raw_enc
                if ienc[0] == "ok":
                    kept_enc.append((t, raw_enc[1], list(ienc[1])))
                iprob = outcome(lambda: float(pg.probability(rp))) if pg is not None else ("err", "no converted grammar")
            # model vs spec (theorems C19_encode, C19_consistent)
            if isu and int(m_nder[1]) != len(ders):
                raise RuntimeError(f"model finds {m_nder[1]} derivations where the harness finds {len(ders)}: {prog_str(t)}")
            if der is not None:
                if m_enc == "err" or [int(z) for z in m_enc[1]] != [int(z) for z in m_ind]:
                    raise RuntimeError(f"model encode differs from the indicator of the model derivation (contradicts C19_encode): {prog_str(t)}")
                if int(m_nder[1]) != 1:
                    raise RuntimeError(f"model finds {m_nder[1]} derivations where the harness finds one: {prog_str(t)}")
                msteps = [(int(s[0]), dp_key(s[1])) for s in m_steps]
                if msteps != [(s, p) for s, p, _ in der]:
                    raise RuntimeError(f"Lean derivation and harness derivation disagree on {prog_str(t)}: {msteps} vs {der}")
                if not extreme[0]:
                    # theorems C19_consistent_det / C19_consistent_u (+ C19_consistent_u_partial for one start)
                    mtol = 1e-6 + len(der) * 3e-6
                    if m_lp == "err" or m_w == "err":
                        raise RuntimeError(f"model has no log-probability / derivation weight on {prog_str(t)}: {m_lp} {m_w}")
                    if isu and not close(sexp(b2f(m_lp[1])), b2f(m_prob[1]), mtol):
                        raise RuntimeError(f"model contradicts C19_consistent_u on {prog_str(t)}: {m_lp} {m_prob}")
                    if (not isu or len(G["starts"]) == 1) and not close(sexp(b2f(m_lp[1])), b2f(m_w[1]), mtol):
                        raise RuntimeError(f"model contradicts C19_consistent(_partial) on {prog_str(t)}: {m_lp} {m_w}")
            # correspondence
            if ienc[0] == "err":
                if m_enc != "err":
                    fail("corr", "encode raises where the model returns a vector", f"{prog_str(t)}: {ienc[1]}")
            elif m_enc == "err":
                fail("corr", "encode returns a vector where the model fails", prog_str(t))
            elif ienc[1] != [int(z) for z in m_enc[1]]:
                fail("corr", "encode differs from the model", f"{prog_str(t)}: impl={ienc[1]} model={m_enc[1]}")
            lp_model = None if m_lp == "err" else b2f(m_lp[1])
            if ilp[0] == "err":
                if lp_model is not None:
                    fail("corr", "log_probability raises where the model returns a value", f"{prog_str(t)}: {ilp[1]}")
            elif lp_model is None:
                fail("corr", "log_probability returns a value where the model fails", prog_str(t))
            elif not close(ilp[1], lp_model, TAG_TOL_ * max(1, len(ders[0][1]) if ders else 1)):
                fail("corr", "log_probability differs from the model", f"{prog_str(t)}: impl={ilp[1]} model={lp_model}")
            if isu and iprob[0] == "ok" and m_prob not in ("err", "na") and not close(iprob[1], b2f(m_prob[1]), TAG_TOL_ * max(1, len(ders[0][1]) if ders else 1)):
                fail("corr", "probability of the converted grammar differs from the model", f"{prog_str(t)}: impl={iprob[1]} model={b2f(m_prob[1])}")
            # oracle (programs of the grammar only)
            if der is None or pg is None:
                continue
            want_enc = [0] * n
            okpos = True
            for s, p, _ in der:
                if p[0] == "p":
                    q = position(s, p)
                    if q is None or q >= n:
                        okpos = False
                    else:
                        want_enc[q] = 1
            if ienc[0] == "err" or not okpos or ienc[1] != want_enc:
                fail("oracle", "encode does not mark exactly the primitive rules of the derivation", f"{prog_str(t)}: encode={ienc[1]} expected={want_enc}")
            if ilp[0] == "err":
                fail("oracle", "log_probability raises on a program of the grammar", f"{prog_str(t)}: {ilp[1]}")
                continue
            try:
                wstart = float(pg.start_tags[T.nts[der_start - 1]]) if isu else 1.0
                wrule = 1.0
                for s, p, alt in der:
                    d = pg.tags[T.nts[s - 1]][T.dp_obj[p]]
                    wrule *= float(d[tuple(T.nts[a - 1] for a in alt)]) if isu else float(d)
            except Exception as e:  # noqa
                fail("oracle", "the converted grammar has no weight for a rule of the derivation", f"{prog_str(t)}: {type(e).__name__}")
                continue
            tol = (1e-4 + len(der) * 3e-6) * fscale
            elp = sexp(ilp[1])

            def same(a, b):
                return close(a, b, tol) or (a < 1e-300 and b < 1e-300)
            # the statement as the coordinator reads it: what the converted grammar's own probability() returns
            if iprob[0] == "err" or not same(elp, iprob[1]):
                fail("oracle", "exp(log_probability) differs from to_prob grammar .probability(program)",
                     f"{prog_str(t)}: exp(log_probability)={elp} probability={iprob[1]} (starts={len(G['starts'])})")
            if not same(elp, wrule):
                fail("oracle", "exp(log_probability) differs from the product of the converted rule weights along the derivation",
                     f"{prog_str(t)}: exp(log_probability)={elp} product of rule weights={wrule}")
            # the distribution including the start symbols: fails by the start weight when there are
            # several start symbols — open known finding C04-F1, listed for this property as C19-F1
            if not same(elp, wstart * wrule):
                multi = isu and len(G["starts"]) > 1        # the decidable hypothesis of C19_consistent_u_partial
                fail("oracle", "exp(log_probability) differs from the probability of the derivation including the start weight",
                     f"{prog_str(t)}: exp(log_probability)={elp} start weight x product of rule weights={wstart * wrule} (starts={len(G['starts'])})",
                     finding="C19-F1" if multi else None)

        # ---- 5. history independence of encode: a vector returned earlier still says what it said when it was returned
        # (loss_mse keeps the encodings of a whole batch before stacking them)
        for t, tens, at_return in kept_enc:
            now = outcome(lambda: [int(z) for z in tens.tolist()])
            if now[0] == "err" or now[1] != at_return:
                fail("oracle", "the vector returned by encode for one program changed after another program was encoded",
                     f"{prog_str(t)}: when returned={at_return} after {len(kept_enc)} calls={now[1]}")
                break
        if len(kept_enc) >= 2:
            ntags["encode-history"] = True

    # ---- tags / key / sample
    nst = len(G["starts"])
    shared = len({g["treq"] for g in T.grams}) > 1
    tags = [f"kind.{kind}", f"abs.{case['abs']}", f"v.{case['v']}", f"dsl.{case['dsl']}", f"tensor.{case['tensor']['type']}" + (f".x{case['tensor']['scale']}" if case['tensor']['type'] != 'zeros' else ''),
            f"grammars.{len(grammars)}", f"tvo.{int(tvo)}"]
    if isu:
        tags.append("starts.1" if nst == 1 else "starts.2+")
        if any(len(alts) > 1 for _, row in G["rules"] for _, alts in row):
            tags.append("u.several-alternatives")
    for k, b in ntags.items():
        if b:
            tags.append("nt." + k)
    if shared:
        tags.append("several-type-requests-share-slices")
    if case.get("malformed"):
        tags.append("malformed." + case["malformed"])
    if any(not any(derive_tree(rules_map, s0, t) for s0 in G["starts"]) for t in progs):
        tags.append("has-program-outside-grammar")
    if ambiguous:
        tags.append("u.program-with-several-derivations(skipped by the oracle)")
    if nonfinite:
        tags.append("non-finite")
    if extreme[0]:
        tags.append("tensor.spread>700(known finding C19-F3 region, oracle only)")
    key = json.dumps([kind, case["abs"], case["v"], case["dsl"], case["grammars"], which, tvo, [round(t, 4) for t in xs[:40]], [prog_str(t) for t in progs]], sort_keys=True)
    return {"key": key, "nontrivial": lg is not None and len(G["rules"]) >= 2 and len(progs) >= 1 and not case.get("malformed"),
            "tags": tags, "failures": failures,
            "sample": {"layer": f"{Layer.__name__}({absname}, v={v})", "type_requests": [g["treq"] for g in T.grams], "asked": str(treq),
                       "output_size": n, "tensor": [round(t, 3) for t in xs[:12]], "total_variable_order": tvo,
                       "programs": [prog_str(t) for t in progs], "sums": [round(s, 9) for s in list(tagsum.values())[:6]]}}
