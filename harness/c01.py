"""C01 — a depth-bounded grammar denotes exactly the well-typed programs of its DSL.

impl   : CFG.depth_constraint / CFG.infinite / UCFG.depth_constraint on a random DSL syntax
model  : PS.G.ruleSet / buildTable / programs / contains / gen  (driver ops c01.*)
spec   : PS.G.wt / wtTerms with the true parent visible (the property's statement)
oracle : harness.oracle.TypedTerms (independent Python reading of the statement)
verified checker: the implementation's *actual* rule table is sent to the driver, which
         evaluates PS.G.tableOK on it; theorem C01_certified says that a table passing this
         check has exactly the language `wt`, with every rule reachable and productive.
"""
import json

from harness import gen as G
from harness import wire as W
from harness.oracle import TypedTerms, term_str
from harness.sexp import Sym

CASE_TIMEOUT = {"quick": 120, "thorough": 600}
MAX_LANG = {"quick": 3000, "thorough": 20000}


def _tt(t):
    return tuple(_tt(x) for x in t) if isinstance(t, list) else t


def gen(rng, i, tier):
    syn = G.random_syntax(rng)
    req = G.random_request(rng, syn)
    case = {
        "prims": syn["prims"], "forbidden": [[k[0], k[1], v] for k, v in syn["forbidden"].items()],
        "request": req,
        "max_depth": rng.choice([1, 2, 2, 3, 3, 3, 4, 4] + ([5] if tier == "thorough" else [])),
        "min_var": rng.choice([0, 0, 1, 1, 1, 2]),
        "n_gram": rng.choice([2, 2, 2, 2, 3, 1, 0, -1]),
        "recursive": rng.random() < 1 / 6,
        "const_types": [b for b in syn["bases"] if rng.random() < 0.25],
        "mode": rng.choice(["depth", "depth", "depth", "infinite"]),
        "nseed": rng.randrange(1 << 30),
    }
    if case["mode"] == "infinite" and case["n_gram"] < 0:
        case["n_gram"] = 2      # unbounded contexts without a depth bound: infinitely many non-terminals
    if case["n_gram"] < 0:
        case["max_depth"] = min(case["max_depth"], 3)
    # keep the language small enough to enumerate
    while case["max_depth"] > 1:
        tt = TypedTerms([(n, _tt(t)) for n, t in case["prims"]], {}, _tt(req), case["max_depth"], case["min_var"],
                        [_tt(t) for t in case["const_types"]], case["recursive"])
        if tt.count() <= MAX_LANG[tier]:
            break
        case["max_depth"] -= 1
    return case


def shrink(case):
    for j in range(len(case["prims"])):
        c = dict(case)
        c["prims"] = case["prims"][:j] + case["prims"][j + 1:]
        names = {n for n, _ in c["prims"]}
        c["forbidden"] = [[a, b, [x for x in v if x in names]] for a, b, v in case["forbidden"] if a in names]
        yield c
    for j in range(len(case["forbidden"])):
        c = dict(case)
        c["forbidden"] = case["forbidden"][:j] + case["forbidden"][j + 1:]
        yield c
    if case["max_depth"] > 1:
        c = dict(case)
        c["max_depth"] -= 1
        yield c
    if case["const_types"]:
        c = dict(case)
        c["const_types"] = []
        yield c
    if case["recursive"]:
        c = dict(case)
        c["recursive"] = False
        yield c


def to_repo(t, prim_objs, var_types):
    from synth.syntax.program import Constant, Function, Primitive, Variable
    h, args = t
    if h[0] == "P":
        head = prim_objs.get(h[1]) or Primitive(h[1], W.tt_repo(h[2]))
    elif h[0] == "V":
        head = Variable(h[1], W.tt_repo(h[2]))
    else:
        head = Constant(W.tt_repo(h[1])) if h[2] == "" else Constant(W.tt_repo(h[1]), h[2], True)
    if not args:
        return head
    return Function(head, [to_repo(a, prim_objs, var_types) for a in args])


def term_wire(t):
    h, args = t
    if h[0] == "P":
        hw = [Sym("P"), h[1], W.tt_wire(h[2])]
    elif h[0] == "V":
        hw = [Sym("V"), h[1], W.tt_wire(h[2])]
    else:
        hw = [Sym("C"), W.tt_wire(h[1]), h[2]]
    return [Sym("A"), hw] + [term_wire(a) for a in args]


def neighbours(rng, terms, tt, prims, limit):
    """mutated terms around the language: head swapped, argument dropped / duplicated,
    leaf replaced by a deeper term, variable moved, forbidden child inserted"""
    out = []
    heads = [("P", n, t) for n, t in prims] + [("V", i, a) for i, a in enumerate(tt.args)]
    leaves = [(h, []) for h in heads]
    pool = terms if len(terms) <= 200 else rng.sample(terms, 200)

    def positions(t, path=()):
        yield path
        for i, a in enumerate(t[1]):
            yield from positions(a, path + (i,))

    def replace(t, path, new):
        if not path:
            return new
        h, args = t
        args = list(args)
        args[path[0]] = replace(args[path[0]], path[1:], new)
        return (h, args)

    def at(t, path):
        for i in path:
            t = t[1][i]
        return t
    for t in pool:
        if len(out) >= limit:
            break
        pos = list(positions(t))
        p = rng.choice(pos)
        sub = at(t, p)
        k = rng.randrange(5)
        if k == 0:
            new = (rng.choice(heads), sub[1])
        elif k == 1 and sub[1]:
            new = (sub[0], sub[1][:-1])
        elif k == 2 and sub[1]:
            new = (sub[0], sub[1] + [sub[1][-1]])
        elif k == 3:
            new = rng.choice(pool)
        else:
            new = rng.choice(leaves)
        out.append(replace(t, p, new))
    return out


def expand_rules(cfg, limit):
    """language of the implementation's rule table by exhaustive top-down expansion of
    cfg.rules (no use of the membership test, the counters or the enumerators)"""
    import itertools
    memo = {}

    def go(S):
        if S in memo:
            return memo[S]
        memo[S] = None  # cycle guard
        out = []
        for P, (args, _) in cfg.rules[S].items():
            subs = []
            ok = True
            for a in args:
                nS = (a[0], (a[1], None))
                r = go(nS) if nS in cfg.rules else []
                if r is None:
                    raise RecursionError("cyclic rule table")
                subs.append(r)
                if not r:
                    ok = False
                    break
            if not ok:
                continue
            for combo in itertools.product(*subs):
                out.append((P, list(combo)))
                if len(out) > limit:
                    raise OverflowError
        memo[S] = out
        return out

    def show(t):
        P, args = t
        return str(P) if not args else "(" + " ".join([str(P)] + [show(a) for a in args]) + ")"
    return sorted(show(t) for t in go(cfg.start))


def lang_shape(tt):
    """From the oracle alone (no use of the implementation): shape of the UNBOUNDED language of
    well-typed terms described by `tt` (a TypedTerms with a huge depth bound and min_var 0):
    (finite?, has_application?, size or None).  States are (forbidden set, type); a state is
    useful if it is productive and reachable from the start through rules whose arguments are
    all productive; the language is finite iff no useful state reaches itself."""
    start = (tt.forb(None), tt.ret)
    rules = {}
    todo = [start]
    while todo:
        s = todo.pop()
        if s in rules:
            continue
        rs = []
        for h, a in tt.heads(0, s[0], s[1]):
            kids = [(tt.forb((h, i)), at) for i, at in enumerate(a)]
            rs.append(kids)
            todo.extend(kids)
        rules[s] = rs
    prod = set()
    changed = True
    while changed:
        changed = False
        for s, rs in rules.items():
            if s not in prod and any(all(k in prod for k in kids) for kids in rs):
                prod.add(s)
                changed = True
    if start not in prod:
        return True, False, 0
    good = {s: [kids for kids in rs if all(k in prod for k in kids)] for s, rs in rules.items() if s in prod}
    useful, todo = {start}, [start]
    while todo:
        s = todo.pop()
        for kids in good[s]:
            for k in kids:
                if k not in useful:
                    useful.add(k)
                    todo.append(k)
    has_app = any(kids for s in useful for kids in good[s])
    # cycle detection (iterative DFS, colours) and size by memoised recursion on the DAG
    colour, size = {}, {}
    stack = [(start, 0)]
    order = []
    while stack:
        s, st = stack.pop()
        if st == 0:
            if colour.get(s) == 2:
                continue
            if colour.get(s) == 1:
                return False, has_app, None
            colour[s] = 1
            stack.append((s, 1))
            for kids in good[s]:
                for k in kids:
                    if colour.get(k) == 1:
                        return False, has_app, None
                    if colour.get(k) != 2:
                        stack.append((k, 0))
        else:
            colour[s] = 2
            order.append(s)
    for s in order:
        total = 0
        for kids in good[s]:
            local = 1
            for k in kids:
                local *= size[k]
            total += local
        size[s] = total
    return True, has_app, size[start]


def reach_prod(cfg):
    """independent reachability / productivity of the implementation's table"""
    rules = cfg.rules
    prod = set()
    changed = True
    while changed:
        changed = False
        for S in rules:
            if S in prod:
                continue
            for P, (args, _) in rules[S].items():
                if all((a[0], (a[1], None)) in prod for a in args):
                    prod.add(S)
                    changed = True
                    break
    reach = {cfg.start}
    todo = [cfg.start]
    while todo:
        S = todo.pop()
        for P, (args, _) in rules.get(S, {}).items():
            for a in args:
                n = (a[0], (a[1], None))
                if n not in reach:
                    reach.add(n)
                    todo.append(n)
    bad = [S for S in rules if S not in reach or S not in prod]
    dangling = [(S, P) for S in rules for P, (args, _) in rules[S].items() if any((a[0], (a[1], None)) not in rules for a in args)]
    unprod_rules = [(S, P) for S in rules for P, (args, _) in rules[S].items() if any((a[0], (a[1], None)) not in prod for a in args)]
    return bad, dangling, unprod_rules


def check(case, M):
    import random
    from synth.syntax import CFG, DSL, UCFG
    rng = random.Random(case["nseed"])
    prims = [(n, _tt(t)) for n, t in case["prims"]]
    forb = {(a, b): set(v) for a, b, v in case["forbidden"]}
    request = _tt(case["request"])
    const_types = [_tt(t) for t in case["const_types"]]
    md, mv, ng, rec = case["max_depth"], case["min_var"], case["n_gram"], case["recursive"]
    infinite = case["mode"] == "infinite"
    dsl = DSL({n: W.tt_repo(t) for n, t in prims}, {k: set(v) for k, v in forb.items()})
    tr = W.tt_repo(request)
    prim_objs = {p.primitive: p for p in dsl.list_primitives}
    cts = {W.tt_repo(t) for t in const_types}
    failures = []
    tags = [f"depth{md}", f"minvar{mv}", f"ngram{ng}", "infinite" if infinite else "bounded"]
    # ---- history (a third of the cases): the SAME DSL object was compiled before with ANOTHER forbidden table,
    # which was then edited in place (new key, set.add / set.discard, del) until it is the table of this case.
    # "For every DSL, every forbidden-pattern table": the grammar must denote the terms that respect the table the
    # DSL has when it is compiled, whatever was compiled from the object before.
    hr = random.Random(case["nseed"] ^ 0x5EED)
    if hr.random() < 0.34:
        names = [n for n, _ in prims]
        fnames = [n for n, t in prims if not isinstance(t, str) and t[0] == "->"]
        past = {k: set(v) for k, v in forb.items()}
        if past and hr.random() < 0.6:
            del past[hr.choice(sorted(past))]
        if past and hr.random() < 0.6:
            past[hr.choice(sorted(past))].add(hr.choice(names))
        if fnames and hr.random() < 0.8:
            past.setdefault((hr.choice(fnames), 0), set()).add(hr.choice(names))
        if past != forb:
            dsl = DSL({n: W.tt_repo(t) for n, t in prims}, {k: set(v) for k, v in past.items()})
            for build in (lambda: CFG.depth_constraint(dsl, tr, min(md, 3), mv, ng, rec, cts), lambda: CFG.infinite(dsl, tr, max(ng, 0), rec, cts)):
                try:
                    build()
                except KeyError:
                    pass
            table = dsl.forbidden_patterns
            for k in list(table):
                if k not in forb:
                    del table[k]
            for k, v in forb.items():
                if k in table:
                    for x in list(table[k]):
                        if x not in v:
                            table[k].discard(x)
                    for x in v:
                        table[k].add(x)
                else:
                    table[k] = set(v)
            prim_objs = {p.primitive: p for p in dsl.list_primitives}
            tags.append("history.forbidden-table-edited-in-place")
    if rec:
        tags.append("recursive")
    if forb:
        tags.append("forbidden")
    if any(not isinstance(t, str) and t[0] == "->" and any(not isinstance(a, str) and a[0] == "->" for a in G.args_ret(t)[0]) for _, t in prims):
        tags.append("higher-order-primitive")
    if any(not isinstance(a, str) and a[0] == "->" for a in G.args_ret(request)[0]):
        tags.append("function-typed-variable")
    if const_types:
        tags.append("constants")
    # statement-level oracle: (a) what the statement says; (b) what n_gram<=1 can see
    spec_md = md if not infinite else min(md, 3) + 1
    spec_mv = mv if not infinite else 0
    full = TypedTerms(prims, forb, request, spec_md, spec_mv, const_types, rec, see_parent=True)
    hyp_ngram = ng >= 2 or ng < 0 or not forb
    key = json.dumps([case["prims"], case["forbidden"], case["request"], md, mv, ng, rec, case["const_types"], case["mode"]])
    while infinite and spec_md > 2 and full.count() > 3000:
        spec_md -= 1
        full = TypedTerms(prims, forb, request, spec_md, spec_mv, const_types, rec, see_parent=True)
    if full.count() > MAX_LANG["thorough"]:
        return {"key": key, "nontrivial": False, "tags": tags + ["too-large"], "failures": []}
    terms = full.terms()

    def fail(kind, what, detail):
        f = {"kind": kind, "what": what, "detail": detail}
        if not hyp_ngram:
            f["finding"] = "C01-F2"
        failures.append(f)
    # ---- build with the implementation
    try:
        if infinite:
            cfg = CFG.infinite(dsl, tr, ng, rec, cts)
        else:
            cfg = CFG.depth_constraint(dsl, tr, md, mv, ng, rec, cts)
    except KeyError as e:
        if not terms:
            return {"key": key, "nontrivial": False, "tags": tags + ["empty-language(KeyError)"], "failures": []}
        failures.append({"kind": "oracle", "what": "construction raises although the language is not empty", "detail": repr(e)})
        return {"key": key, "nontrivial": False, "tags": tags, "failures": failures}
    pw = W.params_wire(dsl.list_primitives, {k: v for k, v in forb.items()}, tr, spec_md, spec_mv, ng, rec, [W.tt_repo(t) for t in const_types])
    spec_full, spec_eff = M.ask([Sym("c01.spec"), pw])
    lean_full = sorted(W.wire_prog_str(t) for t in spec_full)
    py_full = sorted(term_str(t) for t in terms)
    if lean_full != py_full:
        raise RuntimeError(f"Lean spec wtTerms and Python oracle disagree: {len(lean_full)} vs {len(py_full)} terms; e.g. {sorted(set(lean_full) ^ set(py_full))[:5]}")
    # ---- type request
    if cfg.type_request != tr:
        failures.append({"kind": "oracle", "what": "grammar reports another type request", "detail": f"{cfg.type_request} instead of {tr}"})
    members = [to_repo(t, prim_objs, None) for t in terms]
    neigh = [t for t in neighbours(rng, terms, full, prims, 150)]
    neigh_repo = [to_repo(t, prim_objs, None) for t in neigh]
    if not infinite:
        # ---- certificate check of the implementation's table + model table
        ans = M.ask([Sym("c01.check"), pw, W.cfg_wire(cfg), [term_wire(t) for t in terms[:400]] + [term_wire(t) for t in neigh]])
        ok, mprog, bits, ndead = ans
        if ok != "1":
            fail("corr", "implementation's rule table fails the verified checker tableOK", "tableOK = false")
        mans = M.ask([Sym("c01.model"), pw, 200000])
        if mans[0] == "some":
            model_tbl = sorted(json.dumps(e) for e in mans[1][2])
            impl_tbl = sorted(json.dumps(_plain(e)) for e in W.cfg_wire(cfg)[2])
            model_tbl = sorted(json.dumps(_canon_entry(e)) for e in mans[1][2])
            impl_tbl = sorted(json.dumps(_canon_entry(_plain(e))) for e in W.cfg_wire(cfg)[2])
            if model_tbl != impl_tbl:
                fail("corr", "rule table differs from the model's table", f"{len(impl_tbl)} vs {len(model_tbl)} non-terminals; first difference: {sorted(set(impl_tbl) ^ set(model_tbl))[:1]}")
            if str(mans[2]) != str(cfg.programs()):
                fail("corr", "programs() differs from the model", f"{cfg.programs()} vs {mans[2]}")
        else:
            fail("corr", "model builds no table where the implementation does", "")
        # model membership of the impl table vs impl membership, on members and neighbours
        allp = members[:400] + neigh_repo
        for t_repo, b in zip(allp, bits):
            impl_in = t_repo in cfg
            if (b[0] == "1") != impl_in:
                fail("corr", "membership differs from the model's containsRec on the same table", f"{t_repo}: impl={impl_in} model={b[0]}")
                break
            if b[0] != b[1]:
                raise RuntimeError("containsRec and gen disagree (contradicts theorem C01_contains_gen)")
        # ---- the property itself
        try:
            lang = expand_rules(cfg, 4 * MAX_LANG["thorough"])
        except RecursionError:
            lang = None
            fail("oracle", "depth-bounded grammar has a cyclic rule table", "")
        except OverflowError:
            lang = None
            fail("oracle", "language of the grammar differs from the well-typed terms", f"more than {4 * MAX_LANG['thorough']} programs derivable from the rule table, {len(py_full)} well-typed terms")
        if lang is not None and lang != py_full:
            extra = sorted(set(lang) - set(py_full))[:3]
            missing = sorted(set(py_full) - set(lang))[:3]
            fail("oracle", "language of the grammar differs from the well-typed terms", f"extra={extra} missing={missing} ({len(lang)} vs {len(py_full)})")
        if cfg.programs() != len(py_full) and lang is not None:
            fail("oracle", "programs() is not the size of the language", f"{cfg.programs()} vs {len(py_full)}")
        bad, dangling, unprod = reach_prod(cfg)
        if bad or dangling or unprod:
            fail("oracle", "a rule left in the grammar is unreachable or unproductive", f"{bad[:2]} {dangling[:2]} {unprod[:2]}")
    else:
        if cfg.programs() != -1 and terms and any(t[1] for t in terms):
            pass
        # ---- model of CFG.infinite (lean/PS/Model/CfgInfinite.lean) and unbounded spec wtI
        probe = terms[:400] + neigh
        probe_repo = members[:400] + neigh_repo
        ians = M.ask([Sym("c01.infinite"), pw, 200000, [term_wire(t) for t in probe]])
        oracle_inf = TypedTerms(prims, forb, request, 50, 0, const_types, rec)
        for t, sb in zip(probe, ians[1]):
            if (sb[0] == "1") != oracle_inf.member(t):
                raise RuntimeError(f"Lean spec wtITop and the Python oracle disagree on {term_str(t)}")
        if ians[0] == "some":
            model_tbl = sorted(json.dumps(_canon_entry(e)) for e in ians[2][2])
            impl_tbl = sorted(json.dumps(_canon_entry(_plain(e))) for e in W.cfg_wire(cfg)[2])
            if model_tbl != impl_tbl:
                fail("corr", "rule table of CFG.infinite differs from the model's table", f"{len(impl_tbl)} vs {len(model_tbl)} non-terminals; first difference: {sorted(set(impl_tbl) ^ set(model_tbl))[:1]}")
            if str(ians[3]) != str(cfg.programs()):
                fail("corr", "programs() of CFG.infinite differs from the model (programsInf: dict order)", f"{cfg.programs()} vs {ians[3]}")
            for t_repo, sb, b in zip(probe_repo, ians[1], ians[4]):
                if b[0] != b[1]:
                    raise RuntimeError("containsRec and gen disagree (contradicts theorem C01_contains_gen)")
                if b[0] != sb[1]:
                    raise RuntimeError("membership in the model's infinite table differs from wtI (contradicts theorem C01_infinite_lang)")
                impl_in = t_repo in cfg
                if (b[0] == "1") != impl_in:
                    fail("corr", "membership in CFG.infinite differs from the model's table", f"{t_repo}: impl={impl_in} model={b[0]}")
                    break
        else:
            fail("corr", "model builds no infinite table where the implementation does", "")
        # ---- the statement for programs() of CFG.infinite: the size of the language when it is
        # finite, -1 (recursive) otherwise; finiteness and size decided from the oracle alone, for
        # the language the n-gram width can express (so that C01-F2 does not interfere)
        shape = lang_shape(TypedTerms(prims, forb, request, 10 ** 9, 0, const_types, rec, see_parent=(ng >= 2 or ng < 0)))
        finite, has_app, size = shape
        want_programs = size if finite else -1
        tags.append("infinite:finite-language" if finite else "infinite:infinite-language")
        if cfg.programs() != want_programs:
            f = {"kind": "oracle", "what": "programs() of CFG.infinite is not the size of the language (-1 iff the language is infinite)",
                 "detail": f"programs() = {cfg.programs()}, language {'of size ' + str(size) if finite else 'infinite'}"}
            if finite and has_app:
                f["finding"] = "C01-F5"     # classifier: CFG.infinite, finite language, some term has an argument
            failures.append(f)
        if (cfg.programs() == -1) != cfg.is_recursive():
            failures.append({"kind": "oracle", "what": "is_recursive() disagrees with programs() == -1", "detail": ""})
    for t, t_repo in zip(terms, members):
        if not (t_repo in cfg):
            fail("oracle", "a well-typed term is not a member", str(t_repo))
            break
    for t, t_repo in zip(neigh, neigh_repo):
        want = full.member(t) if not infinite else TypedTerms(prims, forb, request, 50, 0, const_types, rec).member(t)
        got = t_repo in cfg
        if got != want:
            fail("oracle", "membership of a neighbouring term is wrong", f"{t_repo}: in grammar={got}, well-typed={want}")
            break
    # derivation API agrees with the language (reduce_derivations / derive_all on members)
    if not infinite:
        for t_repo in members[:60]:
            try:
                n = cfg.reduce_derivations(lambda a, S, P, v: a + 1, 0, t_repo)
                info, lst = cfg.derive_all(cfg.start_information(), cfg.start, t_repo)
            except Exception as e:  # noqa
                fail("oracle", "derivation API raises on a member", f"{t_repo}: {type(e).__name__}")
                break
            if n != t_repo.size() or len(lst) < t_repo.size():
                fail("oracle", "derivation API does not visit one rule per node", f"{t_repo}: {n} rules, size {t_repo.size()}")
                break
        # UCFG of the same request: same language
        try:
            u = UCFG.depth_constraint(dsl, tr, md, mv, ng, rec, cts)
            if u.programs() != len(py_full):
                fail("oracle", "UCFG.depth_constraint reports another number of programs", f"{u.programs()} vs {len(py_full)}")
            for t_repo in members[:100]:
                if t_repo not in u:
                    fail("oracle", "UCFG.depth_constraint misses a well-typed term", str(t_repo))
                    break
            for t, t_repo in list(zip(neigh, neigh_repo))[:60]:
                if (t_repo in u) != full.member(t):
                    fail("oracle", "UCFG.depth_constraint membership of a neighbouring term is wrong", str(t_repo))
                    break
        except KeyError:
            if terms:
                fail("oracle", "UCFG.depth_constraint raises although the language is not empty", "")
    napp = sum(1 for t in terms if t[1])
    nrej = sum(1 for t in neigh if not full.member(t))
    nontrivial = len(terms) >= 3 and napp >= 1 and nrej >= 1
    if not hyp_ngram:
        tags.append("ngram<=1-with-forbidden(C01-F2 region)")
    tags.append("lang<10" if len(terms) < 10 else "lang<100" if len(terms) < 100 else "lang<1000" if len(terms) < 1000 else "lang>=1000")
    return {"key": key, "nontrivial": nontrivial, "tags": tags, "failures": failures,
            "sample": {"prims": {n: G.ty_str(t) for n, t in prims}, "forbidden": {f"{a}#{b}": sorted(v) for (a, b), v in forb.items()},
                       "request": G.ty_str(request), "max_depth": md, "min_variable_depth": mv, "n_gram": ng, "recursive": rec,
                       "constant_types": [G.ty_str(t) for t in const_types], "mode": case["mode"], "language_size": len(terms), "examples": py_full[:4]}}


def _plain(x):
    if isinstance(x, (list, tuple)):
        return [_plain(y) for y in x]
    if isinstance(x, bool):
        return "1" if x else "0"
    return str(x)


def _canon_entry(e):
    nt, rules = e
    return [nt, sorted(rules, key=lambda r: json.dumps(r))]


def corpus():
    # past failures (repaired): forbidden zero-arity child; arity of members
    return [{"prims": [["+", ["->", "int", ["->", "int", "int"]]], ["1", "int"], ["0", "int"], ["neg", ["->", "int", "int"]]],
             "forbidden": [["+", 0, ["1", "+"]]], "request": ["->", "int", "int"], "max_depth": 3, "min_var": 1, "n_gram": 2,
             "recursive": False, "const_types": [], "mode": "depth", "nseed": 1},
            {"prims": [["+", ["->", "int", ["->", "int", "int"]]], ["1", "int"]], "forbidden": [], "request": ["->", "int", ["->", "bool", "int"]],
             "max_depth": 3, "min_var": 0, "n_gram": 2, "recursive": False, "const_types": [], "mode": "infinite", "nseed": 2},
            # witness of the open finding C01-F5: CFG.infinite, the single program (f true), programs() = -1
            {"prims": [["f", ["->", "bool", "int"]], ["true", "bool"]], "forbidden": [], "request": "int",
             "max_depth": 3, "min_var": 0, "n_gram": 2, "recursive": False, "const_types": [], "mode": "infinite", "nseed": 3}]
