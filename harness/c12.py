"""C12: multi-part check (parts: beap, bee, cd, hs); see harness/parts.py and the part modules."""
from harness.parts import make

make(globals(), ['c12_beap', 'c12_bee', 'c12_cd', 'c12_hs'])
