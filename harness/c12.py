from harness.parts import make; make(globals(), ["c12_hs"])
