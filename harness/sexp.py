"""S-expressions: the wire format between the harness and the Lean model driver.

dump(x): Python nested lists/tuples -> text.  Conventions:
  Sym("name") -> bare atom; int -> atom; bool -> 1/0; str -> double-quoted string;
  list/tuple -> ( ... ); None -> none.
parse(text) -> nested lists of str (atoms and strings are both returned as str,
strings wrapped in Str so that callers can tell when they care).
"""


class Sym(str):
    """bare atom"""


class Str(str):
    """a quoted string that came back from the driver"""


def _esc(s: str) -> str:
    return s.replace("\\", "\\\\").replace('"', '\\"').replace("\n", "\\n")


def dump(x) -> str:
    if isinstance(x, Sym):
        return str(x)
    if x is None:
        return "none"
    if isinstance(x, bool):
        return "1" if x else "0"
    if isinstance(x, int):
        return str(x)
    if isinstance(x, str):
        return '"' + _esc(x) + '"'
    if isinstance(x, (list, tuple)):
        return "(" + " ".join(dump(y) for y in x) + ")"
    raise TypeError(f"cannot encode {type(x)}: {x!r}")


def parse(text: str):
    pos = 0
    n = len(text)

    def skip():
        nonlocal pos
        while pos < n and text[pos] in " \t\r\n":
            pos += 1

    def item():
        nonlocal pos
        skip()
        if pos >= n:
            raise ValueError("unexpected end")
        c = text[pos]
        if c == "(":
            pos += 1
            out = []
            while True:
                skip()
                if pos >= n:
                    raise ValueError("unclosed (")
                if text[pos] == ")":
                    pos += 1
                    return out
                out.append(item())
        if c == '"':
            pos += 1
            buf = []
            while pos < n and text[pos] != '"':
                if text[pos] == "\\" and pos + 1 < n:
                    d = text[pos + 1]
                    buf.append("\n" if d == "n" else d)
                    pos += 2
                else:
                    buf.append(text[pos])
                    pos += 1
            pos += 1
            return Str("".join(buf))
        start = pos
        while pos < n and text[pos] not in ' \t\r\n()"':
            pos += 1
        return text[start:pos]

    r = item()
    skip()
    if pos != n:
        raise ValueError("trailing input: " + text[pos:pos + 20])
    return r
