"""Seeded generators shared by the per-property harness modules.

Independent of `synth` except for the constructors used to hand objects to the
implementation (`to_repo_program`, `make_dsl`).  Terms are nested tuples:
    ("P", name) primitive     ("V", i) variable     ("A", head, [args]) application
Types are nested tuples:  "int" | ("->", a, b) | ("list", t)
"""
import itertools

# ------------------------------------------------------------------ types


def arrow(*ts):
    r = ts[-1]
    for t in reversed(ts[:-1]):
        r = ("->", t, r)
    return r


def ty_str(t):
    if isinstance(t, str):
        return t
    if t[0] == "->":
        a = ty_str(t[1])
        if not isinstance(t[1], str) and t[1][0] == "->":
            a = "(" + a + ")"
        return a + " -> " + ty_str(t[2])
    if t[0] == "list":
        inner = ty_str(t[1])
        if not isinstance(t[1], str) and t[1][0] == "->":
            inner = "(" + inner + ")"
        return inner + " list"
    raise ValueError(t)


def args_ret(t):
    args = []
    while not isinstance(t, str) and t[0] == "->":
        args.append(t[1])
        t = t[2]
    return args, t


# ------------------------------------------------------------------ DSLs with semantics
# name -> (type, python semantics (curried))
class Fail(Exception):
    """raised by the harness' own evaluator when a primitive fails"""


def _div(a):
    def f(b):
        return a // b
    return f


def _head(l):
    return l[0]


DSLS = {
    "arith": {
        "+": (arrow("int", "int", "int"), lambda a: lambda b: a + b),
        "*": (arrow("int", "int", "int"), lambda a: lambda b: a * b),
        "neg": (arrow("int", "int"), lambda a: -a),
        "div": (arrow("int", "int", "int"), _div),            # ZeroDivisionError
        "0": ("int", 0),
        "1": ("int", 1),
        "2": ("int", 2),
    },
    "lists": {
        "cons": (arrow("int", ("list", "int"), ("list", "int")), lambda a: lambda l: [a] + l),
        "nil": (("list", "int"), []),
        "head": (arrow(("list", "int"), "int"), _head),      # IndexError
        "tail": (arrow(("list", "int"), ("list", "int")), lambda l: l[1:]),
        "map": (arrow(arrow("int", "int"), ("list", "int"), ("list", "int")), lambda f: lambda l: [f(x) for x in l]),
        "wrap": (arrow(("list", "int"), ("list", ("list", "int"))), lambda l: [l, l]),
        "len": (arrow(("list", "int"), "int"), lambda l: len(l)),
        "inc": (arrow("int", "int"), lambda a: a + 1),
        "+": (arrow("int", "int", "int"), lambda a: lambda b: a + b),
        "div": (arrow("int", "int", "int"), _div),
        "0": ("int", 0),
        "1": ("int", 1),
    },
    # int and bool results side by side (True == 1 and False == 0 in Python, but a validator may tell them apart):
    # used by oracle-only cases, the Lean value model has no booleans
    "mixed": {
        "isz": (arrow("int", "bool"), lambda a: a == 0),
        "pos": (arrow("int", "bool"), lambda a: a > 0),
        "not": (arrow("bool", "bool"), lambda a: not a),
        "and": (arrow("bool", "bool", "bool"), lambda a: lambda b: a and b),
        "b2i": (arrow("bool", "int"), lambda a: 1 if a else 0),
        "+": (arrow("int", "int", "int"), lambda a: lambda b: a + b),
        "neg": (arrow("int", "int"), lambda a: -a),
        "div": (arrow("int", "int", "int"), _div),
        "true": ("bool", True),
        "false": ("bool", False),
        "0": ("int", 0),
        "1": ("int", 1),
    },
}
SKIPPABLE = (ZeroDivisionError, IndexError)


def make_dsl(name):
    """-> (dsl, semantics dict Primitive -> value, spec)"""
    from synth.syntax import DSL, auto_type
    spec = DSLS[name]
    dsl = DSL(auto_type({k: ty_str(v[0]) for k, v in spec.items()}))
    sem = dsl.instantiate_semantics({k: v[1] for k, v in spec.items()})
    return dsl, sem, spec


# ------------------------------------------------------------------ random typed terms
def random_term(rng, spec, var_types, ty, depth, p_leaf=0.35):
    """random well-typed applicative term of type `ty` (None when none is found)"""
    leaves = [("P", n) for n, (t, _) in spec.items() if t == ty]
    leaves += [("V", i) for i, t in enumerate(var_types) if t == ty]
    apps = []
    for n, (t, _) in spec.items():
        a, r = args_ret(t)
        # full or partial application whose result type is ty
        for k in range(1, len(a) + 1):
            if arrow(*a[k:], r) == ty:
                apps.append((n, a[:k]))
    if depth <= 1 or not apps or (leaves and rng.random() < p_leaf):
        return rng.choice(leaves) if leaves else None
    for _ in range(4):
        n, a = rng.choice(apps)
        sub = [random_term(rng, spec, var_types, t, depth - 1, p_leaf) for t in a]
        if all(s is not None for s in sub):
            return ("A", ("P", n), sub)
    return rng.choice(leaves) if leaves else None


def term_str(t):
    if t[0] == "P":
        return t[1]
    if t[0] == "V":
        return f"var{t[1]}"
    if t[0] == "K":
        return f"<{t[1]}:{t[2]}>"
    return "(" + " ".join([term_str(t[1])] + [term_str(a) for a in t[2]]) + ")"


def subterms(t):
    """depth-first, function first, arguments left to right, then the term"""
    if t[0] == "A":
        yield from subterms(t[1])
        for a in t[2]:
            yield from subterms(a)
    yield t


def to_repo_program(t, dsl_prims, var_types):
    """nested tuple -> synth Program, built with constructors only"""
    from synth.syntax import Function, Variable, auto_type
    if t[0] == "P":
        return dsl_prims[t[1]]
    if t[0] == "V":
        return Variable(t[1], auto_type(ty_str(var_types[t[1]])))
    if t[0] == "K":
        from synth.syntax import Constant
        return Constant(auto_type("int"), const_value(t), True)
    return Function(to_repo_program(t[1], dsl_prims, var_types), [to_repo_program(a, dsl_prims, var_types) for a in t[2]])


def prims_by_name(dsl):
    return {p.primitive: p for p in dsl.list_primitives}


def const_value(t):
    """("K", python type tag, text) -> the Python value of a Constant leaf"""
    import decimal
    return {"int": int, "str": str, "float": float, "Decimal": decimal.Decimal}[t[1]](t[2])


def denote(t, spec, inp):
    """the harness' own reading of the documented semantics: innermost first, left to
    right, curried application.  Raises whatever the primitive raises."""
    if t[0] == "P":
        return spec[t[1]][1]
    if t[0] == "V":
        return inp[t[1]]
    if t[0] == "K":
        return const_value(t)
    f = denote(t[1], spec, inp)
    vals = [denote(a, spec, inp) for a in t[2]]
    for v in vals:
        f = f(v)
    return f


def canon_value(v):
    """canonical text of a value (lists and tuples alike)"""
    if isinstance(v, (list, tuple)):
        return "[" + ",".join(canon_value(x) for x in v) + "]"
    if callable(v):
        return "<fun>"
    if isinstance(v, bool) or isinstance(v, int):
        return repr(v)
    return "'" + type(v).__name__ + ":" + str(v) + "'"


def random_value(rng, ty):
    if ty == "int":
        return rng.choice([0, 0, 1, 2, -1, 3, 5])
    if ty == "bool":
        return rng.choice([True, False])
    if ty[0] == "list":
        return [random_value(rng, ty[1]) for _ in range(rng.choice([0, 0, 1, 2, 3]))]
    raise ValueError(ty)


# ------------------------------------------------------------------ random DSL syntaxes (C01, C04, C13, C17 …)
def random_syntax(rng, allow_ho=True):
    """-> dict(prims=[(name, tuple-type)], forbidden={(name, i): [names]}, bases=[...])
    1-3 base types, list types, 2-7 primitives of arity 0-3, at least one constant per base type
    with probability 0.8 (so unproductive types occur but do not dominate), a higher-order
    primitive with probability 1/3, 0-3 forbidden entries naming existing primitives
    (zero-arity children on purpose)."""
    bases = rng.sample(["int", "bool", "str"], rng.choice([1, 1, 2, 2, 3]))
    pool = list(bases) + [("list", b) for b in bases if rng.random() < 0.4]
    prims = []
    k = 0
    for b in bases:
        if rng.random() < 0.8:
            for _ in range(rng.choice([1, 1, 2])):
                prims.append((f"c{k}", b))
                k += 1
    for t in pool:
        if not isinstance(t, str) and rng.random() < 0.6:
            prims.append((f"c{k}", t))
            k += 1
    nfun = rng.randint(1, 4)
    for j in range(nfun):
        ar = rng.choice([1, 1, 2, 2, 3])
        ts = [rng.choice(pool) for _ in range(ar)] + [rng.choice(pool)]
        prims.append((f"f{j}", arrow(*ts)))
    if allow_ho and rng.random() < 1 / 3:
        a, b = rng.choice(bases), rng.choice(bases)
        prims.append(("ho", arrow(arrow(a, b), rng.choice(pool), rng.choice(pool))))
    rng.shuffle(prims)
    prims = prims[:7] if len(prims) > 7 else prims
    forbidden = {}
    funs = [(n, t) for n, t in prims if not isinstance(t, str) and t[0] == "->"]
    names = [n for n, _ in prims]
    for _ in range(rng.choice([0, 0, 1, 1, 2, 3])):
        if not funs:
            break
        n, t = rng.choice(funs)
        i = rng.randrange(len(args_ret(t)[0]))
        forbidden.setdefault((n, i), [])
        c = rng.choice(names)
        if c not in forbidden[(n, i)]:
            forbidden[(n, i)].append(c)
    return {"prims": prims, "forbidden": forbidden, "bases": bases, "pool": pool}


def random_request(rng, syn):
    pool, bases = syn["pool"], syn["bases"]
    ret = rng.choice(pool)
    nargs = rng.choice([0, 1, 1, 2, 2, 3])
    args = [rng.choice(pool) for _ in range(nargs)]
    if args and rng.random() < 0.25:
        args[rng.randrange(len(args))] = arrow(rng.choice(bases), rng.choice(bases))
    if args and rng.random() < 0.25:
        args[rng.randrange(len(args))] = rng.choice(["unused", ("list", "unused")])
    return arrow(*args, ret)
