"""Shared machinery of the beap-search parts (c02_beap, c03_beap, c12_beap).

impl    : synth.syntax.grammars.enumeration.beap_search.BeapSearch, constructed directly on a cost table
          (what `enumerate_prob_grammar` hands over: ProbDetGrammar(grammar, costs)); costs are
          exact dyadic rationals so that float arithmetic == rational arithmetic.  The float path
          `enumerate_prob_grammar(ProbDetGrammar(g, probabilities))` (costs -log p) is run by the
          oracle-only searches with a stated tolerance.
model   : PS.Beap through the driver ops beap.run / beap.init (lean/PS/Drv/C94.lean)
oracle  : language, exact cost of every program and minimal cost of every non-terminal by
          exhaustive / bounded expansion of the rule table (written here; no enumerator,
          membership or probability code of synth)
Grammars: finite CFG.depth_constraint (random DSLs of gen.random_syntax, arithmetic DSLs, the
          test-suite DSL), recursive CFG.infinite (several types, n_gram 1/2), and rule tables
          given to the CFG constructor (mutually recursive non-terminals whose cheapest program
          closes a cycle: the situation `_reevaluate_` exists for).
"""
import itertools
import json
import os
import random
import sys
from fractions import Fraction

from harness import enumhs as E
from harness.sexp import Sym

HERE = os.path.dirname(os.path.abspath(__file__))


def deep(fn):
    """recursive grammars yield programs that are hundreds of levels deep (unary chains): the default limit of
    1000 frames is hit by the implementation's own recursive hashing / printing and by the S-expression
    reader.  The limit is raised for the duration of one check of this part only (other parts of the same
    property run in the same process and have their own conventions)."""
    import functools

    @functools.wraps(fn)
    def wrapper(*a, **k):
        old = sys.getrecursionlimit()
        sys.setrecursionlimit(max(old, 20000))
        try:
            return fn(*a, **k)
        finally:
            sys.setrecursionlimit(old)
    return wrapper

MAX_LANG = {"quick": 1200, "thorough": 5000}
FUEL = 10000000
BIG = 1e99

REC_DSLS = [
    {"F": ["->", "t1", ["->", "t1", "t0"]], "b": "t0", "g": ["->", "t0", "t1"], "c": "t1"},
    {"F": ["->", "t1", ["->", "t1", "t0"]], "b": "t0", "g": ["->", "t0", "t1"], "c": "t1", "h": ["->", "t1", "t0"]},
    {"F": ["->", "t0", ["->", "t1", "t0"]], "b": "t0", "g": ["->", "t0", "t1"], "c": "t1"},
    {"p": ["->", "t1", "t0"], "m": ["->", "t0", ["->", "t2", "t0"]], "a": "t0", "q": ["->", "t2", "t1"], "b": "t1", "r": ["->", "t0", "t2"], "c": "t2"},
    {"+": ["->", "t0", ["->", "t0", "t0"]], "1": "t0", "2": "t0"},
    {"s": ["->", "t0", "t0"], "k": ["->", "t1", "t0"], "z": "t0", "w": ["->", "t0", "t1"], "y": "t1"},
]


def enabled(fid):
    """region cases of a finding are generated only once the finding is registered"""
    if fid in os.environ.get("BEAP_ASSUME_REGISTERED", "").split(","):       # development only
        return True
    try:
        d = json.load(open(os.path.join(os.path.dirname(HERE), "known_findings.json")))
        return any(f.get("id") == fid for f in d["findings"])
    except Exception:  # noqa
        return False


# --------------------------------------------------------------------------- case generation
def gen_table(rng, acyclic):
    """a rule table: [[nt, [[prim, [arg nts…], ], …]], …]; every non-terminal is productive"""
    n = rng.choice([2, 2, 3, 3, 4])
    names = [f"N{k}" for k in range(n)]
    table = []
    for k in range(n):
        rules = []
        later = names[k + 1:]
        has_leaf = k == n - 1 or rng.random() < 0.8
        if has_leaf:
            for _ in range(rng.choice([1, 1, 2])):
                rules.append([f"a{rng.randrange(4)}", []])
        else:
            ar = rng.choice([1, 2])
            rules.append([f"{'ub'[ar - 1]}{rng.randrange(4)}", [rng.choice(later) for _ in range(ar)]])
        for _ in range(rng.choice([1, 1, 2, 3])):
            ar = rng.choice([1, 1, 2])
            pool = later if acyclic else names
            if not pool:
                continue
            rules.append([f"{'ub'[ar - 1]}{rng.randrange(4)}", [rng.choice(pool) for _ in range(ar)]])
        seen, out = set(), []
        for r in rules:
            if r[0] not in seen:
                seen.add(r[0])
                out.append(r)
        rng.shuffle(out)
        table.append([names[k], out])
    return table


def gen_case(rng, i, tier, pid):
    r = rng.random()
    if pid == "C03":
        fam = "rec" if r < 0.3 else "tbl" if r < 0.55 else "fin"
    elif pid == "C02":
        fam = "rec" if r < 0.12 else "tbl" if r < 0.3 else "fin"
    else:
        fam = "tbl" if r < 0.2 else "fin"
    case = {"family": fam, "order": rng.choice(["built", "built", "reversed", "shuffled", "shuffled"]), "oseed": rng.randrange(1 << 30),
            "costs": rng.choice(["uniform", "int", "int", "dyadic", "skewed", "skewed", "ties", "wide"]), "wseed": rng.randrange(1 << 30),
            "filter": None, "merges": [], "take": None, "fseed": rng.randrange(1 << 30) if rng.random() < 0.4 else None, "tier": tier}
    if fam == "fin":
        b = E.gen_build(rng, tier, "det")
        b.update(kind="cfg", max_depth=rng.choice([2, 3, 3, 3, 4, 4]), min_var=rng.choice([0, 1, 1]), n_gram=rng.choice([2, 2, 2, 1, 3]))
        b.pop("max_size", None)
        case["build"] = b
        fit_size(case, tier)
        if rng.random() < 0.1:
            case["costs"] = "zero"
    elif fam == "rec":
        case["build"] = {"dsl": rng.randrange(len(REC_DSLS)), "n_gram": rng.choice([1, 1, 2, 2, 3])}
        case["take"] = rng.choice([5, 13, 40, 40, 100, 100, 200, 300] + ([600, 1000] if tier == "thorough" else []))
        if case["costs"] == "uniform":
            case["costs"] = "skewed"
    else:
        acyclic = pid == "C12" or rng.random() < (0.5 if pid == "C02" else 0.2)
        case["build"] = {"table": gen_table(rng, acyclic), "acyclic": acyclic}
        if not acyclic:
            case["take"] = rng.choice([5, 13, 40, 40, 100, 100, 200, 300])
    return case


def fit_size(case, tier):
    b = case["build"]
    limit = MAX_LANG[tier]
    for _ in range(4):
        n = E.lang_size(b, limit)
        if n is None:
            return
        if n > limit and b["max_depth"] > 1:
            b["max_depth"] -= 1
        elif n < 8 and b["max_depth"] < 4:
            b["max_depth"] += 1
            m = E.lang_size(b, limit)
            if m is None or m > limit:
                b["max_depth"] -= 1
                return
        else:
            return


# --------------------------------------------------------------------------- building with the implementation
def _ty(t):
    from synth.syntax.type_system import Arrow, PrimitiveType
    if isinstance(t, str):
        return PrimitiveType(t)
    return Arrow(_ty(t[1]), _ty(t[2]))


def build_grammar(case):
    """-> CFG or None"""
    from synth.syntax.grammars.cfg import CFG
    fam = case["family"]
    b = case["build"]
    if fam == "fin":
        return E.build_grammar(dict(b))
    if fam == "rec":
        from synth.syntax.dsl import DSL
        dsl = DSL({n: _ty(t) for n, t in REC_DSLS[b["dsl"]].items()})
        return CFG.infinite(dsl, _ty("t0"), n_gram=b["n_gram"])
    from synth.syntax.program import Primitive
    from synth.syntax.type_helper import FunctionType
    from synth.syntax.type_system import INT
    prims = {}
    nt = {name: (INT, ((name, 0), None)) for name, _ in b["table"]}
    rules = {}
    for name, alts in b["table"]:
        rules[nt[name]] = {}
        for pname, args in alts:
            if pname not in prims:
                prims[pname] = Primitive(pname, INT if not args else FunctionType(*([INT] * (len(args) + 1))))
            rules[nt[name]][prims[pname]] = ([(INT, (a, 0)) for a in args], None)
    return CFG(nt[b["table"][0][0]], rules)


def pick_cost(rng, mode, nargs, rec):
    """cost of a rule: an exact dyadic rational (> 0 on recursive grammars)"""
    if mode == "uniform":
        return Fraction(1)
    if mode == "int":
        return Fraction(rng.randint(1, 6))
    if mode == "dyadic":
        return Fraction(rng.randint(1, 40), 8)
    if mode == "skewed":      # leaves expensive, applications cheap: the cheapest programs are deep
        return Fraction(rng.choice([6, 7, 9, 12]) if nargs == 0 else rng.choice([1, 1, 1, 2]), 4) if rng.random() < 0.8 else Fraction(rng.randint(1, 12), 4)
    if mode == "ties":
        return Fraction(rng.choice([1, 2]))
    if mode == "wide":
        return Fraction(rng.choice([1, 3, 1000, 1000, 2500, 10 ** 6]))
    if mode == "zero":
        return Fraction(rng.choice([0, 0, 1, 2]))
    raise ValueError(mode)


def costs_of(case, g):
    rng = random.Random(case["wseed"])
    rec = case["family"] != "fin"
    return {S: {P: pick_cost(rng, case["costs"], len(rs[P][0]), rec) for P in rs} for S, rs in g.rules.items()}


def nt_of(a):
    return (a[0], (a[1], None))


# --------------------------------------------------------------------------- oracle
def expand_cost(g, costs, limit, memo=None):
    """[(program tuple, Fraction cost)] derivable from g.start (finite grammars); `memo` receives the
    programs of every non-terminal reached"""
    memo = {} if memo is None else memo

    def go(S):
        if S in memo:
            if memo[S] is None:
                raise RecursionError("cyclic rule table")
            return memo[S]
        memo[S] = None
        out = []
        for P, (args, _) in g.rules[S].items():
            partial = [((), costs[S][P])]
            for a in args:
                nS = nt_of(a)
                if nS not in g.rules:
                    raise E.Dangling()
                sub = go(nS)
                if len(partial) * len(sub) > 4 * limit:
                    raise E.TooLarge()
                partial = [(kids + (t,), w + w2) for kids, w in partial for t, w2 in sub]
            out.extend(((P, kids), w) for kids, w in partial)
            if len(out) > limit:
                raise E.TooLarge()
        memo[S] = out
        return out
    return go(g.start)


def cost_of(g, costs, t, S):
    """exact cost of program t from S (None when not derivable)"""
    P, kids = t
    if S not in g.rules or P not in g.rules[S]:
        return None
    args, _ = g.rules[S][P]
    if len(args) != len(kids):
        return None
    w = costs[S][P]
    for a, k in zip(args, kids):
        q = cost_of(g, costs, k, nt_of(a))
        if q is None:
            return None
        w += q
    return w


def min_costs(g, costs):
    """minimal cost of a program of every non-terminal (None: no program): value iteration to the
    fixpoint from 'nothing known' (rule costs >= 0)"""
    best = {S: None for S in g.rules}
    changed = True
    while changed:
        changed = False
        for S, rs in g.rules.items():
            for P, (args, _) in rs.items():
                w = costs[S][P]
                for a in args:
                    c = best.get(nt_of(a))
                    if c is None:
                        w = None
                        break
                    w += c
                if w is not None and (best[S] is None or w < best[S]):
                    best[S] = w
                    changed = True
    return best


def below(g, costs, S, bound, limit, strict=True):
    """all programs from S of cost < bound (<= when not strict); needs every rule cost > 0 on a cycle.
    Uses the minimal costs to prune; raises E.TooLarge"""
    mc = min_costs(g, costs)
    count = [0]

    def ok(c, b):
        return c < b if strict else c <= b

    def go(S, bound):
        res = []
        if mc.get(S) is None or not ok(mc[S], bound):
            return res
        for P, (args, _) in g.rules[S].items():
            nts = [nt_of(a) for a in args]
            if any(mc.get(x) is None for x in nts):
                continue
            rest = [sum((mc[x] for x in nts[k + 1:]), Fraction(0)) for k in range(len(nts))]
            partial = [((), costs[S][P])]
            for k, x in enumerate(nts):
                nxt = []
                for kids, w in partial:
                    for sub, w2 in go(x, bound - w - rest[k]):
                        nxt.append((kids + (sub,), w + w2))
                        count[0] += 1
                        if count[0] > limit:
                            raise E.TooLarge()
                partial = nxt
            for kids, w in partial:
                if ok(w, bound):
                    res.append(((P, kids), w))
        return res
    return go(S, bound)


def has_cycle(g):
    succ = {S: {nt_of(a) for args, _ in rs.values() for a in args} for S, rs in g.rules.items()}
    color = {}

    def dfs(S):
        color[S] = 1
        for x in succ.get(S, ()):
            if color.get(x) == 1:
                return True
            if x not in color and x in succ and dfs(x):
                return True
        color[S] = 2
        return False
    return any(S not in color and dfs(S) for S in g.rules)


# --------------------------------------------------------------------------- wire
def enc_cost(x):
    """float cost -> (multiples of the placeholder 1e99, exact finite part)"""
    x = float(x)
    if x >= 1e98:
        return (round(x / BIG), Fraction(0))
    return (0, Fraction(x))


def dec_cost(w):
    return (int(w[0]), Fraction(str(w[1])))


def impl_tables(en, g):
    nts = list(g.rules)
    return {
        "cl": [[enc_cost(c) for c in en._cost_lists[S]] for S in nts],
        "bank": [[(ci, [E.show(E.of_prog(p)) for p in ps]) for ci, ps in en._bank[S].items()] for S in nts],
        "queue": [[(enc_cost(el.cost), list(el.combination), str(el.P)) for el in en._queues[S]] for S in nts],
        "empties": [sorted(en._empties[S]) for S in nts],
        "deleted": sorted(E.show(E.of_prog(p)) for p in en._deleted),
    }


def model_tables(ans, wire, off):
    cl, bank, queue, empties, deleted = ans[off:off + 5]
    return {
        "cl": [[dec_cost(c) for c in l] for l in cl],
        "bank": [[(int(ci), [E.show(wire.unprog(p)) for p in ps]) for ci, ps in b] for b in bank],
        "queue": [[(dec_cost(c), [int(x) for x in comb], str(wire.sym.rev[int(P)])) for c, comb, P in q] for q in queue],
        "empties": [sorted(int(x) for x in e) for e in empties],
        "deleted": sorted(E.show(wire.unprog(p)) for p in deleted),
    }


def diff_tables(it, mt, corr, where):
    for k, what in (("cl", "cost lists"), ("queue", "queues (heap arrays)"), ("bank", "banks"), ("empties", "empty cost indices"), ("deleted", "deleted set")):
        if it[k] != mt[k]:
            d = ""
            if k != "deleted":
                j = next((j for j, (a, c) in enumerate(zip(it[k], mt[k])) if a != c), None)
                if j is not None:
                    d = f"non-terminal #{j}: impl {str(it[k][j])[:300]} model {str(mt[k][j])[:300]}"
            corr.append((f"{what} differ from the model {where}", d))


# --------------------------------------------------------------------------- running the implementation
def run_script(en, plan, limit):
    """plan: ("take", k) / ("merge", j): merge the j-th program yielded so far (mod count) into the first"""
    it = en.generator()
    yielded, steps, script = [], [], []
    err = None
    try:
        for act in plan:
            if act[0] == "merge":
                if not yielded:
                    continue
                other = yielded[act[1] % len(yielded)]
                en.merge_program(yielded[0], other)
                script.append(("merge", E.of_prog(other), other.type))
                continue
            ys, fin = [], False
            script.append(("take", act[1]))
            for _ in range(act[1]):
                try:
                    p = next(it)
                except StopIteration:
                    fin = True
                    break
                ys.append(p)
                yielded.append(p)
                if len(yielded) > limit:
                    raise E.TooLarge()
            steps.append(([E.of_prog(p) for p in ys], fin))
    except E.TooLarge:
        err = "TooLarge"
    except RecursionError:
        err = "RecursionError"
    except Exception as e:  # noqa: the exception class is the observable
        err = type(e).__name__
    return steps, script, err


def plan_of(case, n_lang):
    plan, done = [], 0
    for pos, j in sorted(case.get("merges") or []):
        pos = min(pos, n_lang if n_lang is not None else pos)
        if pos > done:
            plan.append(("take", pos - done))
            done = pos
        plan.append(("merge", j))
    if case.get("take"):
        if case["take"] > done:
            plan.append(("take", case["take"] - done))
    else:
        plan.append(("take", 1000000))
    return plan


def run_case(case, M, tier="quick"):
    """-> dict(trivial=…) or dict with grammar, costs, language (finite) / None, implementation run,
    model run and correspondence failures"""
    from synth.syntax.grammars.enumeration.beap_search import BeapSearch
    from synth.syntax.grammars.tagged_det_grammar import ProbDetGrammar
    g = build_grammar(case)
    if g is None:
        return {"trivial": "constructor"}
    if g.start not in g.rules or not g.rules[g.start]:
        return {"trivial": "empty"}
    if any(nt_of(a) not in g.rules for rs in g.rules.values() for args, _ in rs.values() for a in args):
        return {"trivial": "dangling-rule(grammar not clean)"}
    E.reorder_rules(g, case["order"], case["oseed"])
    costs = costs_of(case, g)
    cyclic = has_cycle(g)
    limit = MAX_LANG[tier]
    lang = None
    if not cyclic:
        try:
            by_nt = {}
            lang = expand_cost(g, costs, limit, by_nt)
        except E.TooLarge:
            return {"trivial": "too-large"}
    mc = min_costs(g, costs)
    if any(v is None for v in mc.values()):
        return {"trivial": "unproductive-non-terminal"}
    if cyclic and any(c <= 0 for ws in costs.values() for c in ws.values()):
        return {"trivial": "non-positive-cost-on-recursive-grammar"}
    if cyclic and not case.get("take"):
        return {"trivial": "recursive-without-prefix"}
    recursive_flag = bool(g.is_recursive())
    pcfg = ProbDetGrammar(g, {S: {P: float(w) for P, w in ws.items()} for S, ws in costs.items()})
    lang_sorted = sorted(E.show(p) for p, _ in lang) if lang is not None else []
    pred = E.make_filter(case.get("filter"), lang_sorted)

    def fresh():
        en = BeapSearch(pcfg)
        if pred is not None:
            en.filter = E.HFilter(pred)
        return en
    # the tables after the prologue
    en0 = fresh()
    corr = []
    init_err = None
    try:
        en0._init_non_terminal_(g.start)
        en0._reevaluate_()
    except Exception as e:  # noqa
        init_err = type(e).__name__
    wire = E.Wire()
    gw = wire.det(g, costs)
    nts = list(g.rules)
    out = {"g": g, "costs": costs, "lang": lang, "cyclic": cyclic, "recursive_flag": recursive_flag, "pred": pred, "corr": corr,
           "mc": mc, "wire": wire, "fresh": fresh, "pcfg": pcfg, "steps": [], "script": [], "err": init_err, "model": None, "spec": None}
    ans0 = M.ask([Sym("beap.init"), gw, recursive_flag, FUEL])
    if ans0[0] == "undef":
        if init_err is None:
            corr.append(("model undefined (fuel or uncaught exception) where the implementation initialises", ""))
        return out
    if init_err is not None:
        corr.append(("implementation raises in _init_non_terminal_/_reevaluate_ where the model runs", init_err))
        return out
    diff_tables(impl_tables(en0, g), model_tables(ans0, wire, 1), corr, "after _init_non_terminal_/_reevaluate_")
    spec_mc = [None if str(x) == "none" else Fraction(str(x)) for x in ans0[6]]
    if spec_mc != [mc[S] for S in nts]:
        raise RuntimeError(f"Lean minCostSpec and the harness oracle disagree: {spec_mc} vs {[mc[S] for S in nts]}")
    out["mincost_model_ok"] = str(ans0[7]) == "1"
    out["stable"] = str(ans0[8]) == "1"
    # theorem C03_Beap_minCost_stable: at a fixpoint of _reevaluate_ the model's first costs are the minimal costs
    if out["stable"] and not out["mincost_model_ok"]:
        raise RuntimeError("model: fixpoint state whose first costs differ from Beap.minCostSpec (contradicts C03_Beap_minCost_stable)")
    if recursive_flag and not out["stable"]:
        raise RuntimeError("model: _reevaluate_ returned a state that is not a fixpoint (contradicts C03_Beap_reevaluate_fixpoint)")
    impl_mc = [enc_cost(en0._cost_lists[S][0]) if en0._cost_lists[S] else None for S in nts]
    bad = [(k, impl_mc[k], mc[nts[k]]) for k in range(len(nts)) if impl_mc[k] is not None and impl_mc[k] != (0, mc[nts[k]])]
    out["mincost_bad"] = bad
    if cyclic and not recursive_flag:
        corr.append(("is_recursive() is false on a grammar with a cycle", ""))
    if not out["stable"]:
        corr.append(("the state after the prologue is not a fixpoint of _reevaluate_ (hypothesis Stable of C03_Beap_minCost_stable)", ""))
    # the run
    en = fresh()
    plan = plan_of(case, len(lang) if lang is not None else None)
    steps, script, err = run_script(en, plan, 4 * limit + 10)
    out.update(steps=steps, script=script, err=err, en=en)
    # the filter is asked about the programs of every non-terminal: hand over all the rejected ones
    rejected = []
    if pred is not None and lang is not None:
        seen_r = set()
        for progs in by_nt.values():
            for p, _ in progs or []:
                if not pred(p) and E.show(p) not in seen_r:
                    seen_r.add(E.show(p))
                    rejected.append(p)
    scriptw = []
    for a in script:
        if a[0] == "take":
            scriptw.append([Sym("take"), a[1]])
        else:
            scriptw.append([Sym("merge"), wire.prog(a[1]), [k for k, S in enumerate(nts) if S[0] == a[2]]])
    import inspect
    fixed = "len(bank[cost_index]) == 0" in inspect.getsource(BeapSearch._query_list_)     # fix C12-F13 applied?
    out["fixed_emptied"] = fixed
    ans = M.ask([Sym("beap.run"), gw, recursive_flag, [wire.prog(p) for p in rejected], scriptw, FUEL, fixed])
    if ans[0] == "undef":
        if err is None:
            corr.append(("model undefined (fuel or uncaught exception) where the implementation runs", ""))
        return out
    if err == "RecursionError":
        # the interpreter's recursion limit, not the enumerator: inconclusive (like a time-out)
        out["inconclusive"] = "impl-recursion-limit"
        return out
    if err is not None:
        corr.append(("implementation raises where the model runs", err))
        return out
    m_steps = [([E.show(wire.unprog(p)) for p in ys], str(fin) == "1") for ys, fin in ans[1]]
    i_steps = [([E.show(p) for p in ys], fin) for ys, fin in steps]
    out["model"] = m_steps
    if m_steps != i_steps:
        fi, fm = sum((s[0] for s in i_steps), []), sum((s[0] for s in m_steps), [])
        d = next((k for k, (a, c) in enumerate(zip(fi, fm)) if a != c), None)
        corr.append(("yielded sequence differs from the model",
                     f"first difference at position {d}: impl {fi[d:d+3] if d is not None else [(len(x[0]), x[1]) for x in i_steps]} model {fm[d:d+3] if d is not None else [(len(x[0]), x[1]) for x in m_steps]}"))
    diff_tables(impl_tables(en, g), model_tables(ans, wire, 2), corr, "after the run")
    # specification outputs for the yielded programs: membership and cost
    spec = [(str(m) == "1", None if str(c) == "none" else Fraction(str(c))) for m, c in ans[7]]
    out["spec"] = spec
    # hypothesis of the order theorem C03_Beap_order_partial, evaluated on the final state of the model
    out["cl_sorted"] = str(ans[8]) == "1"
    if not out["cl_sorted"]:
        corr.append(("the final cost list of the start symbol is not sorted (hypothesis sortedB of C03_Beap_order_partial)", ""))
    ys = flat(steps)
    if len(spec) == len(ys) and m_steps == i_steps:
        for t, (mem, c) in zip(ys, spec):
            oc = cost_of(g, costs, t, g.start)
            if (oc is not None) != mem or oc != c:
                raise RuntimeError(f"Lean spec (gen, costOf) and the harness oracle disagree on {E.show(t)}: {mem} {c} vs {oc}")
    return out


def flat(steps):
    return [p for ys, _ in steps for p in ys]


def base_tags(case, r):
    tags = ["family:" + case["family"], "costs:" + case["costs"], "order:" + case["order"], "recursive" if r["cyclic"] else "acyclic",
            "is_recursive()=" + str(r["recursive_flag"])]
    if r["lang"] is not None:
        n = len(r["lang"])
        tags.append("lang<10" if n < 10 else "lang<100" if n < 100 else "lang<1000" if n < 1000 else "lang>=1000")
    if case.get("take"):
        tags.append("prefix")
    return tags


def key_of(case):
    return json.dumps(case, sort_keys=True)


def sample_of(case, r):
    ys = [E.show(p) for p in flat(r["steps"])]
    return {"family": case["family"], "costs": case["costs"], "order": case["order"], "recursive": r["cyclic"],
            "language_size": len(r["lang"]) if r["lang"] is not None else "infinite", "yielded": len(ys), "first": ys[:5],
            "filter": case.get("filter"), "merges": case.get("merges"), "take": case.get("take")}


def ntie_groups(costs):
    c = {}
    for w in costs:
        c[w] = c.get(w, 0) + 1
    return sum(1 for v in c.values() if v > 1), len(c)


def shrink_case(case):
    import copy
    if case.get("merges"):
        for j in range(len(case["merges"])):
            c = copy.deepcopy(case)
            del c["merges"][j]
            yield c
    if case.get("filter"):
        c = copy.deepcopy(case)
        c["filter"] = None
        yield c
    if case.get("take") and case["take"] > 3:
        for k in (case["take"] // 2, case["take"] - 1):
            c = copy.deepcopy(case)
            c["take"] = k
            yield c
    b = case["build"]
    if case["family"] == "fin":
        if b["src"] == "prims":
            for j in range(len(b["prims"])):
                c = copy.deepcopy(case)
                del c["build"]["prims"][j]
                names = {n for n, _ in c["build"]["prims"]}
                c["build"]["forbidden"] = [[a, k, [x for x in v if x in names]] for a, k, v in b.get("forbidden", []) if a in names]
                yield c
        if b.get("max_depth", 0) > 1:
            c = copy.deepcopy(case)
            c["build"]["max_depth"] -= 1
            yield c
    elif case["family"] == "tbl":
        for k in range(len(b["table"])):
            for j in range(len(b["table"][k][1])):
                if len(b["table"][k][1]) > 1:
                    c = copy.deepcopy(case)
                    del c["build"]["table"][k][1][j]
                    yield c
    if case["order"] != "built":
        c = copy.deepcopy(case)
        c["order"] = "built"
        yield c
    if case["costs"] != "uniform" and case["family"] == "fin":
        c = copy.deepcopy(case)
        c["costs"] = "uniform"
        yield c


# --------------------------------------------------------------------------- float path (oracle only)
def float_probs(case, g, rng):
    """random probabilities spanning several orders of magnitude (not normalised: only products matter)"""
    return {S: {P: 10 ** (-4 * rng.random() ** 2) * 0.97 for P in rs} for S, rs in g.rules.items()}


def float_run(g, probs, take):
    from synth.syntax.grammars.enumeration.beap_search import enumerate_prob_grammar
    from synth.syntax.grammars.tagged_det_grammar import ProbDetGrammar
    en = enumerate_prob_grammar(ProbDetGrammar(g, probs))
    ys = []
    try:
        for p in itertools.islice(en.generator(), take):
            ys.append(E.of_prog(p))
    except Exception as e:  # noqa
        return ys, type(e).__name__
    return ys, None


# --------------------------------------------------------------------------- findings
def finding_of(case, r, pid):
    """decidable classifiers of the open findings of this part (functions of the case and of which
    _query_list_ the implementation has — never of the enumerator's output).
    C12-F12 / C12-F13: the script declares at least one merge (merge_program after the enumeration has started);
    C12-F13 (programs lost) only while the fix is not applied."""
    if pid == "C12" and case.get("merges"):
        return {"contains": "C12-F12", "lost": None if r.get("fixed_emptied") else "C12-F13", "other": "C12-F12"}
    return None
