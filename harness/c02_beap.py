"""C02, part beap — beap search yields every program of a finite grammar exactly once, nothing else,
and stops; on a recursive grammar every prefix is duplicate-free and inside the language and the
generator does not stop.

impl   : BeapSearch (beap_search.py) on an exact (dyadic) cost table
model  : PS.Beap.next (driver ops beap.run / beap.init): yielded sequence, cost lists, banks, heap
         arrays, empty cost indices and the deleted set are compared exactly, after the prologue
         (_init_non_terminal_, _reevaluate_) and after the run
oracle : language and costs by exhaustive expansion of the rule table (harness/enumbeap.py)
search : enumerate_prob_grammar with random float probabilities (costs -log p; oracle only)
"""
import random

from harness import enumbeap as B
from harness import enumhs as E

CASE_TIMEOUT = {"quick": 150, "thorough": 600}


def gen(rng, i, tier):
    return B.gen_case(rng, i, tier, "C02")


def shrink(case):
    return B.shrink_case(case)


def common_failures(case, r, failures):
    for what, detail in r["corr"]:
        failures.append({"kind": "corr", "what": what, "detail": detail})
    if r.get("mincost_bad"):
        failures.append({"kind": "corr", "what": "the first cost of a non-terminal after _init_non_terminal_/_reevaluate_ is not its minimal cost",
                         "detail": str(r["mincost_bad"][:3])})


@B.deep
def check(case, M):
    tier = case.get("tier", "quick")
    r = B.run_case(case, M, tier)
    if "trivial" in r:
        return {"key": B.key_of(case), "nontrivial": False, "tags": ["trivial:" + r["trivial"]], "failures": []}
    if r.get("inconclusive"):
        return {"key": B.key_of(case), "nontrivial": False, "tags": ["inconclusive:" + r["inconclusive"]], "failures": []}
    failures = []
    fid = B.finding_of(case, r, "C02")

    def fail(kind, what, detail):
        f = {"kind": kind, "what": what, "detail": detail}
        if fid:
            f["finding"] = fid.get("other") if isinstance(fid, dict) else fid
        failures.append(f)
    common_failures(case, r, failures)
    ys = B.flat(r["steps"])
    Y = [E.show(p) for p in ys]
    g, costs = r["g"], r["costs"]
    if r["err"] is not None:
        fail("oracle", "the enumerator raises instead of enumerating", r["err"])
    else:
        if len(Y) != len(set(Y)):
            fail("oracle", "a program is yielded twice", next(y for k, y in enumerate(Y) if y in Y[:k]))
        extra = [E.show(t) for t in ys if B.cost_of(g, costs, t, g.start) is None]
        if extra:
            fail("oracle", "a program outside the language is yielded", str(extra[:3]))
        if r["lang"] is not None and not case.get("take"):
            if not r["steps"] or not r["steps"][-1][1]:
                fail("oracle", "the enumerator does not stop", "")
            L = {E.show(p) for p, _ in r["lang"]}
            missing = sorted(L - set(Y))
            if missing:
                fail("oracle", "a program of the language is never yielded", f"{len(missing)} of {len(L)} missing, e.g. {missing[:3]}")
        elif r["cyclic"]:
            if len(Y) < case["take"]:
                fail("oracle", "the generator stops although the language is infinite", f"after {len(Y)} programs")
    if case.get("fseed") is not None and not failures and r["lang"] is not None:
        float_search(case, r, fail)
    cs = [c for _, c in r["lang"]] if r["lang"] is not None else [B.cost_of(g, costs, t, g.start) for t in ys]
    ties, ncost = B.ntie_groups(cs)
    tags = B.base_tags(case, r)
    if ties:
        tags.append("ties")
    nontrivial = len(cs) >= 10 and ncost >= 2 and ties >= 1
    return {"key": B.key_of(case), "nontrivial": nontrivial, "tags": tags, "failures": failures, "sample": B.sample_of(case, r)}


def float_search(case, r, fail):
    rng = random.Random(case["fseed"])
    g = r["g"]
    L = {E.show(p) for p, _ in r["lang"]}
    ys, err = B.float_run(g, B.float_probs(case, g, rng), 4 * len(L) + 10)
    if err is not None:
        fail("oracle", "the enumerator raises instead of enumerating (float costs)", err)
        return
    Y = [E.show(t) for t in ys]
    if len(Y) != len(set(Y)):
        fail("oracle", "a program is yielded twice (float costs)", "")
    if set(Y) - L:
        fail("oracle", "a program outside the language is yielded (float costs)", str(sorted(set(Y) - L)[:3]))
    if L - set(Y):
        fail("oracle", "a program of the language is never yielded (float costs)", f"{len(L - set(Y))} of {len(L)} missing, e.g. {sorted(L - set(Y))[:3]}")


def corpus():
    return [
        # the test-suite grammar of tests/.../test_beap_search.py, uniform costs
        {"family": "fin", "build": {"src": "testdsl", "request": ["->", "int", "int"], "kind": "cfg", "max_depth": 3, "min_var": 1, "n_gram": 2},
         "order": "built", "oseed": 0, "costs": "uniform", "wseed": 0, "filter": None, "merges": [], "take": None, "fseed": 3},
        # skewed costs on an arithmetic DSL
        {"family": "fin", "build": {"src": "prims", "prims": [["+", ["->", "int", ["->", "int", "int"]]], ["1", "int"], ["0", "int"], ["neg", ["->", "int", "int"]]], "forbidden": [],
                                    "request": ["->", "int", "int"], "kind": "cfg", "max_depth": 3, "min_var": 1, "n_gram": 2},
         "order": "shuffled", "oseed": 5, "costs": "skewed", "wseed": 14, "filter": None, "merges": [], "take": None, "fseed": 14},
    ]
