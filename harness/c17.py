"""C17 — instantiating constants expands templates without moving probability mass.

impl   : CFG.depth_constraint(…, constant_types) [optionally already instantiated once],
         ProbDetGrammar, UCFG.from_CFG, ProbUGrammar, TaggedDetGrammar: .instantiate_constants(table);
         Program.all_constants_instantiation(table)
model  : PS.IC.inst / instTags / instU / instUTags / allInst / probability   (driver ops c17.*)
spec   : PS.IC.isInst / templ / prob (product of rule weights) / row sums
oracle : this file: `insts` (every slot replaced independently by a value of its type),
         language = union of the instantiations of the templates, each from one template,
         probability of an instantiation = probability of the template / product of the numbers
         of values, mass conservation, row sums.
Languages are read off the rule tables by exhaustive top-down expansion (no use of the
membership test, the counters or the enumerators of the implementation).

Variants of the code.  The Lean model takes a `Fix` = which of the proposed repairs
(fixes_proposed/C17-F2.diff, C17-F3.diff, C17-F4.diff) are in the code.  `probe_fix` runs the
implementation on the three former witnesses and asks the driver for that variant, so the check
is green on /repo as it is (failures in the regions of the findings that are still present are
reported as those known findings) and on the repaired tree (where the former witnesses pass
and any failure in the former regions is a violation).
"""
import ast
import hashlib
import itertools
import json
from fractions import Fraction

from harness import gen as G
from harness import wire as W
from harness.oracle import TypedTerms
from harness.sexp import Sym

CASE_TIMEOUT = {"quick": 120, "thorough": 600}
MAX_TEMPL = {"quick": 300, "thorough": 1500}
MAX_INST = {"quick": 2500, "thorough": 12000}
TOL = Fraction(1, 10 ** 12)

VALUE_POOL = {
    "int": [["i", 0], ["i", 1], ["i", 2], ["i", -3], ["b", True], ["f", 1.0], ["s", "1"], ["i", 7]],
    "bool": [["b", True], ["b", False], ["i", 1], ["i", 0], ["s", "True"]],
    "str": [["s", "a"], ["s", ""], ["s", "b c"], ["s", "1"], ["i", 1], ["s", "<str>"]],
}


# ------------------------------------------------------------------ which repairs are in the implementation
_FIX = None


def probe_fix():
    """(f2, f3, f4): behaviour of the implementation at the witnesses of C17-F2 / C17-F3 / C17-F4"""
    global _FIX
    if _FIX is not None:
        return _FIX
    from synth.syntax import CFG, DSL, ProbDetGrammar
    from synth.syntax.program import Constant
    from synth.syntax.type_system import BOOL, INT, Arrow
    dsl = DSL({"+": Arrow(INT, Arrow(INT, INT)), "1": INT})
    cfg = CFG.depth_constraint(dsl, Arrow(INT, INT), 2, constant_types={INT})
    once = cfg.instantiate_constants({INT: [5, 7]})
    twice = once.instantiate_constants({INT: [5, 6]})
    f2 = all(list(map(str, once.rules[S])) == list(map(str, twice.rules[S])) for S in once.rules)
    p = ProbDetGrammar.uniform(cfg).instantiate_constants({INT: [5, 5]})
    f3 = all(abs(sum(row.values()) - 1) < 1e-9 for row in p.tags.values())
    try:
        f4 = [str(x) for x in Constant(BOOL).all_constants_instantiation({INT: [1]})] == [str(Constant(BOOL))]
    except KeyError:
        f4 = False
    _FIX = (f2, f3, f4)
    return _FIX


# ------------------------------------------------------------------ values
def value_of(enc):
    k, v = enc
    if k == "i":
        return int(v)
    if k == "b":
        return bool(v)
    if k == "f":
        return float(v)
    return str(v)


def canon(v):
    """canonical text of a Python value: equal texts <=> equal Constants (value == and str ==)"""
    if isinstance(v, bool):
        return "b:" + repr(v)
    if isinstance(v, int):
        return "i:" + repr(v)
    if isinstance(v, float):
        return "f:" + repr(v)
    if isinstance(v, str):
        return "s:" + repr(v)
    return type(v).__name__ + ":" + repr(v)


def uncanon(s):
    return ast.literal_eval(s.split(":", 1)[1])


def _tt(t):
    return tuple(_tt(x) for x in t) if isinstance(t, list) else t


# ------------------------------------------------------------------ generation
def gen(rng, i, tier):
    """a few attempts to get a case whose templates contain slots (the others are kept with probability 1/4)"""
    for _ in range(6):
        case = _gen(rng, i, tier)
        if _useful(case) or rng.random() < 0.25:
            break
    return case


def _useful(case):
    tt = TypedTerms([(n, _tt(t)) for n, t in case["prims"]], {}, _tt(case["request"]), case["max_depth"], case["min_var"],
                    [_tt(t) for t in case["const_types"]], case["recursive"])
    if not 2 <= tt.count() <= 5000:
        return False
    keys = [_tt(e[0]) for e in case["table"]]
    terms = tt.terms()
    return any(a for _, a in terms) and any(s[1] in keys for t in terms for s in _slots(t))


def _gen(rng, i, tier):
    syn = G.random_syntax(rng)
    req = G.random_request(rng, syn)
    bases = syn["bases"]
    pool = syn["pool"]
    const_types = [b for b in bases if rng.random() < 0.6]
    if not const_types and rng.random() < 0.9:
        const_types = [rng.choice(bases)]
    if rng.random() < 0.15:
        lt = [t for t in pool if not isinstance(t, str)]
        if lt:
            const_types.append(rng.choice(lt))
    case = {
        "prims": syn["prims"], "forbidden": [[k[0], k[1], v] for k, v in syn["forbidden"].items()],
        "request": req,
        "max_depth": rng.choice([1, 2, 2, 3, 3, 3, 4]),
        "min_var": rng.choice([0, 0, 1, 1, 1, 2]),
        "n_gram": rng.choice([2, 2, 2, 2, 3, 1]),
        "recursive": rng.random() < 1 / 8,
        "const_types": const_types,
        "weights": rng.choice(["uniform", "dyadic", "dyadic", "raw"]),
        "wseed": rng.randrange(1 << 30),
        "nseed": rng.randrange(1 << 30),
    }
    # the table: 0/1/2/3 (4 rarely) values per type; types without slot; a slot type left out; duplicates
    r = rng.random()
    mode = "plain" if r < 0.55 else "empty" if r < 0.67 else "dups" if r < 0.77 else "twice" if r < 0.88 else "missing"
    table = []
    for t in const_types:
        if mode == "missing" and rng.random() < 0.5:
            continue
        table.append([t, _values(rng, t, rng.choice([1, 1, 2, 2, 2, 3, 4]))])
    for t in ["int", "bool", "str", ["list", "int"]]:
        if _tt(t) not in [_tt(x) for x in const_types] and rng.random() < 0.3:
            table.append([t, _values(rng, t, rng.choice([0, 1, 2]))])      # type without slot
    for n, t in syn["prims"]:
        if not isinstance(t, str) and t[0] == "->" and rng.random() < 0.25:
            if _untt(t) not in [_untt(_tt(e[0])) for e in table]:
                table.append([t, [["s", f"fun{j}"] for j in range(rng.choice([1, 2, 2, 3]))]])   # constants in head position (program side)
    if mode == "empty" and table:
        table[rng.randrange(len(table))][1] = []
    if mode == "dups" and table:
        e = table[rng.randrange(len(table))]
        if e[1]:
            e[1].insert(rng.randrange(len(e[1]) + 1), rng.choice(e[1]))
    rng.shuffle(table)
    case["table"] = table
    case["pre_table"] = None
    if mode == "twice":
        case["pre_table"] = [[t, _values(rng, t, rng.choice([1, 2, 2]))] for t in const_types if rng.random() < 0.7]
    # keep the languages small enough to enumerate
    while case["max_depth"] > 1:
        nt, ni = _sizes(case)
        if nt <= MAX_TEMPL[tier] and ni <= MAX_INST[tier]:
            break
        case["max_depth"] -= 1
    return case


def _values(rng, t, n):
    t = _tt(t)
    pool = VALUE_POOL.get(t if isinstance(t, str) else "int")
    vals = []
    for v in rng.sample(pool, min(n, len(pool))):
        vals.append(v)
    return vals


def _sizes(case):
    tt = TypedTerms([(n, _tt(t)) for n, t in case["prims"]], {}, _tt(case["request"]), case["max_depth"], case["min_var"],
                    [_tt(t) for t in case["const_types"]], case["recursive"])
    nt = tt.count()
    if nt > 5000:
        return nt, nt
    nvals = {json.dumps(e[0]): max(1, len(e[1]), len([x for p in (case.get("pre_table") or []) if p[0] == e[0] for x in p[1]])) for e in case["table"]}
    total = 0
    for t in tt.terms():
        k = 1
        for s in _slots(t):
            k *= nvals.get(json.dumps(_untt(s[1])), 1)
        total += k
    return nt, total


def _untt(t):
    return [_untt(x) for x in t] if isinstance(t, tuple) else t


def _slots(t):
    h, args = t
    if h[0] == "C" and h[2] == "":
        yield h
    for a in args:
        yield from _slots(a)


def shrink(case):
    for j in range(len(case["prims"])):
        c = dict(case)
        c["prims"] = case["prims"][:j] + case["prims"][j + 1:]
        names = {n for n, _ in c["prims"]}
        c["forbidden"] = [[a, b, [x for x in v if x in names]] for a, b, v in case["forbidden"] if a in names]
        yield c
    if case["forbidden"]:
        c = dict(case)
        c["forbidden"] = []
        yield c
    if case["max_depth"] > 1:
        c = dict(case)
        c["max_depth"] -= 1
        yield c
    for j in range(len(case["table"])):
        c = dict(case)
        c["table"] = case["table"][:j] + case["table"][j + 1:]
        yield c
        for k in range(len(case["table"][j][1])):
            c = dict(case)
            e = case["table"][j]
            c["table"] = case["table"][:j] + [[e[0], e[1][:k] + e[1][k + 1:]]] + case["table"][j + 1:]
            yield c
    for j in range(len(case["const_types"])):
        c = dict(case)
        c["const_types"] = case["const_types"][:j] + case["const_types"][j + 1:]
        yield c
    if case.get("pre_table"):
        c = dict(case)
        c["pre_table"] = None
        yield c
    if case["weights"] != "uniform":
        c = dict(case)
        c["weights"] = "uniform"
        yield c
    if case["recursive"]:
        c = dict(case)
        c["recursive"] = False
        yield c


# ------------------------------------------------------------------ implementation <-> harness terms
def sym_h(P):
    """repo symbol -> harness head ("P", name, ty) | ("V", i, ty) | ("C", ty, canonical value or "")"""
    from synth.syntax.program import Constant, Primitive, Variable
    if isinstance(P, Primitive):
        return ("P", P.primitive, W.repo_tt(P.type))
    if isinstance(P, Variable):
        return ("V", P.variable, W.repo_tt(P.type))
    if isinstance(P, Constant):
        return ("C", W.repo_tt(P.type), canon(P.value) if P.has_value() else "")
    raise ValueError(repr(P))


def sym_w(h):
    if h[0] == "P":
        return [Sym("P"), h[1], W.tt_wire(h[2])]
    if h[0] == "V":
        return [Sym("V"), h[1], W.tt_wire(h[2])]
    return [Sym("C"), W.tt_wire(h[1]), h[2]]


def term_w(t):
    return [Sym("A"), sym_w(t[0])] + [term_w(a) for a in t[1]]


def wire_sym_h(w):
    if w[0] == "P":
        return ("P", str(w[1]), W.wire_ty_tt(w[2]))
    if w[0] == "V":
        return ("V", int(w[1]), W.wire_ty_tt(w[2]))
    return ("C", W.wire_ty_tt(w[1]), str(w[2]))


def wire_term(w):
    return (wire_sym_h(w[1]), [wire_term(a) for a in w[2:]])


def prog_h(p):
    from synth.syntax.program import Function
    if isinstance(p, Function):
        return (sym_h(p.function), [prog_h(a) for a in p.arguments])
    return (sym_h(p), [])


def to_repo(t, prim_objs):
    from synth.syntax.program import Constant, Function, Primitive, Variable
    h, args = t
    if h[0] == "P":
        head = prim_objs.get((h[1], h[2])) or Primitive(h[1], W.tt_repo(h[2]))
    elif h[0] == "V":
        head = Variable(h[1], W.tt_repo(h[2]))
    else:
        head = Constant(W.tt_repo(h[1])) if h[2] == "" else Constant(W.tt_repo(h[1]), uncanon(h[2]), True)
    if not args:
        return head
    return Function(head, [to_repo(a, prim_objs) for a in args])


def key(t):
    return json.dumps(t)


def show(t):
    h, args = t
    hs = h[1] if h[0] == "P" else f"var{h[1]}" if h[0] == "V" else (h[2] if h[2] else "<" + G.ty_str(h[1]) + ">")
    return hs if not args else "(" + " ".join([hs] + [show(a) for a in args]) + ")"


# ------------------------------------------------------------------ rule tables
def nt_w(S):
    """(Type, ((NGram, depth), None))"""
    return [W.ty_wire(S[0]), [[sym_w(sym_h(s)), i] for (s, i) in S[1][0][0].predecessors], S[1][0][1]]


def arg_w(a):
    """(Type, (NGram, depth))"""
    return [W.ty_wire(a[0]), [[sym_w(sym_h(s)), i] for (s, i) in a[1][0].predecessors], a[1][1]]


def cfg_w(cfg):
    return [Sym("cfg"), nt_w(cfg.start),
            [[nt_w(S), [[sym_w(sym_h(P)), [arg_w(a) for a in cfg.rules[S][P][0]]] for P in cfg.rules[S]]] for S in cfg.rules]]


def rat_w(x):
    f = Fraction(x)
    return [f.numerator, f.denominator]


def tags_w(tags):
    return [[nt_w(S), [[sym_w(sym_h(P)), rat_w(tags[S][P])] for P in tags[S]]] for S in tags]


def utable_w(rules):
    return [[arg_w(S), [[sym_w(sym_h(P)), [[arg_w(a) for a in alt] for alt in rules[S][P]]] for P in rules[S]]] for S in rules]


def utags_w(tags):
    return [[arg_w(S), [[sym_w(sym_h(P)), [[[arg_w(a) for a in alt], rat_w(w)] for alt, w in tags[S][P].items()]] for P in tags[S]]] for S in tags]


def tbl_w(table):
    return [[W.tt_wire(_tt(t)), [canon(value_of(v)) for v in vals]] for t, vals in table]


def plain(x):
    if isinstance(x, (list, tuple)):
        return [plain(y) for y in x]
    if isinstance(x, bool):
        return "1" if x else "0"
    return str(x)


def frac(w):
    return Fraction(int(w[0]), int(w[1]))


def expand_det(rules, start, limit):
    """language of a deterministic rule table, as harness terms (one per derivation)"""
    memo = {}

    def go(S):
        if S in memo:
            if memo[S] is None:
                raise RecursionError("cyclic rule table")
            return memo[S]
        memo[S] = None
        out = []
        for P, (args, _) in rules[S].items():
            subs = []
            for a in args:
                nS = (a[0], (a[1], None))
                r = go(nS) if nS in rules else []
                subs.append(r)
                if not r:
                    break
            else:
                h = sym_h(P)
                for combo in itertools.product(*subs):
                    out.append((h, list(combo)))
                    if len(out) > limit:
                        raise OverflowError
        memo[S] = out
        return out
    return go(start) if start in rules else []


def expand_u(rules, starts, limit):
    memo = {}

    def go(S):
        if S in memo:
            if memo[S] is None:
                raise RecursionError("cyclic rule table")
            return memo[S]
        memo[S] = None
        out = []
        for P, alts in rules[S].items():
            h = sym_h(P)
            for args in alts:
                subs = []
                for a in args:
                    r = go(a) if a in rules else []
                    subs.append(r)
                    if not r:
                        break
                else:
                    for combo in itertools.product(*subs):
                        out.append((h, list(combo)))
                        if len(out) > limit:
                            raise OverflowError
        memo[S] = out
        return out
    res = []
    for s in sorted(starts, key=str):
        res += go(s) if s in rules else []
    return res


# ------------------------------------------------------------------ the oracle (from the statement)
def insts(table, t):
    """all terms obtained from t by replacing every constant without value whose type has an
    entry in the table by a value of that entry, independently per occurrence (set semantics
    inside one list: a value listed twice is one value)"""
    h, args = t
    if h[0] == "C" and h[2] == "" and h[1] in table:
        heads = [("C", h[1], v) for v in dict.fromkeys(table[h[1]])]
    else:
        heads = [h]
    subs = [insts(table, a) for a in args]
    return [(hh, list(c)) for hh in heads for c in itertools.product(*subs)]


def ninst(table, t):
    n = 1
    for s in _slots(t):
        if s[1] in table:
            n *= len(dict.fromkeys(table[s[1]]))
    return n


def weight(mode, wseed, k):
    hsh = int(hashlib.sha1(f"{wseed}|{k}".encode()).hexdigest(), 16)
    return hsh


def make_tags(mode, wseed, rows):
    """rows: {S: [P…]} -> {S: {P: float}}, independent of the iteration order of the table"""
    tags = {}
    for S, Ps in rows.items():
        ks = {P: json.dumps([plain(nt_key(S)), plain(sym_w(sym_h(P)))]) for P in Ps}
        order = sorted(Ps, key=lambda P: ks[P])
        n = len(order)
        if mode == "uniform" or n == 0:
            tags[S] = {P: 1 / n for P in Ps}
            continue
        if mode == "raw":
            tags[S] = {P: (1 + weight(mode, wseed, ks[P]) % 8) / 8 for P in Ps}
            continue
        k = 2
        while (1 << k) < 2 * n:
            k += 1
        units = {P: 1 for P in order}
        rest = (1 << k) - n
        for j in range(8):
            if rest <= 0:
                break
            P = order[weight(mode, wseed, f"{j}|{ks[order[0]]}") % n]
            give = rest if j == 7 else (weight(mode, wseed, f"g{j}|{ks[order[0]]}") % (rest + 1))
            units[P] += give
            rest -= give
        tags[S] = {P: units[P] / (1 << k) for P in Ps}
    return tags


def nt_key(S):
    try:
        return nt_w(S)
    except Exception:
        return arg_w(S)


# ------------------------------------------------------------------ check

def _deep_tags(t):
    return {k: _deep_tags(v) for k, v in t.items()} if isinstance(t, dict) else t


def _scale_tags(t, f):
    return {k: _scale_tags(v, f) for k, v in t.items()} if isinstance(t, dict) else t * f


def alias_check(make_template, tbl_repo, fail, what):
    """The instantiated grammar is a new grammar: normalise() of one of the two (it rewrites weights in place) must
    not change the other.  Run on throw-away copies whose weights are NOT normalised (every weight times 3), because
    normalising normalised weights changes nothing."""
    for direction in ("instance", "template"):
        try:
            a = make_template()
            b = a.instantiate_constants(tbl_repo)
        except Exception:  # noqa  (reported by the main flow)
            return
        edited, other = (b, a) if direction == "instance" else (a, b)
        before = _deep_tags(other.tags)
        try:
            edited.normalise()
        except Exception:  # noqa  (empty rows: finding C17-F1 region, reported by the main flow)
            return
        if _deep_tags(other.tags) != before:
            fail("oracle", f"{what}: the instantiated grammar shares weight tables with its template (normalise() of the {direction} changes the weights of the other grammar)", "")
            return


def check(case, M):
    import random
    from synth.syntax import CFG, DSL, UCFG, ProbDetGrammar, ProbUGrammar
    from synth.syntax.grammars.tagged_det_grammar import TaggedDetGrammar
    from synth.syntax.program import Constant
    rng = random.Random(case["nseed"])
    prims = [(n, _tt(t)) for n, t in case["prims"]]
    forb = {(a, b): set(v) for a, b, v in case["forbidden"]}
    request = _tt(case["request"])
    const_types = [_tt(t) for t in case["const_types"]]
    table_l = [[_tt(t), [list(v) for v in vals]] for t, vals in case["table"]]
    pre_l = [[_tt(t), [list(v) for v in vals]] for t, vals in (case.get("pre_table") or [])]
    md, mv, ng, rec = case["max_depth"], case["min_var"], case["n_gram"], case["recursive"]
    tier_limit = MAX_INST["thorough"] * 2
    failures = []
    tags = [f"depth{md}", f"weights-{case['weights']}"]
    keytxt = json.dumps([case["prims"], case["forbidden"], case["request"], md, mv, ng, rec, case["const_types"], case["table"],
                         case.get("pre_table"), case["weights"], case["wseed"] if case["weights"] != "uniform" else 0])
    dsl = DSL({n: W.tt_repo(t) for n, t in prims}, {k: set(v) for k, v in forb.items()})
    tr = W.tt_repo(request)
    prim_objs = {(p.primitive, W.repo_tt(p.type)): p for p in dsl.list_primitives}
    cts = {W.tt_repo(t) for t in const_types}
    try:
        cfg = CFG.depth_constraint(dsl, tr, md, mv, ng, rec, cts)
    except KeyError:
        return {"key": keytxt, "nontrivial": False, "tags": tags + ["empty-language(KeyError)"], "failures": []}
    if pre_l:
        cfg = cfg.instantiate_constants({W.tt_repo(t): [value_of(v) for v in vals] for t, vals in pre_l})
        tags.append("already-instantiated-once")
    table = {t: [canon(value_of(v)) for v in vals] for t, vals in table_l}          # oracle's table (harness types, canonical values)
    tbl_repo = {W.tt_repo(t): [value_of(v) for v in vals] for t, vals in table_l}
    # ---- which repairs the implementation contains (probed at the former witnesses)
    FX = probe_fix()
    fx_w = [int(FX[0]), int(FX[1]), int(FX[2])]
    tags.append("code-variant: " + ("as it is in /repo" if not any(FX) else "all three repairs" if all(FX) else "repairs " + "+".join(n for n, b in zip(("F2", "F3", "F4"), FX) if b)))
    # ---- decidable classifiers of the findings, on the input grammar and the table
    slot_types = set()
    assigned_types = set()
    assigned = set()
    for S in cfg.rules:
        for P in cfg.rules[S]:
            if isinstance(P, Constant):
                (assigned_types if P.has_value() else slot_types).add(W.repo_tt(P.type))
                if P.has_value():
                    assigned.add((W.repo_tt(P.type), canon(P.value)))
    inst_types = slot_types | (set() if FX[0] else assigned_types)      # the types of the constants the code instantiates
    f1 = any(t in table and len(table[t]) == 0 for t in inst_types)
    f2 = (not FX[0]) and any(t in table for t in assigned_types)
    f3 = (not FX[1]) and any(t in table and len(set(table[t])) != len(table[t]) for t in inst_types)
    # a constant of the grammar already carries a value that the table lists for its type: outside the
    # hypothesis rulesOK of the generic theorems when the code leaves such a constant alone (repair of F2) ...
    listed = FX[0] and any(t in table and v in table[t] for t, v in assigned)
    # ... and a genuinely ambiguous input (outside grammarWF) when that type still has a slot in the grammar
    ambiguous = any(t in table and t in slot_types and v in table[t] for t, v in assigned)
    region = "C17-F2" if f2 else "C17-F1" if f1 else "C17-F3" if f3 else None
    if f1:
        tags.append("empty-value-list-of-a-slot(C17-F1 region)")
    if f2:
        tags.append("assigned-constant-of-a-table-type(C17-F2 region)")
    elif any(t in table for t in assigned_types):
        tags.append("assigned-constant-of-a-table-type(former C17-F2 region)")
    if f3:
        tags.append("duplicate-values-of-a-slot(C17-F3 region)")
    elif any(t in table and len(set(table[t])) != len(table[t]) for t in inst_types):
        tags.append("duplicate-values-of-a-slot(former C17-F3 region)")
    if ambiguous:
        tags.append("assigned-constant-listed-for-a-slot-type(ambiguous templates)")
    if any(t not in slot_types and t not in assigned_types for t in table):
        tags.append("table-type-without-slot")
    if any(t not in table for t in slot_types):
        tags.append("slot-type-not-in-table")
    for t in slot_types:
        if t in table:
            tags.append(f"values={min(len(table[t]), 4)}")

    def fail(kind, what, detail, mass=False, lang=False, fid=None):
        f = {"kind": kind, "what": what, "detail": str(detail)[:600]}
        if fid:
            f["finding"] = fid
        elif f2 and (mass or lang):
            f["finding"] = "C17-F2"
        elif mass and f1:
            f["finding"] = "C17-F1"
        elif mass and f3:
            f["finding"] = "C17-F3"
        failures.append(f)

    # ---- templates: the language of the input grammar, read off its rule table
    try:
        templates = expand_det(cfg.rules, cfg.start, MAX_TEMPL["thorough"] * 2)
    except (OverflowError, RecursionError):
        return {"key": keytxt, "nontrivial": False, "tags": tags + ["too-large"], "failures": []}
    if sum(ninst(table, t) for t in templates) > tier_limit:
        return {"key": keytxt, "nontrivial": False, "tags": tags + ["too-large"], "failures": []}
    rows = {S: list(cfg.rules[S]) for S in cfg.rules}
    ptags = make_tags(case["weights"], case["wseed"], rows)
    pg = ProbDetGrammar(cfg, ptags)
    # ---- the implementation
    try:
        g2 = cfg.instantiate_constants(tbl_repo)
        p2 = pg.instantiate_constants(tbl_repo)
    except Exception as e:  # noqa
        fail("oracle", "instantiate_constants raises", f"{type(e).__name__}: {e}")
        return {"key": keytxt, "nontrivial": False, "tags": tags, "failures": failures}
    alias_check(lambda: ProbDetGrammar(cfg, _scale_tags(ptags, 3.0)), tbl_repo, fail, "ProbDetGrammar.instantiate_constants")
    if g2.type_request != cfg.type_request or p2.type_request != pg.type_request or p2.grammar.type_request != cfg.type_request:
        fail("oracle", "instantiate_constants changes the type request",
             f"{g2.type_request} / {p2.type_request} / {p2.grammar.type_request} instead of {cfg.type_request} / {pg.type_request} / {cfg.type_request}")
    if g2.start != cfg.start:
        fail("oracle", "instantiate_constants changes the start symbol", "")
    # ---- expected language (oracle) and actual language (expansion of the new table)
    per_template = [insts(table, t) for t in templates]
    expected = {}
    clash = None
    for t, l in zip(templates, per_template):
        for x in l:
            k = key(x)
            if k in expected and clash is None:
                clash = (show(expected[k][0]), show(t), show(x))
            expected.setdefault(k, (t, x))
    try:
        actual = expand_det(g2.rules, g2.start, tier_limit * 2)
    except RecursionError:
        actual = None
        fail("oracle", "instantiated grammar has a cyclic rule table", "")
    except OverflowError:
        actual = None
        fail("oracle", "language of the instantiated grammar differs from the instantiations of the templates", "too many programs", lang=True)
    if actual is not None:
        akeys = [key(x) for x in actual]
        if len(set(akeys)) != len(akeys):
            fail("oracle", "an instantiated program is derived more than once", "", lang=True)
        if set(akeys) != set(expected):
            extra = [show(json_term(k)) for k in sorted(set(akeys) - set(expected))[:3]]
            missing = [show(json_term(k)) for k in sorted(set(expected) - set(akeys))[:3]]
            fail("oracle", "language of the instantiated grammar differs from the instantiations of the templates",
                 f"extra={extra} missing={missing} ({len(set(akeys))} vs {len(expected)})", lang=True)
        try:
            np_ = g2.programs()
            if np_ != len(expected):
                fail("oracle", "programs() of the instantiated grammar is not the number of instantiations", f"{np_} vs {len(expected)}", lang=True)
        except Exception as e:  # noqa
            fail("oracle", "programs() raises on the instantiated grammar", type(e).__name__)
    if clash is not None and not ambiguous:
        raise RuntimeError(f"oracle: an instantiation has two templates although no assigned constant is listed for a slot type: {clash}")
    # ---- candidates: members of the expected language + neighbours
    exp_list = [expected[k] for k in sorted(expected)]
    sample = exp_list if len(exp_list) <= 250 else rng.sample(exp_list, 250)
    neigh = neighbours(rng, templates, [x for _, x in sample], table, const_types)
    cands = [x for _, x in sample] + neigh
    tsample = templates if len(templates) <= 60 else rng.sample(templates, 60)
    ans = M.ask([Sym("c17.det"), fx_w, cfg_w(cfg), tags_w(ptags), tbl_w(table_l), [term_w(t) for t in tsample], [term_w(t) for t in cands]])
    hyps, m_cfg, m_tags, m_sums0, m_sums1, m_templ, m_cand = ans
    g_rules, g_tags, g_ne_rules, g_ne_tags, w_rules, w_tags, w_tagsg, w_ne_rules, w_ne_tags = [x == "1" for x in hyps]
    if g_rules != (not f2 and not f3 and not listed) or g_ne_rules != (not f1) or w_rules != (not ambiguous) or (FX[0] and w_ne_rules != (not f1)):
        raise RuntimeError(f"Lean hypotheses {hyps} and the harness classifiers f1={f1} f2={f2} f3={f3} listed={listed} ambiguous={ambiguous} disagree")
    if all(FX):
        # the theorems for the repaired code: grammarWF / tagsWF / slotsNonEmpty
        h_rules, h_tags, h_ne_rules, h_ne_tags = w_rules, w_tags and w_tagsg, w_ne_rules, w_ne_tags
    else:
        # the generic `_partial` theorems for this variant: rulesOK fx / rulesNonEmpty fx
        h_rules, h_tags, h_ne_rules, h_ne_tags = g_rules, g_tags, g_ne_rules, g_ne_tags
    if ambiguous:
        tags.append("outside-the-hypotheses(ambiguous templates)")
    hyp_all = h_rules and h_tags and h_ne_rules and h_ne_tags
    tags.append("theorem-hypotheses: all hold" if hyp_all else "theorem-hypotheses: language ones hold, an empty value list (C17-F1)" if h_rules and h_tags else "theorem-hypotheses: fail")
    # ---- correspondence: tables in dict order, tags
    i_cfg = plain(cfg_w(g2))
    if i_cfg != plain(m_cfg):
        if canon_tbl(i_cfg[2]) != canon_tbl(plain(m_cfg)[2]):
            fail("corr", "instantiated rule table differs from the model's table", first_diff(i_cfg[2], plain(m_cfg)[2]))
        else:
            tags.append("structural-drift: dict order of the instantiated table differs from the model's")
    i_tags = {json.dumps([plain(nt_w(S)), plain(sym_w(sym_h(P)))]): Fraction(p2.tags[S][P]) for S in p2.tags for P in p2.tags[S]}
    mt = {json.dumps([plain(e[0]), plain(r[0])]): frac(r[1]) for e in m_tags for r in e[1]}
    if set(i_tags) != set(mt) or sorted(json.dumps(plain(nt_w(S))) for S in p2.tags) != sorted(json.dumps(plain(e[0])) for e in m_tags):
        fail("corr", "instantiated tag table has other keys than the model's", sorted(set(i_tags) ^ set(mt))[:2])
    else:
        for k_, w in i_tags.items():
            mw = mt[k_]
            if abs(w - mw) > TOL:
                fail("corr", "instantiated probability differs from the model's", f"{k_}: {float(w)} vs {float(mw)}")
                break
        # divisions by 1, 2, 4 are exact in floating point (the code divides by the number of distinct values with the repair of C17-F3)
        if case["weights"] == "dyadic" and all(len(set(v) if FX[1] else v) in (1, 2, 4) for v in table.values()) and i_tags != mt:
            fail("corr", "instantiated probability differs from the model's (exact dyadic arithmetic)", "")
    # ---- the property: row sums (normalisation) — oracle on the implementation's tags
    for S in pg.tags:
        s0 = sum(Fraction(x) for x in pg.tags[S].values())
        s1 = sum(Fraction(x) for x in p2.tags.get(S, {}).values())
        if abs(s0 - s1) > TOL * 10:
            fail("oracle", "the weights of a non-terminal no longer sum to what they summed before (mass lost or created)",
                 f"{S}: {float(s0)} -> {float(s1)}", mass=True)
            break
    if [frac(x) for x in m_sums0] != [sum(Fraction(x) for x in pg.tags[S].values()) for S in pg.tags]:
        raise RuntimeError("row sums of the input tags: Lean and harness disagree")
    if hyp_all and [frac(x) for x in m_sums0] != [frac(x) for x in m_sums1]:
        raise RuntimeError("model row sums change although all hypotheses hold (contradicts C17_normalised_partial)")
    # ---- the property: every instantiation has the template's probability / number of instantiations; mass
    repo_cache = {}

    def R(t):
        k = key(t)
        if k not in repo_cache:
            repo_cache[k] = to_repo(t, prim_objs)
        return repo_cache[k]
    for (t, x), mc in zip(sample, m_cand):
        px = Fraction(p2.probability(R(x)))
        pt = Fraction(pg.probability(R(t)))
        n = ninst(table, t)
        if abs(px * n - pt) > TOL * max(1, n):
            fail("oracle", "an instantiation does not get the template's probability divided by the number of instantiations",
                 f"{show(x)}: {float(px)}; template {show(t)}: {float(pt)} / {n}", mass=True)
            break
    for t, mt_ in zip(tsample, m_templ):
        l = insts(table, t)
        pt = Fraction(pg.probability(R(t)))
        tot = sum(Fraction(p2.probability(R(x))) for x in l)
        if abs(tot - pt) > TOL * max(1, len(l)):
            fail("oracle", "the instantiations of a template do not carry the template's probability in total",
                 f"template {show(t)}: {float(pt)}; its {len(l)} instantiations: {float(tot)}", mass=True)
            break
    # ---- membership and probability: implementation vs model vs oracle, on candidates
    for x, mc in zip(cands, m_cand):
        m_in, m_gen, m_pr, m_prs, m_tpl, m_tgen, m_isinst, m_tpr = mc
        if m_in != m_gen:
            raise RuntimeError("contains and gen disagree on the instantiated grammar (contradicts C01_contains_gen)")
        if frac(m_pr) != frac(m_prs):
            raise RuntimeError(f"model probability (reduce_derivations) and specification prob disagree on {show(x)}")
        want = key(x) in expected
        if hyp_all or (h_rules and h_tags):
            spec_in = m_tgen == "1" and m_isinst == "1"
            if spec_in != want:
                raise RuntimeError(f"Lean spec (templ/isInst) and the oracle disagree on {show(x)}: {spec_in} vs {want}")
            if (m_gen == "1") != spec_in:
                raise RuntimeError(f"model gen(inst G) differs from the specification although the hypotheses hold (contradicts C17_lang): {show(x)}")
        try:
            got = R(x) in g2
        except Exception as e:  # noqa
            got = type(e).__name__
        if got != want:
            fail("oracle", "membership in the instantiated grammar is wrong", f"{show(x)}: in grammar={got}, is an instantiation of a template={want}", lang=True)
            break
        if got != (m_in == "1"):
            fail("corr", "membership differs from the model's on the instantiated table", f"{show(x)}: impl={got} model={m_in}")
            break
        px = Fraction(p2.probability(R(x)))
        if abs(px - frac(m_pr)) > TOL:
            fail("corr", "probability differs from the model's", f"{show(x)}: impl={float(px)} model={float(frac(m_pr))}")
            break
    # ---- program side
    def prog_side(t, mlist):
        """impl listing vs model listing (order) and vs the oracle (exactly once); True when something failed"""
        want = insts(table, t)
        has_missing = (not FX[2]) and any(s[1] not in table and (s[2] == "" or not FX[0]) for s in _const_heads(t))
        has_assigned = (not FX[0]) and any(s[2] != "" and s[1] in table for s in _const_heads(t))
        dup = (not FX[1]) and any(s[1] in table and len(set(table[s[1]])) != len(table[s[1]]) and (s[2] == "" or not FX[0]) for s in _const_heads(t))
        fid = "C17-F4" if has_missing else "C17-F2" if has_assigned else "C17-F3" if dup else None
        try:
            got = [prog_h(x) for x in R(t).all_constants_instantiation(tbl_repo)]
        except Exception as e:  # noqa
            got = type(e).__name__
        bad = False
        if isinstance(got, str):
            fail("oracle", "all_constants_instantiation raises", f"{show(t)}: {got}", fid=fid)
            bad = True
        elif sorted(key(x) for x in got) != sorted(key(x) for x in want):
            fail("oracle", "all_constants_instantiation does not list the instantiations exactly once", f"{show(t)}: {len(got)} listed, {len(want)} instantiations; e.g. {[show(x) for x in got[:3]]}", fid=fid)
            bad = True
        if got != mlist:
            if isinstance(got, str) or isinstance(mlist, str) or sorted(key(x) for x in got) != sorted(key(x) for x in mlist):
                fail("corr", "all_constants_instantiation differs from the model's listing", f"{show(t)}: {str(got)[:200]} vs {str(mlist)[:200]}")
                bad = True
            elif "structural-drift: order of all_constants_instantiation differs from the model's (itertools.product order)" not in tags:
                tags.append("structural-drift: order of all_constants_instantiation differs from the model's (itertools.product order)")
        return bad
    psample = tsample[:25]
    miss = any(s[1] not in table for t in psample for s in _slots(t))
    for t, mt_ in zip(tsample, m_templ):
        m_gen, m_p, m_ok, m_list, m_sum, m_allinst = mt_
        if m_gen != "1":
            raise RuntimeError(f"template {show(t)} read off the table is not generated by the model")
        if abs(frac(m_p) - Fraction(pg.probability(R(t)))) > TOL:
            fail("corr", "probability of a template differs from the model's", show(t))
            break
        if m_ok == "1" and hyp_all:
            if frac(m_sum) != frac(m_p):
                raise RuntimeError(f"model mass of the instantiations differs from the template's probability although the hypotheses hold (contradicts C17_mass_partial): {show(t)}")
        if t not in psample:
            continue
        mlist = "KeyError" if m_list[0] == "none" else [wire_term(w) for w in m_list[1:]]
        if prog_side(t, mlist):
            break
        if m_ok == "1" and m_allinst != "1":
            raise RuntimeError("model listing contains a non-instantiation (contradicts C17_program_side)")
    # ---- program side below a Lambda (oracle only: the Lean model has no lambda): the instantiations of
    # (apply (lambda t) …) and of (lambda t) are the wrapped instantiations of t, each exactly once
    from synth.syntax.program import Lambda as _Lambda, Function as _Function, Primitive as _Primitive
    from synth.syntax import auto_type as _auto_type
    _wrap = _Primitive("apply_fn", _auto_type("int -> int"))

    def _unwrap(q):
        if isinstance(q, _Lambda):
            return ("lam", prog_h(q.body))
        if isinstance(q, _Function) and q.function == _wrap and len(q.arguments) == 1 and isinstance(q.arguments[0], _Lambda):
            return ("app-lam", prog_h(q.arguments[0].body))
        return ("other", str(q))
    n_lam = 0
    for t in psample:
        if n_lam >= 6 or failures:
            break
        if not _slots(t):
            continue
        has_missing = (not FX[2]) and any(s[1] not in table and (s[2] == "" or not FX[0]) for s in _const_heads(t))
        has_assigned = (not FX[0]) and any(s[2] != "" and s[1] in table for s in _const_heads(t))
        dup = (not FX[1]) and any(s[1] in table and len(set(table[s[1]])) != len(table[s[1]]) and (s[2] == "" or not FX[0]) for s in _const_heads(t))
        if has_missing or has_assigned or dup:
            continue
        n_lam += 1
        want = sorted(key(x) for x in insts(table, t))
        for kind, q in (("lam", _Lambda(R(t))), ("app-lam", _Function(_wrap, [_Lambda(R(t))]))):
            try:
                got = [_unwrap(x) for x in q.all_constants_instantiation(tbl_repo)]
            except Exception as e:  # noqa
                fail("oracle", "all_constants_instantiation raises on a program with a lambda", f"{kind} {show(t)}: {type(e).__name__}")
                break
            if any(g[0] != kind for g in got) or sorted(key(g[1]) for g in got) != want:
                fail("oracle", "all_constants_instantiation does not list the instantiations of a program below a lambda exactly once",
                     f"{kind} {show(t)}: {len(got)} listed, {len(want)} instantiations")
                break
    if n_lam:
        tags.append("program-side.lambda")
    # ---- program side, constants in head position (never produced by the grammars: built by hand)
    def heads_to_slots(t):
        h, args = t
        nargs = [heads_to_slots(a) for a in args]
        if args and h[0] == "P" and h[2] in table and rng.random() < 0.6:
            return (("C", h[2], ""), nargs)
        return (h, nargs)
    extra = []
    for t in psample:
        t2 = heads_to_slots(t)
        if t2 != t and len(insts(table, t2)) <= 400:
            extra.append(t2)
    for t in extra[:10]:
        want = insts(table, t)
        m_ok, m_list, m_bits = M.ask([Sym("c17.prog"), fx_w, tbl_w(table_l), term_w(t), [term_w(x) for x in want[:50]]])
        mlist = "KeyError" if m_list[0] == "none" else [wire_term(w) for w in m_list[1:]]
        if any(b != "1" for b in m_bits):
            raise RuntimeError(f"Lean isInst rejects an instantiation computed by the oracle: {show(t)}")
        if prog_side(t, mlist):
            break
    if extra:
        tags.append("program-with-constant-in-head-position")
    # ---- plain tagged grammar: the tag is copied
    try:
        tg = TaggedDetGrammar(cfg, {S: {P: sym_h(P) for P in cfg.rules[S]} for S in cfg.rules})
        tg2 = tg.instantiate_constants(tbl_repo)
        for S in tg2.tags:
            bad = None
            for P, src in tg2.tags[S].items():
                h = sym_h(P)
                ok = h == src or (src[0] == "C" and h[0] == "C" and h[1] == src[1] and src[1] in table and (src[2] == "" or f2))
                if not ok:
                    bad = (P, src)
            if bad:
                fail("oracle", "TaggedDetGrammar.instantiate_constants gives a rule the tag of another rule", f"{S}: {bad[0]} tagged {bad[1]}")
                break
        if [list(map(lambda P: sym_h(P), tg2.tags[S])) for S in tg2.tags] != [list(map(lambda P: sym_h(P), g2.rules[S])) for S in g2.rules]:
            fail("oracle", "TaggedDetGrammar.instantiate_constants: tags and rules have different keys", "")
    except Exception as e:  # noqa
        fail("oracle", "TaggedDetGrammar.instantiate_constants raises", f"{type(e).__name__}: {e}")
    # ---- unambiguous grammars
    check_u(case, M, cfg, tbl_repo, table, table_l, templates, expected, sample, tsample, R, fail, hyp_all, rng, FX)
    nslots = sum(1 for t in templates if any(s[1] in table for s in _slots(t)))
    nontrivial = len(templates) >= 2 and nslots >= 1 and len(expected) >= 2 and any(a for _, a in templates)
    tags.append("templates<10" if len(templates) < 10 else "templates<100" if len(templates) < 100 else "templates>=100")
    tags.append("instantiations<10" if len(expected) < 10 else "instantiations<100" if len(expected) < 100 else "instantiations<1000" if len(expected) < 1000 else "instantiations>=1000")
    if miss:
        tags.append("program-with-slot-type-not-in-table(" + ("former " if FX[2] else "") + "C17-F4 region)")
    return {"key": keytxt, "nontrivial": nontrivial, "tags": tags, "failures": failures,
            "sample": {"prims": {n: G.ty_str(t) for n, t in prims}, "request": G.ty_str(request), "max_depth": md,
                       "constant_types": [G.ty_str(t) for t in const_types],
                       "table": {G.ty_str(t): v for t, v in table.items()}, "weights": case["weights"],
                       "templates": len(templates), "instantiations": len(expected),
                       "examples": [show(x) for _, x in sample[:4]]}}


def _const_heads(t):
    h, args = t
    if h[0] == "C":
        yield h
    for a in args:
        yield from _const_heads(a)


def json_term(k):
    def conv(x):
        if isinstance(x, list) and len(x) == 2 and isinstance(x[1], list) and isinstance(x[0], list) and x[0] and x[0][0] in ("P", "V", "C"):
            return (conv_h(x[0]), [conv(a) for a in x[1]])
        return x

    def conv_h(h):
        if h[0] == "C":
            return ("C", _tt(h[1]), h[2])
        return (h[0], h[1], _tt(h[2]))
    x = json.loads(k) if isinstance(k, str) else k
    if isinstance(x, list) and x and x[0] in ("P", "V", "C"):
        return conv_h(x)
    return conv(x)


def canon_tbl(entries):
    return sorted(json.dumps([e[0], sorted(json.dumps(r) for r in e[1])]) for e in entries)


def first_diff(a, b):
    for x, y in zip(a, b):
        if x != y:
            return f"{str(x)[:250]} vs {str(y)[:250]}"
    return f"lengths {len(a)} vs {len(b)}"


def neighbours(rng, templates, members, table, const_types):
    """terms around the instantiated language: templates with their slots left, a value that is
    not in the table, a value of another type's list, a dropped argument"""
    out = []
    pool = members if len(members) <= 60 else rng.sample(members, 60)
    for t in (templates if len(templates) <= 30 else rng.sample(templates, 30)):
        out.append(t)

    def mutate(t, f):
        h, args = t
        nh = f(h)
        return (nh, [mutate(a, f) for a in args])
    allvals = [v for vs in table.values() for v in vs] + ["i:99", "s:'zz'"]
    for x in pool:
        k = rng.randrange(4)
        if k == 0:
            out.append(mutate(x, lambda h: ("C", h[1], "i:99") if h[0] == "C" and h[2] != "" else h))
        elif k == 1:
            out.append(mutate(x, lambda h: ("C", h[1], rng.choice(allvals)) if h[0] == "C" and rng.random() < 0.5 else h))
        elif k == 2 and x[1]:
            out.append((x[0], x[1][:-1]))
        else:
            out.append(mutate(x, lambda h: ("C", h[1], "") if h[0] == "C" and rng.random() < 0.5 else h))
    return out


def check_u(case, M, cfg, tbl_repo, table, table_l, templates, expected, sample, tsample, R, fail, hyp_all, rng, FX):
    from synth.syntax import UCFG, ProbUGrammar
    u = UCFG.from_CFG(cfg)
    u.type_request = cfg.type_request      # the true request (from_CFG only guesses it): instantiation must keep it
    rows = {S: [(P, tuple(alt)) for P in u.rules[S] for alt in u.rules[S][P]] for S in u.rules}
    flat = make_tags(case["weights"], case["wseed"] + 1, {S: [P for P in u.rules[S]] for S in u.rules})
    utags = {S: {P: {tuple(alt): flat[S][P] / len(u.rules[S][P]) for alt in u.rules[S][P]} for P in u.rules[S]} for S in u.rules}
    start_tags = {s: 1.0 for s in u.starts}
    pu = ProbUGrammar(u, utags, start_tags)
    try:
        u2 = u.instantiate_constants(tbl_repo)
        pu2 = pu.instantiate_constants(tbl_repo)
    except Exception as e:  # noqa
        fail("oracle", "UCFG/ProbUGrammar.instantiate_constants raises", f"{type(e).__name__}: {e}")
        return
    alias_check(lambda: ProbUGrammar(u, _scale_tags(utags, 3.0), dict(start_tags)), tbl_repo, fail, "ProbUGrammar.instantiate_constants")
    if u2.type_request != u.type_request or pu2.type_request != pu.type_request or pu2.grammar.type_request != u.type_request:
        fail("oracle", "UCFG.instantiate_constants changes the type request", f"{u2.type_request} instead of {u.type_request}")
    if u2.starts != u.starts or pu2.start_tags != start_tags:
        fail("oracle", "UCFG.instantiate_constants changes the start symbols or their weights", "")
    try:
        actual = expand_u(u2.rules, u2.starts, MAX_INST["thorough"] * 4)
        akeys = [key(x) for x in actual]
        if len(set(akeys)) != len(akeys) or set(akeys) != set(expected):
            fail("oracle", "language of the instantiated unambiguous grammar differs from the instantiations of the templates",
                 f"{len(akeys)} derivations, {len(set(akeys))} programs, {len(expected)} instantiations", lang=True)
        if u2.programs() != len(expected):
            fail("oracle", "programs() of the instantiated unambiguous grammar is not the number of instantiations", f"{u2.programs()} vs {len(expected)}", lang=True)
    except (RecursionError, OverflowError) as e:
        fail("oracle", "instantiated unambiguous grammar cannot be expanded", type(e).__name__, lang=True)
    ans = M.ask([Sym("c17.u"), [int(FX[0]), int(FX[1]), int(FX[2])], utable_w(u.rules), utags_w(utags), tbl_w(table_l)])
    hyps, m_tab, m_tags, s0, s1 = ans
    hyps = (hyps[4:] if all(FX) else hyps[:4])
    if canon_tbl(plain(utable_w(u2.rules))) != canon_tbl(plain(m_tab)):
        fail("corr", "instantiated unambiguous rule table differs from the model's", first_diff(plain(utable_w(u2.rules)), plain(m_tab)))
    it = {json.dumps([plain(arg_w(S)), plain(sym_w(sym_h(P))), plain([arg_w(a) for a in alt])]): Fraction(w)
          for S in pu2.tags for P in pu2.tags[S] for alt, w in pu2.tags[S][P].items()}
    mt = {json.dumps([plain(e[0]), plain(r[0]), plain(a[0])]): frac(a[1]) for e in m_tags for r in e[1] for a in r[1]}
    if set(it) != set(mt):
        fail("corr", "instantiated unambiguous tag table has other keys than the model's", sorted(set(it) ^ set(mt))[:2])
    else:
        bad = [k_ for k_ in it if abs(it[k_] - mt[k_]) > TOL]
        if bad:
            fail("corr", "instantiated unambiguous probability differs from the model's", f"{bad[0]}: {float(it[bad[0]])} vs {float(mt[bad[0]])}")
    if all(h == "1" for h in hyps) and [frac(x) for x in s0] != [frac(x) for x in s1]:
        raise RuntimeError("model row sums of the unambiguous tags change although all hypotheses hold")
    for S in pu.tags:
        a = sum(Fraction(w) for d in pu.tags[S].values() for w in d.values())
        b = sum(Fraction(w) for d in pu2.tags.get(S, {}).values() for w in d.values())
        if abs(a - b) > TOL * 10:
            fail("oracle", "the weights of a non-terminal of the unambiguous grammar no longer sum to what they summed before", f"{S}: {float(a)} -> {float(b)}", mass=True)
            break
    for t in tsample[:40]:
        l = insts(table, t)
        pt = Fraction(pu.probability(R(t)))
        tot = sum(Fraction(pu2.probability(R(x))) for x in l)
        if abs(tot - pt) > TOL * max(1, len(l)):
            fail("oracle", "the instantiations of a template do not carry the template's probability in total (unambiguous grammar)",
                 f"template {show(t)}: {float(pt)}; its {len(l)} instantiations: {float(tot)}", mass=True)
            break
    for t, x in sample[:60]:
        if not (R(x) in u2):
            fail("oracle", "an instantiation is not a member of the instantiated unambiguous grammar", show(x), lang=True)
            break


def corpus():
    base = {"prims": [["+", ["->", "int", ["->", "int", "int"]]], ["1", "int"], ["ite", ["->", "bool", ["->", "int", ["->", "int", "int"]]]]],
            "forbidden": [], "request": ["->", "int", "int"], "max_depth": 2, "min_var": 1, "n_gram": 2, "recursive": False,
            "const_types": ["int", "bool"], "weights": "uniform", "wseed": 1, "nseed": 1, "pre_table": None}
    return [
        dict(base, table=[["int", [["i", 5], ["i", 6]]], ["bool", []]]),                      # C17-F1 (DESIGN §5)
        dict(base, table=[["int", [["i", 1], ["b", True], ["s", "1"], ["f", 1.0]]]]),         # values that print alike / are == in Python
        dict(base, table=[["int", [["i", 5], ["i", 5]]]], weights="dyadic"),                  # C17-F3
        dict(base, table=[["int", [["i", 5], ["i", 6]]]], pre_table=[["int", [["i", 5], ["i", 7]]]]),   # C17-F2
        dict(base, table=[["bool", [["b", True]]], ["str", [["s", "x"]]]]),                   # C17-F4: slot type not in the table; type without slot
        # the three former witnesses at once: already instantiated (5 listed again), a duplicate, int slots left out
        dict(base, table=[["bool", [["b", True], ["b", False], ["b", True]]], ["int", [["i", 5], ["i", 6]]]], pre_table=[["int", [["i", 5], ["i", 7]]]], weights="dyadic"),
        dict(base, table=[["int", [["i", 5], ["i", 5], ["i", 6]]]], pre_table=[["bool", [["b", True]]]], weights="dyadic"),
    ]
