"""C14 — DSL.instantiate_polymorphic_types expands polymorphic primitives to exactly their
admissible ground instances.

Types are JSON trees:
  ["P", name] PrimitiveType      ["V", name] PolymorphicType     ["F", name, [alt…]] FixedPolymorphicType
  ["A", in, out] Arrow           ["G", name, [arg…]] Generic     ["S", [alt…]] Sum       ["U"] UnknownType

Case kinds
  dsl : a syntax (2-6 primitives over 1-3 base types, 0-3 type variables per primitive,
        restricted variables, nested generics, sums inside arrows, unit in every position)
        and a bound 0-10.  impl = real DSL(...).instantiate_polymorphic_types(bound), twice;
        model = PS.Dsl.instantiate (driver op c14.inst) which also returns the executable
        specification PS.Dsl.specInstances; oracle = `oracle_instances` below, an enumeration
        of substitutions written from the English statement (no `synth` code).
  ty  : one random type (+ a second one): str, size, is_polymorphic, arguments, returns,
        decompose_type, all_versions, without_unit_arguments, unify, can_be / is_instance
        of the implementation against the model (structural observables).
"""
import itertools
import json

from harness.sexp import Sym

CASE_TIMEOUT = {"quick": 60, "thorough": 120}
BASES = ["int", "bool", "string", "char", "float"]
GENERICS = ["list", "list", "list", "set", "opt"]
MAX_INSTANCES = 700


# ------------------------------------------------------------------ AST helpers (harness' own)
def P(n): return ["P", n]
def V(n): return ["V", n]
def F(n, alts): return ["F", n, alts]
def A(a, b): return ["A", a, b]
def G(n, args): return ["G", n, args]
def S(alts): return ["S", alts]


UNIT = P("unit")


def arrows(args, ret):
    for a in reversed(args):
        ret = A(a, ret)
    return ret


def canon(t):
    k = t[0]
    if k == "P":
        return t[1]
    if k == "V":
        return "'" + t[1]
    if k == "F":
        return "'" + t[1] + "{" + ",".join(canon(x) for x in t[2]) + "}"
    if k == "A":
        return "(" + canon(t[1]) + " -> " + canon(t[2]) + ")"
    if k == "G":
        return t[1] + "<" + ",".join(canon(x) for x in t[2]) + ">"
    if k == "S":
        return "[" + "|".join(canon(x) for x in t[1]) + "]"
    return "?"


def kids(t):
    k = t[0]
    if k == "A":
        return [t[1], t[2]]
    if k == "G":
        return t[2]
    if k == "S":
        return t[1]
    return []        # the alternatives of a restricted variable are not components


def walk(t):
    yield t
    for x in kids(t):
        yield from walk(x)


def spine(t):
    args = []
    while t[0] == "A":
        args.append(t[1])
        t = t[2]
    return args, t


def wire(t):
    k = t[0]
    if k in ("P", "V"):
        return [Sym(k), t[1]]
    if k == "F":
        return [Sym("F"), t[1]] + [wire(x) for x in t[2]]
    if k == "A":
        return [Sym("A"), wire(t[1]), wire(t[2])]
    if k == "G":
        return [Sym("G"), t[1]] + [wire(x) for x in t[2]]
    if k == "S":
        return [Sym("S")] + [wire(x) for x in t[1]]
    return [Sym("U")]


def unwire(s):
    k = str(s[0])
    if k in ("P", "V"):
        return [k, str(s[1])]
    if k == "F":
        return ["F", str(s[1]), [unwire(x) for x in s[2:]]]
    if k == "A":
        return ["A", unwire(s[1]), unwire(s[2])]
    if k == "G":
        return ["G", str(s[1]), [unwire(x) for x in s[2:]]]
    if k == "S":
        return ["S", [unwire(x) for x in s[1:]]]
    return ["U"]


def well_formed(t):
    """shapes that the constructors / `|` of the library produce"""
    k = t[0]
    if k == "S" and len(t[1]) < 2:
        return False
    if k == "F":
        return all(well_formed(x) for x in t[2])
    return all(well_formed(x) for x in kids(t))


# ------------------------------------------------------------------ to / from the implementation
def to_impl(t):
    from synth.syntax import type_system as TS
    k = t[0]
    if k == "P":
        return TS.PrimitiveType(t[1])
    if k == "V":
        return TS.PolymorphicType(t[1])
    if k == "F":
        return TS.FixedPolymorphicType(t[1], *[to_impl(x) for x in t[2]])
    if k == "A":
        return TS.Arrow(to_impl(t[1]), to_impl(t[2]))
    if k == "G":
        return TS.Generic(t[1], *[to_impl(x) for x in t[2]])
    if k == "S":
        return TS.Sum(*[to_impl(x) for x in t[1]])
    return TS.UnknownType()


def of_impl(t):
    n = type(t).__name__
    if n == "PrimitiveType":
        return ["P", t.type_name]
    if n == "PolymorphicType":
        return ["V", t.name]
    if n == "FixedPolymorphicType":
        return ["F", t.name, [of_impl(x) for x in t.types]]
    if n == "Arrow":
        return ["A", of_impl(t.type_in), of_impl(t.type_out)]
    if n == "Generic":
        return ["G", t.name, [of_impl(x) for x in t.types]]
    if n == "Sum":
        return ["S", [of_impl(x) for x in t.types]]
    if n == "UnknownType":
        return ["U"]
    raise TypeError(n)


# ------------------------------------------------------------------ the oracle (from the statement)
def o_bases(syntax):
    out = []
    for _, t in syntax:
        for x in walk(t):
            if x[0] == "P" and x != UNIT and x not in out:
                out.append(x)
    return out


def o_universe(bases):
    u = []
    for b in bases:
        for x in [b, G("list", [b]), G("list", [G("list", [b])])] + [A(b, c) for c in bases]:
            if x not in u:
                u.append(x)
    return u


def o_size(t):
    k = t[0]
    if k == "A":
        return 1 + o_size(t[1]) + o_size(t[2])
    if k == "G":
        return 1 + sum(o_size(x) for x in t[2])
    return 1


def o_accepts(allowed, u):
    """may a restricted variable whose allowed type is `allowed` take the ground type `u`?"""
    k = allowed[0]
    if k == "V":
        return True
    if k == "S":
        return any(o_accepts(x, u) for x in allowed[1])
    if k == "F":
        return any(o_accepts(x, u) for x in allowed[2])
    if k == "P":
        return allowed == u
    if k == "A":
        return u[0] == "A" and o_accepts(allowed[1], u[1]) and o_accepts(allowed[2], u[2])
    if k == "G":
        return u[0] == "G" and u[1] == allowed[1] and all(any(o_accepts(x, y) for x in allowed[2]) for y in u[2])
    return False


def o_subst(t, sigma):
    k = t[0]
    if k in ("V", "F"):
        return sigma[t[1]]
    if k == "A":
        return A(o_subst(t[1], sigma), o_subst(t[2], sigma))
    if k == "G":
        return G(t[1], [o_subst(x, sigma) for x in t[2]])
    if k == "S":
        return S([o_subst(x, sigma) for x in t[1]])
    return t


def o_choices(t):
    k = t[0]
    if k == "S":
        return [c for x in t[1] for c in o_choices(x)]
    if k == "A":
        return [A(a, b) for a in o_choices(t[1]) for b in o_choices(t[2])]
    if k == "G":
        return [G(t[1], list(c)) for c in itertools.product(*[o_choices(x) for x in t[2]])]
    return [t]


def o_drop_unit(t):
    args, ret = spine(t)
    return arrows([a for a in args if a != UNIT], ret)


def o_candidates(t, universe, bound):
    """variable name -> admissible universe types"""
    names = []
    for x in walk(t):
        if x[0] in ("V", "F") and x[1] not in names:
            names.append(x[1])
    cands = {}
    for n in names:
        restr = [x for x in walk(t) if x[0] == "F" and x[1] == n]
        cands[n] = [u for u in universe if o_size(u) <= bound and all(any(o_accepts(a, u) for a in r[2]) for r in restr)]
    return names, cands


def oracle_instances(syntax, bound):
    """(set of (name, canonical type)), flag: some instance before unit removal has a unit
    argument together with an argument that is a function returning unit (region of C14-F4)"""
    universe = o_universe(o_bases(syntax))
    out = set()
    f4 = False
    for name, t in syntax:
        names, cands = o_candidates(t, universe, bound)
        for vals in itertools.product(*[cands[n] for n in names]):
            st = o_subst(t, dict(zip(names, vals)))
            for c in o_choices(st):
                args, _ = spine(c)
                if UNIT in args and any(a[0] == "A" and a[2] == UNIT for a in args):
                    f4 = True
                out.add((name, canon(o_drop_unit(c))))
    return out, f4


def estimate(syntax, bound):
    universe = o_universe(o_bases(syntax))
    tot = 0
    for _, t in syntax:
        names, cands = o_candidates(t, universe, bound)
        n = 1
        for x in names:
            n *= len(cands[x])
        tot += n * len(o_choices(o_subst(t, {x: P("int") for x in names})))
    return tot


# ------------------------------------------------------------------ generation
def render(t, top=True):
    """auto_type syntax"""
    k = t[0]
    if k == "P":
        return t[1]
    if k == "V":
        return "'" + t[1]
    if k == "F":
        return "'" + t[1] + "[" + " | ".join(render(x, False) for x in t[2]) + "]"
    if k == "A":
        a = render(t[1], False)
        s = a + " -> " + render(t[2], True)
        return s if top else "(" + s + ")"
    if k == "G":
        return " ".join(render(x, False) for x in t[2]) + " " + t[1]
    if k == "S":
        s = " | ".join(render(x, False) for x in t[1])
        return s if top else "(" + s + ")"
    raise ValueError(t)


def gen_atom(rng, env):
    """env: bases, variables (name -> node)"""
    r = rng.random()
    if env["vars"] and r < 0.45:
        return rng.choice(list(env["vars"].values()))
    if r < 0.53 and env["unit"]:
        return UNIT
    return P(rng.choice(env["bases"]))


def gen_arg(rng, env, depth):
    r = rng.random()
    if depth <= 0 or r < 0.45:
        return gen_atom(rng, env)
    if r < 0.65:
        g = rng.choice(GENERICS)
        inner = gen_arg(rng, env, depth - 1)
        if rng.random() < 0.3:
            inner = G(g if rng.random() < 0.7 else "list", [inner])
        return G(g, [inner])
    if r < 0.8:
        n = rng.choice([2, 2, 3])
        alts = [gen_arg(rng, env, depth - 1) for _ in range(n)]
        if env["unit"] and rng.random() < 0.2:
            alts[rng.randrange(n)] = UNIT
        return S(alts)
    if r < 0.95:
        out = gen_atom(rng, env) if rng.random() < 0.8 or not env["unit"] else UNIT
        return A(gen_arg(rng, env, depth - 1), out)
    return G(rng.choice(["pair", "map"]), [gen_arg(rng, env, depth - 1), gen_atom(rng, env)])


def gen_type(rng, bases, unit, names):
    nv = rng.choice([0, 1, 1, 1, 2, 2, 3])
    vs = {}
    for n in rng.sample(names, nv):
        if rng.random() < 0.35:
            k = rng.randint(1, 3)
            alts = []
            for _ in range(k):
                b = P(rng.choice(bases + ["int"]))
                r = rng.random()
                alts.append(b if r < 0.6 else G("list", [b]) if r < 0.8 else A(b, P(rng.choice(bases))) if r < 0.9 else G("list", [V("z")]))
            vs[n] = F(n, [S(alts)] if (k > 1 and rng.random() < 0.6) else alts)
        else:
            vs[n] = V(n)
    env = {"bases": bases, "vars": vs, "unit": unit}
    nargs = rng.choice([0, 1, 1, 2, 2, 3, 4])
    args = [gen_arg(rng, env, rng.randint(0, 2)) for _ in range(nargs)]
    if unit and nargs and rng.random() < 0.5:
        for _ in range(rng.randint(1, 2)):
            args.insert(rng.randrange(len(args) + 1), UNIT)
    ret = gen_arg(rng, env, 1) if rng.random() < 0.8 else gen_atom(rng, env)
    if ret[0] == "A":
        ret = gen_atom(rng, env)
    t = arrows(args, ret)
    # make sure every chosen variable occurs
    used = {x[1] for x in walk(t) if x[0] in ("V", "F")}
    for n, node in vs.items():
        if n not in used:
            t = A(node, t)
    return t


def mix_same_name(rng, t):
    """replace one occurrence of a restricted variable by the bare variable of the same name
    (what auto_type builds for "'a[int | bool] -> 'a")"""
    occ = [x for x in walk(t) if x[0] == "F"]
    if len(occ) < 2:
        return t
    victim = rng.randrange(len(occ))
    cnt = [0]

    def go(x):
        if x[0] == "F":
            cnt[0] += 1
            return V(x[1]) if cnt[0] - 1 == victim else x
        if x[0] == "A":
            return A(go(x[1]), go(x[2]))
        if x[0] == "G":
            return G(x[1], [go(y) for y in x[2]])
        if x[0] == "S":
            return S([go(y) for y in x[1]])
        return x
    return go(t)


def through_auto_type(t):
    """parse the rendered type with the library's own auto_type (diversity of shapes as the
    parser builds them); the parsed object, converted back, is the case's type"""
    try:
        from synth.syntax.type_helper import auto_type
        return of_impl(auto_type(render(t)))
    except Exception:  # noqa
        return t


def gen_dsl(rng, tier):
    for _ in range(50):
        bases = rng.sample(BASES, rng.randint(1, 3))
        unit = rng.random() < 0.6
        nprims = rng.randint(2, 6)
        syntax = []
        for j in range(nprims):
            t = gen_type(rng, bases, unit, ["a", "b", "c"])
            if rng.random() < 0.25:
                t = mix_same_name(rng, t)
            if rng.random() < 0.5:
                t = through_auto_type(t)
            syntax.append([f"f{j}", t])
        for b in bases:
            if rng.random() < 0.5:
                syntax.append([f"c_{b}", P(b)])
        rng.shuffle(syntax)
        bound = rng.choice([0, 1, 1, 2, 2, 3, 3, 3, 4, 5, 6, 7, 8, 9, 10])
        while bound > 0 and estimate(syntax, bound) > MAX_INSTANCES:
            bound -= 1
        if estimate(syntax, bound) <= MAX_INSTANCES:
            return {"kind": "dsl", "bound": bound, "syntax": syntax}
    return {"kind": "dsl", "bound": 1, "syntax": [["f", A(V("a"), V("a"))], ["c", P("int")]]}


def gen_any_type(rng, depth):
    r = rng.random()
    if depth <= 0 or r < 0.3:
        r2 = rng.random()
        if r2 < 0.5:
            return P(rng.choice(BASES[:3] + ["unit", "unit", "unit"]))
        if r2 < 0.75:
            return V(rng.choice("abc"))
        if r2 < 0.95:
            return F(rng.choice("abc"), [gen_any_type(rng, depth - 1) for _ in range(rng.randint(1, 3))])
        return ["U"]
    if r < 0.6:
        return A(gen_any_type(rng, depth - 1), gen_any_type(rng, depth - 1))
    if r < 0.8:
        return G(rng.choice(GENERICS + ["pair"]), [gen_any_type(rng, depth - 1) for _ in range(rng.randint(1, 2))])
    return S([gen_any_type(rng, depth - 1) for _ in range(rng.randint(2, 3))])


def gen(rng, i, tier):
    if i % 5 == 4:
        t = gen_any_type(rng, rng.randint(1, 4))
        if rng.random() < 0.3:
            t = F(rng.choice("abc"), [gen_any_type(rng, rng.randint(0, 2)) for _ in range(rng.randint(1, 3))])
        elif rng.random() < 0.4:
            t = arrows([gen_any_type(rng, rng.randint(0, 2)) for _ in range(rng.randint(1, 4))], gen_any_type(rng, 1))
        o = gen_any_type(rng, rng.randint(0, 3))
        if rng.random() < 0.5:
            # an instance-like second type: related to the first one
            o = o_subst(t, {n: gen_any_type(rng, 1) for n in "abc"}) if rng.random() < 0.7 else t
            ch = o_choices(o)
            if ch and rng.random() < 0.5:
                o = rng.choice(ch)
        return {"kind": "ty", "t": t, "o": o, "name": rng.choice("abc"), "v": gen_any_type(rng, 1)}
    case = gen_dsl(rng, tier)
    if rng.random() < 0.04:
        # malformed stream: shapes the library's constructors accept but `|` never builds
        j = rng.randrange(len(case["syntax"]))
        t = case["syntax"][j][1]
        case["syntax"][j][1] = A(S([t]), P("int")) if rng.random() < 0.5 else S([t])
    return case


def shrink(case):
    if case["kind"] != "dsl":
        return
    syn = case["syntax"]
    for j in range(len(syn)):
        if len(syn) > 1:
            yield dict(case, syntax=syn[:j] + syn[j + 1:])
    if case["bound"] > 0:
        yield dict(case, bound=case["bound"] - 1)
    for j, (n, t) in enumerate(syn):
        cands = []
        if t[0] == "A":
            cands += [t[2], t[1]]
        for idx, x in enumerate(kids(t)):
            if x[0] in ("A", "G", "S"):
                for y in kids(x):
                    nk = list(kids(t))
                    nk[idx] = y
                    if t[0] == "A":
                        cands.append(A(nk[0], nk[1]))
                    elif t[0] == "G":
                        cands.append(G(t[1], nk))
                    elif len(nk) >= 2:
                        cands.append(S(nk))
        for c in cands:
            yield dict(case, syntax=syn[:j] + [[n, c]] + syn[j + 1:])


# ------------------------------------------------------------------ checks
def impl_instantiate(syntax, bound):
    """list of (name, ast) after one call, and after a second call on the same DSL"""
    from synth.syntax.dsl import DSL
    d = DSL({n: to_impl(t) for n, t in syntax})
    d.instantiate_polymorphic_types(bound)
    once = [(p.primitive, of_impl(p.type)) for p in d.list_primitives]
    d.instantiate_polymorphic_types(bound)
    twice = [(p.primitive, of_impl(p.type)) for p in d.list_primitives]
    return once, twice


def msorted(prims):
    return sorted((n, canon(t)) for n, t in prims)


def fail(kind, what, detail, finding=None):
    f = {"kind": kind, "what": what, "detail": str(detail)[:600]}
    if finding:
        f["finding"] = finding
    return f


def diff(a, b):
    sa, sb = set(a), set(b)
    return f"only in first: {sorted(sa - sb)[:4]}; only in second: {sorted(sb - sa)[:4]}; sizes {len(a)}/{len(b)}"


_FIXED = None


def fixed_impl():
    """does the implementation contain the repair of C14-F4 (fixes_proposed/C14-F4.diff)?  probed at the witness:
    `unit -> (int -> unit) -> int` without its unit arguments must keep the argument `int -> unit`"""
    global _FIXED
    if _FIXED is None:
        from synth.syntax.type_system import INT, UNIT as U, Arrow
        t = Arrow(U, Arrow(Arrow(INT, U), INT)).without_unit_arguments()
        _FIXED = t == Arrow(Arrow(INT, U), INT)
    return _FIXED


def check_dsl(case, M):
    syntax = [[n, t] for n, t in case["syntax"]]
    bound = int(case["bound"])
    wf = all(well_formed(t) for _, t in syntax)
    failures = []
    want, f4 = oracle_instances(syntax, bound)

    # ---- Lean model and executable specification
    ans = dict((str(a[0]), a[1]) for a in M.ask([Sym("c14.inst"), int(fixed_impl()), bound, [[n, wire(t)] for n, t in syntax]]))
    m_once = msorted((str(p[0]), unwire(p[1])) for p in ans["model"])
    m_twice = msorted((str(p[0]), unwire(p[1])) for p in ans["twice"])
    m_spec = msorted((str(p[0]), unwire(p[1])) for p in ans["spec"])
    m_safe = ans["unitsafe"] == "1"
    if (ans["wf"] == "1") != wf:
        raise RuntimeError("well-formedness: harness and Lean disagree")
    if sorted(canon(unwire(u)) for u in ans["universe"]) != sorted(canon(u) for u in o_universe(o_bases(syntax))):
        raise RuntimeError("type universe: Lean model and harness oracle disagree")
    if sorted(canon(unwire(u)) for u in ans["specuniverse"]) != sorted(canon(u) for u in o_universe(o_bases(syntax))):
        raise RuntimeError("type universe: Lean spec and harness oracle disagree")
    if m_spec != sorted(want):
        raise RuntimeError("Lean spec and harness oracle disagree: " + diff(m_spec, sorted(want)))
    if wf and m_safe == f4:
        raise RuntimeError("classifier of C14-F4: Lean and harness disagree")
    if wf and (m_safe or fixed_impl()):
        if m_once != m_spec:
            raise RuntimeError("model differs from spec (contradicts C14_sound/C14_complete/C14_once): " + diff(m_once, m_spec))
        if m_twice != m_once:
            raise RuntimeError("model not idempotent (contradicts C14_idempotent)")
    # with the repair in the implementation the region of C14-F4 is an ordinary region: a failure there is a violation
    finding = "C14-F4" if (wf and f4 and not fixed_impl()) else None

    # ---- implementation
    try:
        once, twice = impl_instantiate(syntax, bound)
        err = None
    except Exception as e:  # noqa
        if type(e).__name__ == "CaseTimeout":
            raise
        once, twice, err = [], [], type(e).__name__
    if err:
        failures.append(fail("corr", "instantiate_polymorphic_types raised", err))
        i_once = i_twice = []
    else:
        i_once, i_twice = msorted(once), msorted(twice)
        if wf:
            bad = [(n, canon(t)) for n, t in once if any(x[0] in ("V", "F", "S") for x in walk(t))]
            if bad:
                failures.append(fail("oracle", "a primitive keeps a polymorphic or sum type", bad[:3]))
            if set(i_once) != want:
                failures.append(fail("oracle", "instances differ from the admissible substitutions",
                                     "impl vs statement: " + diff(sorted(set(i_once)), sorted(want)), finding))
            if len(set(i_once)) != len(i_once):
                dup = sorted(x for x in set(i_once) if i_once.count(x) > 1)
                failures.append(fail("oracle", "an instance is present more than once", f"{dup[:3]} ({len(i_once)} primitives, {len(set(i_once))} distinct)"))
            if i_twice != i_once:
                failures.append(fail("oracle", "instantiating twice changes the primitives", diff(i_once, i_twice), finding))
        if i_once != m_once:
            failures.append(fail("corr", "list_primitives differs from the model", "impl vs model: " + diff(i_once, m_once)))
        elif i_twice != m_twice:
            failures.append(fail("corr", "list_primitives after a second call differs from the model", diff(i_twice, m_twice)))
        # the result must not depend on the order of the declarations
        try:
            rev, _ = impl_instantiate(list(reversed(syntax)), bound)
            if msorted(rev) != i_once:
                failures.append(fail("oracle" if wf else "corr", "result depends on the order of the declarations", diff(i_once, msorted(rev))))
        except Exception as e:  # noqa
            if type(e).__name__ == "CaseTimeout":
                raise
            failures.append(fail("corr", "instantiate_polymorphic_types raised", type(e).__name__))

    allnodes = [x for _, t in syntax for x in walk(t)]
    nvars = max(len({x[1] for x in walk(t) if x[0] in ("V", "F")}) for _, t in syntax)
    tags = [f"bound.{min(bound, 6)}{'+' if bound >= 6 else ''}", f"maxvars.{nvars}", f"instances.{len(want) // 50 * 50 if len(want) < 300 else '300+'}"]
    if any(x[0] == "F" for x in allnodes):
        tags.append("restricted-variable")
    if any(x[0] == "S" for x in allnodes):
        tags.append("sum")
    if any(x[0] == "G" and x[2] and x[2][0][0] == "G" for x in allnodes):
        tags.append("nested-generic")
    if any(UNIT in spine(t)[0] for _, t in syntax):
        tags.append("unit-argument")
    if any(UNIT in spine(t)[0][1:] for _, t in syntax):
        tags.append("unit-argument-not-first")
    mixed = False
    for _, t in syntax:
        byname = {}
        for x in walk(t):
            if x[0] in ("V", "F"):
                byname.setdefault(x[1], set()).add(canon(x))
        mixed = mixed or any(len(v) > 1 for v in byname.values())
    if mixed:
        tags.append("same-name-different-restriction")
    if f4:
        tags.append("region-C14-F4" if not fixed_impl() else "former-region-C14-F4")
    tags.append("code-variant: " + ("with the repair of C14-F4" if fixed_impl() else "without the repair of C14-F4"))
    if not wf:
        tags.append("malformed")
    return {"key": json.dumps([bound, sorted((n, canon(t)) for n, t in syntax)]),
            "nontrivial": wf and nvars >= 1 and len(want) > len(syntax),
            "tags": tags, "failures": failures,
            "sample": {"bound": bound, "syntax": {n: canon(t) for n, t in syntax}, "instances": len(want), "first": sorted(want)[:6]}}


def check_ty(case, M):
    t, o, name, v = case["t"], case["o"], case["name"], case["v"]
    failures = []
    ans = dict((str(a[0]), a[1]) for a in M.ask([Sym("c14.ty"), int(fixed_impl()), wire(t)]))
    rel = dict((str(a[0]), a[1]) for a in M.ask([Sym("c14.rel"), wire(t), wire(o)]))
    uni = unwire(M.ask([Sym("c14.unify"), name, wire(v), wire(t)]))
    it, io, iv = to_impl(t), to_impl(o), to_impl(v)

    def obs(label, fn, model):
        try:
            got = fn()
        except Exception as e:  # noqa
            if type(e).__name__ == "CaseTimeout":
                raise
            got = "raised:" + type(e).__name__
        if got != model:
            failures.append(fail("corr", f"type operation {label} differs from the model", f"type {canon(t)} other {canon(o)}: impl={got} model={model}"))

    no_empty_sum = all(not (x[0] == "S" and not x[1]) for x in walk(t))
    obs("__str__", lambda: str(it), str(ans["str"]))
    if no_empty_sum:
        obs("size", lambda: it.size(), int(ans["size"]))
    obs("is_polymorphic", lambda: it.is_polymorphic(), ans["poly"] == "1")
    obs("arguments", lambda: [canon(of_impl(x)) for x in it.arguments()], [canon(unwire(x)) for x in ans["args"]])
    obs("returns", lambda: canon(of_impl(it.returns())), canon(unwire(ans["ret"])))
    obs("decompose_type[0]", lambda: sorted(canon(of_impl(x)) for x in it.decompose_type()[0]), sorted(canon(unwire(x)) for x in ans["basics"]))
    # PolymorphicType("a") == FixedPolymorphicType("a", …) but not conversely: the set keeps
    # whichever came first; compare the names only when such a pair exists
    vs = [x for x in walk(t) if x[0] in ("V", "F")]
    clash = any(x[0] != y[0] and x[1] == y[1] for x in vs for y in vs)
    if not clash and all(well_formed(x) for x in vs):
        obs("decompose_type[1]", lambda: sorted(set(canon_setlike(of_impl(x)) for x in it.decompose_type()[1])), sorted(set(canon_setlike(unwire(x)) for x in ans["vars"])))
    # the order of the versions is not part of the property: compare as multisets
    obs("all_versions", lambda: sorted(canon(of_impl(x)) for x in it.all_versions()), sorted(canon(unwire(x)) for x in ans["versions"]))
    obs("without_unit_arguments", lambda: canon(of_impl(it.without_unit_arguments())), canon(unwire(ans["nounit"])))
    obs("unify", lambda: canon(of_impl(it.unify({name: iv}))), canon(uni))
    obs("is_instance", lambda: io.is_instance(it), rel["isinst"] == "1")
    if t[0] in ("V", "F"):
        obs("can_be", lambda: it.can_be(io), rel["canbe"] == "1")
    # oracle-style facts of the statement on single types
    args, ret = spine(t)
    if canon(unwire(ans["dropunit"])) != canon(o_drop_unit(t)):
        raise RuntimeError("dropUnit: Lean spec and harness oracle disagree")
    tags = ["ty." + t[0]]
    if UNIT in args:
        tags.append("ty.unit-argument")
    if rel["isinst"] == "1":
        tags.append("ty.is_instance-true")
    return {"key": json.dumps(["ty", canon(t), canon(o), name, canon(v)]), "nontrivial": len(list(walk(t))) >= 3,
            "tags": tags, "failures": failures, "sample": {"type": canon(t), "other": canon(o), "size": ans["size"]}}


def canon_setlike(t):
    """restricted variables compare their allowed types as a set"""
    if t[0] == "F":
        return "'" + t[1] + "{" + ",".join(sorted(set(canon(x) for x in t[2]))) + "}"
    return canon(t)


def check(case, M):
    case = json.loads(json.dumps(case))
    if case["kind"] == "ty":
        return check_ty(case, M)
    return check_dsl(case, M)


def corpus():
    c = []
    # C14-F1 (repaired): unit argument not in first position
    c.append({"kind": "dsl", "bound": 2, "syntax": [["f", arrows([P("int"), UNIT], P("int"))], ["g", arrows([UNIT, P("int"), UNIT, UNIT], P("bool"))]]})
    # C14-F2: duplicates from the sum pass and from unit removal
    c.append({"kind": "dsl", "bound": 1, "syntax": [["f", A(S([V("a"), P("int")]), P("int"))], ["c", P("bool")]]})
    c.append({"kind": "dsl", "bound": 1, "syntax": [["f", arrows([S([UNIT, P("int")]), S([UNIT, P("int")])], P("int"))]]})
    # C14-F3: restricted and bare variable of the same name
    c.append({"kind": "dsl", "bound": 1, "syntax": [["f", A(F("a", [S([P("int"), P("bool")])]), V("a"))], ["g", P("bool")], ["h", P("string")], ["i", P("int")]]})
    c.append({"kind": "dsl", "bound": 1, "syntax": [["f", A(V("a"), F("a", [S([P("int"), P("bool")])]))], ["g", P("bool")], ["h", P("string")], ["i", P("int")]]})
    # C14-F4: function argument returning unit next to a unit argument (known finding on a tree without
    # fixes_proposed/C14-F4.diff, must pass on a tree with it); second witness: not idempotent
    c.append({"kind": "dsl", "bound": 1, "syntax": [["f", arrows([UNIT, A(P("int"), UNIT)], P("int"))]]})
    c.append({"kind": "dsl", "bound": 1, "syntax": [["f", arrows([UNIT, A(UNIT, UNIT)], P("int"))]]})
    c.append({"kind": "dsl", "bound": 1, "syntax": [["each", arrows([S([UNIT, P("int")]), A(V("a"), UNIT), G("list", [V("a")])], UNIT)], ["c", P("int")], ["d", P("bool")]]})
    # size test uses the substituted type; nested generics; several variables
    c.append({"kind": "dsl", "bound": 2, "syntax": [["m", arrows([A(V("a"), V("b")), G("list", [V("a")])], G("list", [V("b")]))], ["c", P("int")], ["d", P("bool")]]})
    c.append({"kind": "dsl", "bound": 3, "syntax": [["m", A(G("list", [G("list", [V("a")])]), V("a"))], ["c", P("int")]]})
    return c
