"""C02, part hs — heap search, bucket search and their unambiguous-grammar variants yield every
program of a finite grammar exactly once, nothing else, and stop.

impl   : HeapSearch / BucketSearch (heap_search.py), UHeapSearch / BucketSearch (u_heap_search.py)
model  : PS.HS.next / PS.UHS.next (driver ops hs.det / hs.u): yielded sequence, pop order per
         non-terminal, heap arrays, deleted set are compared exactly (dyadic weights: float == Rat)
oracle : language by exhaustive expansion of the rule table (harness/enumhs.py), independent of
         the enumerators, of membership and of probability code
search : the same grammars with random *float* weights (oracle only)
"""
import random

from harness import enumhs as E

CASE_TIMEOUT = {"quick": 150, "thorough": 600}


def gen(rng, i, tier):
    return E.gen_case(rng, i, tier)


def shrink(case):
    return E.shrink_case(case)


def set_failures(case, r, ys, expected, fail):
    Y = [E.show(p) for p in ys]
    L = {E.show(p) for p, _ in r["lang"]}
    if len(Y) != len(set(Y)):
        d = next(y for k, y in enumerate(Y) if y in Y[:k])
        fail("oracle", "a program is yielded twice", d)
    extra = sorted(set(Y) - L)
    if extra:
        fail("oracle", "a program outside the language is yielded", str(extra[:3]))
    missing = sorted(expected - set(Y))
    if missing:
        fail("oracle", "a program of the language is never yielded", f"{len(missing)} of {len(expected)} missing, e.g. {missing[:3]}")
    over = sorted((set(Y) & L) - expected)
    if over:
        fail("oracle", "a program below the threshold is yielded", str(over[:3]))


def check(case, M):
    tier = case.get("tier", "quick")
    r = E.run_case(case, M, tier)
    if "trivial" in r:
        return {"key": E.key_of(case), "nontrivial": False, "tags": ["trivial:" + r["trivial"]], "failures": []}
    failures = []
    fid = E.finding_of(case, r)

    def fail(kind, what, detail):
        f = {"kind": kind, "what": what, "detail": detail}
        if fid:
            f["finding"] = fid
        failures.append(f)
    for what, detail in r["corr"]:
        failures.append({"kind": "corr", "what": what, "detail": detail})
    ys = E.flat(r["steps"])
    thr = r["thr"] if case["enum"]["kind"] == "heap" else 0
    expected = {E.show(p) for p, w in r["lang"] if thr == 0 or w > thr} if case["family"] == "det" else \
        {E.show(p) for p, w, S in r["lang_starts"] if thr == 0 or w / r["start_w"][S] > thr}
    if r["err"] is not None:
        fail("oracle", "the enumerator raises instead of enumerating", r["err"])
    else:
        if not r["steps"] or not r["steps"][-1][1]:
            fail("oracle", "the enumerator does not stop", "")
        set_failures(case, r, ys, expected, fail)
    # search with float weights (no model): set equality only
    if case.get("fseed") is not None and not failures:
        float_search(case, r, fail)
    ties, nprob = E.ntie_groups(r["lang"])
    tags = E.base_tags(case, r)
    if ties:
        tags.append("ties")
    nontrivial = len(r["lang"]) >= 10 and nprob >= 2 and ties >= 1
    return {"key": E.key_of(case), "nontrivial": nontrivial, "tags": tags, "failures": failures, "sample": E.sample_of(case, r)}


def float_search(case, r, fail):
    rng = random.Random(case["fseed"])
    g = r["g"]
    L = {E.show(p) for p, _ in r["lang"]}
    if case["family"] == "det":
        from synth.syntax.grammars.tagged_det_grammar import ProbDetGrammar
        from synth.syntax.grammars.enumeration.heap_search import HeapSearch, BucketSearch
        pg = ProbDetGrammar(g, {S: {P: rng.random() * 0.98 + 0.01 for P in rs} for S, rs in g.rules.items()})
        en = HeapSearch(pg) if case["enum"]["kind"] == "heap" else BucketSearch(pg, case["enum"]["size"])
    else:
        from synth.syntax.grammars.tagged_u_grammar import ProbUGrammar
        from synth.syntax.grammars.enumeration.u_heap_search import UHeapSearch, BucketSearch
        pg = ProbUGrammar(g, {S: {P: {tuple(v): rng.random() * 0.98 + 0.01 for v in alts} for P, alts in rs.items()} for S, rs in g.rules.items()},
                          {S: rng.random() * 0.98 + 0.01 for S in g.starts})
        en = UHeapSearch(pg) if case["enum"]["kind"] == "heap" else BucketSearch(pg, case["enum"]["size"])
    try:
        Y = []
        for p in en:
            Y.append(E.show(E.of_prog(p)))
            if len(Y) > 4 * len(L) + 10:
                break
    except Exception as e:  # noqa
        fail("oracle", "the enumerator raises instead of enumerating (float weights)", type(e).__name__)
        return
    if len(Y) != len(set(Y)):
        fail("oracle", "a program is yielded twice (float weights)", "")
    if set(Y) - L:
        fail("oracle", "a program outside the language is yielded (float weights)", str(sorted(set(Y) - L)[:3]))
    if L - set(Y):
        fail("oracle", "a program of the language is never yielded (float weights)", f"{len(L - set(Y))} of {len(L)} missing, e.g. {sorted(L - set(Y))[:3]}")


def corpus():
    # C02-F2 witness (several start symbols); C02-F3 witness (size-bounded TTCFG of the test-suite);
    # C02-F1 (repaired in /repo): skewed weights on a depth-bounded CFG
    return [
        {"family": "u", "build": {"src": "prims", "prims": [["+", ["->", "int", ["->", "int", "int"]]], ["1", "int"]], "forbidden": [], "request": ["->", "int", "int"],
                                  "kind": "ucfg-dfta", "max_depth": 3, "min_var": 1, "n_gram": 2, "cseed": 0, "nconstraints": 0},
         "order": "built", "oseed": 0, "weights": "uniform", "wseed": 0, "enum": {"kind": "heap", "threshold": "0"}, "filter": None, "merges": []},
        {"family": "det", "build": {"src": "testdsl", "request": ["->", "int", "int"], "kind": "ttcfg-size", "max_size": 5, "n_gram": 2},
         "order": "reversed", "oseed": 1, "weights": "uniform", "wseed": 0, "enum": {"kind": "heap", "threshold": "0"}, "filter": None, "merges": []},
        {"family": "det", "build": {"src": "prims", "prims": [["+", ["->", "int", ["->", "int", "int"]]], ["1", "int"], ["0", "int"]], "forbidden": [],
                                    "request": ["->", "int", "int"], "kind": "cfg", "max_depth": 4, "min_var": 1, "n_gram": 2},
         "order": "built", "oseed": 0, "weights": "skewed", "wseed": 14, "enum": {"kind": "heap", "threshold": "0"}, "filter": None, "merges": [], "fseed": 14},
    ]
