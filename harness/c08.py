"""C08 — splitting a probabilistic unambiguous grammar yields a partition with consistent weights.

impl   : synth.syntax.grammars.enumeration.grammar_splitter.split (with its intermediate values
         __split_nodes_until_quantity_reached__, __apply_swap__, __try_split_node_in_group__,
         __pcfg_from__ captured by call-through wrappers), ALWAYS under a time-out
model  : PS.Sp.splitUntil / initGroups / applyTrace / pcfgFrom   (driver ops c08.*)
spec   : PS.Sp.IsCover evaluated on the implementation's actual groups (coverUpTo), PS.Sp.cellSpec
oracle : this file: the language of the grammar and of every fragment is enumerated by expanding
         the rule tables (no enumerator, no `synth` code), partition / probabilities / ratio /
         number of fragments / termination are decided from these enumerations.

A case is either self-contained tables (route "table") or parameters of a construction through
synth (routes "cfg": UCFG.from_CFG(CFG.depth_constraint), "dfta": UCFG.from_DFTA of a sharpened
grammar); every case is converted to tables first, so that shrinking works on tables.
"""
import json
import signal
import time
from fractions import Fraction

from harness.sexp import Sym

CASE_TIMEOUT = {"quick": 150, "thorough": 900}
SPLIT_TIMEOUT = 40            # seconds per call of split (the fixed code returns within milliseconds)
MAX_LANG = 300
TOL = 1e-9


# =========================================================================== tables
# tables = {"nts": [tyname...], "syms": [[name, arity]...], "starts": [[nt, [num, den]]...],
#           "rules": [[nt, [[sym, [[[args...], [num, den]], ...]], ...]], ...]}
def enum_tables(T, limit=MAX_LANG):
    """all complete leftmost derivations: [(start, steps, prob)], steps = [(S, P, args)];
    None when there are more than `limit` or a derivation is longer than 200 steps"""
    rules = {e[0]: e[1] for e in T["rules"]}
    out = []

    class Big(Exception):
        pass

    def rec(stack, steps, p, start):
        if len(steps) > 200:
            raise Big()
        if not stack:
            out.append((start, steps, p))
            if len(out) > limit:
                raise Big()
            return
        S = stack[0]
        for P, alts in rules.get(S, []):
            for args, w in alts:
                rec(list(args) + stack[1:], steps + [(S, P, tuple(args))], p * rat(w), start)

    try:
        for s, w in T["starts"]:
            rec([s], [], rat(w), s)
    except (Big, RecursionError):
        return None
    return out


def word(steps):
    """the program of a derivation as its pre-order word of (symbol, arity)"""
    return tuple((P, len(args)) for _, P, args in steps)


def clean_tables(T):
    """drop non-terminals that are not reachable from the starts; None if some reachable
    non-terminal has no rule"""
    rules = {e[0]: e[1] for e in T["rules"]}
    seen, todo = set(), [s for s, _ in T["starts"]]
    while todo:
        s = todo.pop()
        if s in seen:
            continue
        seen.add(s)
        if not rules.get(s):
            return None
        for _, alts in rules[s]:
            if not alts:
                return None
            for args, _ in alts:
                todo.extend(args)
    T = dict(T)
    T["rules"] = [e for e in T["rules"] if e[0] in seen]
    return T


# =========================================================================== generators
def dyadic_weights(rng, n):
    """n positive dyadic weights summing to 1 (denominator 2^m, m <= 4); uniform-ish if n > 16"""
    m = 0
    while (1 << m) < n:
        m += 1
    m = min(max(m + rng.choice([0, 0, 1]), 1), max(m, 4)) if n > 1 else 0
    tot = 1 << m
    ks = [1] * n
    for _ in range(tot - n):
        ks[rng.randrange(n)] += 1
    return [[k, tot] for k in ks]


def weights(rng, n, mode):
    if mode == "dyadic":
        return dyadic_weights(rng, n)
    if mode == "uniform":
        f = Fraction(1 / n)
        return [[f.numerator, f.denominator] for _ in range(n)]
    xs = [rng.random() + 0.05 for _ in range(n)]
    s = sum(xs)
    out = []
    for x in xs:
        f = Fraction(x / s)
        out.append([f.numerator, f.denominator])
    return out


def assign_weights(rng, starts, rules, mode):
    """starts: [nt], rules: [[nt, [[sym, [args...]]]]] -> weighted tables parts"""
    ws = weights(rng, len(starts), mode)
    wstarts = [[s, w] for s, w in zip(starts, ws)]
    wrules = []
    for nt, rs in rules:
        n = sum(len(alts) for _, alts in rs)
        ws = weights(rng, n, mode)
        k = 0
        out = []
        for P, alts in rs:
            o = []
            for a in alts:
                o.append([list(a), ws[k]])
                k += 1
            out.append([P, o])
        wrules.append([nt, out])
    return wstarts, wrules


def gen_table(rng, tier):
    """random deterministic bottom-up automaton read as an unambiguous grammar: several
    alternatives per (non-terminal, symbol), shared non-terminals, 1-3 start symbols"""
    for _ in range(200):
        depth = rng.choice([2, 2, 3, 3, 3, 4])
        nconst = rng.randint(1, 3)
        nfun = rng.randint(1, 3)
        syms = [[f"c{i}", 0] for i in range(nconst)] + [[f"f{i}", rng.choice([1, 2, 2, 2, 3])] for i in range(nfun)]
        levels = [[]]
        nts = []
        rules = {}

        def new_state(level):
            nts.append("t%d" % rng.randrange(2))
            levels[level].append(len(nts) - 1)
            rules[len(nts) - 1] = {}
            return len(nts) - 1

        for _i in range(rng.randint(1, 2)):
            new_state(0)
        for c in range(nconst):
            q = rng.choice(levels[0])
            rules[q].setdefault(c, []).append([])
        levels[0] = [q for q in levels[0] if rules[q]]
        if not levels[0]:
            continue
        for lv in range(1, depth):
            levels.append([])
            below = [q for l in levels[:lv] for q in l]
            top = levels[lv - 1]
            if not top:
                break
            seen = set()
            for _i in range(rng.randint(1, 2)):
                q = new_state(lv)
                for _j in range(rng.randint(1, 3)):
                    f = nconst + rng.randrange(nfun)
                    ar = syms[f][1]
                    args = [rng.choice(below) for _ in range(ar)]
                    args[rng.randrange(ar)] = rng.choice(top)
                    if (f, tuple(args)) in seen:
                        continue
                    seen.add((f, tuple(args)))
                    rules[q].setdefault(f, []).append(args)
            levels[lv] = [q for q in levels[lv] if rules[q]]
        allq = [q for l in levels for q in l if rules[q]]
        upper = [q for q in (levels[-1] if levels[-1] else levels[-2]) if rules[q]] or allq
        nstarts = rng.choice([1, 1, 1, 2, 2, 3])
        starts = []
        for q in rng.sample(upper, min(nstarts, len(upper))) + rng.sample(allq, min(nstarts, len(allq))):
            if q not in starts and len(starts) < nstarts:
                starts.append(q)
        mode = rng.choice(["dyadic", "dyadic", "dyadic", "uniform", "random"])
        rl = [[q, [[P, alts] for P, alts in rules[q].items()]] for q in rules if rules[q]]
        ws, wr = assign_weights(rng, starts, rl, mode)
        T = clean_tables({"nts": nts, "syms": syms, "starts": ws, "rules": wr})
        if T is None:
            continue
        L = enum_tables(T)
        if L is None or len(L) < 2:
            continue
        return T, len(L), mode
    raise RuntimeError("table generator found nothing")


POOL = [("+", ("->", "int", ("->", "int", "int"))), ("*", ("->", "int", ("->", "int", "int"))),
        ("neg", ("->", "int", "int")), ("1", "int"), ("0", "int"), ("2", "int"),
        ("not", ("->", "bool", "bool")), ("lt", ("->", "int", ("->", "int", "bool"))), ("T", "bool"),
        ("ite", ("->", "bool", ("->", "int", ("->", "int", "int"))))]


def gen_synth(rng, tier, route):
    funs = [p for p in POOL if not isinstance(p[1], str)]
    consts = [p for p in POOL if isinstance(p[1], str)]
    prims = rng.sample(funs, rng.randint(1, 3)) + rng.sample(consts, rng.randint(1, 3))
    if not any(t == "int" for _, t in prims):
        prims.append(("1", "int"))
    if any(n in ("not", "lt", "ite") for n, _ in prims) and not any(t == "bool" for _, t in prims):
        prims.append(("T", "bool"))
    case = {"route": route, "prims": [[n, t] for n, t in prims],
            "request": rng.choice(["int", "int", ("->", "int", "int")]),
            "depth": rng.choice([2, 3, 3, 3, 4]), "ngram": rng.choice([2, 2, 2, 1]),
            "wmode": rng.choice(["dyadic", "dyadic", "uniform", "random"]), "wseed": rng.randrange(1 << 30)}
    if route == "dfta":
        names = [n for n, t in prims if not isinstance(t, str) and n in ("+", "*", "neg")]
        cs = [n for n, t in prims if t == "int"]
        if not names:
            case["prims"].append(["+", ("->", "int", ("->", "int", "int"))])
            names = ["+"]
        f = rng.choice(names)
        pat = rng.choice(["^", ""]) + rng.choice(names + cs[:1])
        case["constraint"] = f"({f} {pat})" if f == "neg" else rng.choice([f"({f} {pat} _)", f"({f} _ {pat})"])
    return case


def gen(rng, i, tier):
    r = rng.random()
    if r < 0.55:
        T, n, mode = gen_table(rng, tier)
        case = {"route": "table", "tables": T}
    else:
        case = gen_synth(rng, tier, "cfg" if r < 0.85 else "dfta")
        n = None
    case["splits"] = rng.choice([2, 2, 3, 3, 4, 5, 6, 7, 8])
    case["splits_frac"] = rng.random()          # used when the language is smaller than splits
    case["ratio"] = rng.choice([1.05, 1.1, 1.1, 1.5, 2.0, 3.0])
    if n is not None:
        case["splits"] = max(2, min(case["splits"], n))
    return case


def _tt(t):
    return tuple(_tt(x) for x in t) if isinstance(t, list) else t


# =========================================================================== synth -> tables
def synth_tables(case):
    """build the UCFG through synth and read it back as tables (None: nothing to test)"""
    import random as _r
    from harness import gen as G
    from synth.syntax import DSL, auto_type
    from synth.syntax.grammars.cfg import CFG
    from synth.syntax.grammars.u_cfg import UCFG
    prims = [(n, _tt(t)) for n, t in case["prims"]]
    dsl = DSL(auto_type({n: G.ty_str(t) for n, t in prims}))
    depth = case["depth"]
    while depth >= 1:
        try:
            cfg = CFG.depth_constraint(dsl, auto_type(G.ty_str(_tt(case["request"]))), depth, n_gram=case["ngram"])
            if case["route"] == "dfta":
                from synth.filter.constraints.dfta_constraints import add_dfta_constraints
                g = UCFG.from_DFTA(add_dfta_constraints(cfg, [case["constraint"]], progress=False))
            else:
                g = UCFG.from_CFG(cfg, True)
        except Exception:
            return None
        nts, syms = [], []
        nid, sid = {}, {}

        def nt(x):
            if x not in nid:
                nid[x] = len(nts)
                nts.append("t%d" % (abs(hash(str(x[0]))) % 1000))
            return nid[x]

        def sy(P, ar):
            if (P, ar) not in sid:
                sid[(P, ar)] = len(syms)
                syms.append([str(P), ar])
            return sid[(P, ar)]

        starts = [nt(s) for s in sorted(g.starts, key=str)]
        rules = []
        for S in g.rules:
            rs = []
            for P in g.rules[S]:
                alts = g.rules[S][P]
                if not alts:
                    continue
                rs.append([sy(P, len(alts[0])), [[nt(a) for a in alt] for alt in alts]])
            rules.append([nt(S), rs])
        if not starts:
            return None
        rng = _r.Random(case["wseed"])
        ws, wr = assign_weights(rng, starts, rules, case["wmode"])
        # symbol names must be distinct in the tables
        names = [s[0] for s in syms]
        for k, s in enumerate(syms):
            if names.count(s[0]) > 1:
                s[0] = f"{s[0]}#{s[1]}#{k}"
        T = clean_tables({"nts": nts, "syms": syms, "starts": ws, "rules": wr})
        if T is None:
            return None
        L = enum_tables(T)
        if L is not None:
            return T
        depth -= 1
    return None


def to_table_case(case):
    if case["route"] == "table":
        return case
    T = synth_tables(case)
    if T is None:
        return None
    c = {"route": "table", "tables": T, "splits": case["splits"], "ratio": case["ratio"], "origin": case["route"]}
    return c


# =========================================================================== tables -> repo objects
class Built:
    pass


def build(T):
    """tables -> ProbUGrammar built with constructors only, plus the interning maps"""
    from synth.syntax.grammars.tagged_u_grammar import ProbUGrammar
    from synth.syntax.grammars.u_cfg import UCFG
    from synth.syntax.program import Primitive
    from synth.syntax.type_system import Arrow, PrimitiveType
    B = Built()
    B.T = T
    B.nt = [(PrimitiveType(ty), ("q", i)) for i, ty in enumerate(T["nts"])]
    B.nt_id = {x: i for i, x in enumerate(B.nt)}
    tt = PrimitiveType("t")

    def fty(ar):
        t = tt
        for _ in range(ar):
            t = Arrow(tt, t)
        return t

    B.sym = [Primitive(n, fty(ar)) for n, ar in T["syms"]]
    B.sym_id = {P: i for i, P in enumerate(B.sym)}
    rules, probs = {}, {}
    for q, rs in T["rules"]:
        S = B.nt[q]
        rules[S], probs[S] = {}, {}
        for P, alts in rs:
            rules[S][B.sym[P]] = [[B.nt[a] for a in args] for args, _ in alts]
            probs[S][B.sym[P]] = {tuple(B.nt[a] for a in args): w[0] / w[1] for args, w in alts}
    starts = {B.nt[s] for s, _ in T["starts"]}
    g = UCFG(starts, rules, clean=False)
    B.pu = ProbUGrammar(g, probs, {B.nt[s]: w[0] / w[1] for s, w in T["starts"]})
    return B


def frac(x):
    f = Fraction(float(x))
    return [f.numerator, f.denominator]


def wire_nt(B, x):
    from synth.syntax.type_system import UnknownType
    if isinstance(x[0], UnknownType):
        return [Sym("u"), B.nt_id[B.pu.grammar._some_start]]
    i = B.nt_id[x]
    return [Sym(B.T["nts"][i]), i]


def wire_pug(B):
    pu = B.pu
    rules = []
    for S in pu.grammar.rules:
        rules.append([wire_nt(B, S)] + [[Sym("s%d" % B.sym_id[P])] + [[wire_nt(B, a) for a in alt] for alt in pu.grammar.rules[S][P]]
                                        for P in pu.grammar.rules[S]])
    tags = []
    for S in pu.tags:
        tags.append([wire_nt(B, S)] + [[Sym("s%d" % B.sym_id[P])] + [[[wire_nt(B, a) for a in alt], frac(w)] for alt, w in pu.tags[S][P].items()]
                                       for P in pu.tags[S]])
    stags = [[wire_nt(B, s), frac(w)] for s, w in pu.start_tags.items()]
    return [Sym("pug"), [wire_nt(B, s) for s in pu.grammar.starts], wire_nt(B, pu.grammar._some_start), rules, tags, stags]


def wire_node(B, n):
    info, S = n.for_next_derivation
    return [frac(n.probability), [wire_nt(B, x) for x in info], wire_nt(B, S), [Sym("s%d" % B.sym_id[P]) for P in n.program],
            [wire_nt(B, x) for x in n.derivation_history], [[wire_nt(B, x) for x in c] for c in n.choices]]


def canon_node(w):
    """parsed wire node -> hashable"""
    def c(x):
        return tuple(c(y) for y in x) if isinstance(x, list) else str(x)
    return c(w)


def node_key(B, n):
    """(start id, steps as ids) of an implementation node"""
    from synth.syntax.type_system import UnknownType
    hist = n.derivation_history
    start = hist[0] if hist else n.for_next_derivation[1]
    steps = tuple((B.nt_id[S], B.sym_id[P], tuple(B.nt_id[a] for a in v)) for S, P, v in zip(hist, n.program, n.choices))
    return B.nt_id[start], steps


# =========================================================================== enumerating a repo grammar
def enum_repo(g, limit=4 * MAX_LANG):
    """expand the tables of a (Prob)UGrammar: [(word of (P, arity), prob incl. start weight)]"""
    out = []

    class Big(Exception):
        pass

    def rec(stack, wd, p):
        if len(wd) > 250:
            raise Big()
        if not stack:
            out.append((tuple(wd), p))
            if len(out) > limit:
                raise Big()
            return
        S = stack[0]
        if S not in g.rules:
            return
        for P in g.rules[S]:
            for args in g.rules[S][P]:
                rec(list(args) + stack[1:], wd + [(P, len(args))], p * g.probabilities[S][P][tuple(args)])

    try:
        for s in g.starts:
            rec([s], [], g.start_tags[s])
    except (Big, RecursionError):
        return None
    return out


def word_program(wd):
    from synth.syntax.program import Function
    it = iter(wd)

    def rec():
        P, ar = next(it)
        if ar == 0:
            return P
        return Function(P, [rec() for _ in range(ar)])
    return rec()


# =========================================================================== time-out
class SplitTimeout(Exception):
    pass


def with_timeout(seconds, f):
    """run f() under its own alarm, re-arming the enclosing alarm of run.py afterwards"""
    def h(signum, frame):
        raise SplitTimeout()
    old_h = signal.getsignal(signal.SIGALRM)
    t0 = time.time()
    remaining = signal.alarm(0)
    signal.signal(signal.SIGALRM, h)
    signal.alarm(seconds)
    try:
        return f()
    finally:
        signal.alarm(0)
        signal.signal(signal.SIGALRM, old_h)
        if remaining:
            signal.alarm(max(1, int(remaining - (time.time() - t0))))


# =========================================================================== check
def fail(kind, what, detail=""):
    return {"kind": kind, "what": what, "detail": str(detail)[:600]}


def rat(w):
    """the exact value of the float handed to the implementation for the weight [num, den]"""
    return Fraction(int(w[0]) / int(w[1]))


def rat_exact(w):
    return Fraction(int(w[0]), int(w[1]))


def check(case, M):
    tier_to = SPLIT_TIMEOUT
    tcase = to_table_case(case)
    key = json.dumps(case, sort_keys=True)
    if tcase is None:
        return {"key": key, "nontrivial": False, "tags": ["no-grammar"], "failures": []}
    T = tcase["tables"]
    L = enum_tables(T)
    if L is None or len(L) < 2:
        return {"key": key, "nontrivial": False, "tags": ["language-too-big-or-small"], "failures": []}
    words = {}
    for s, steps, p in L:
        words.setdefault(word(steps), []).append((s, tuple(steps), p))
    if any(len(v) > 1 for v in words.values()):
        # two derivations of one program: the grammar is not unambiguous (outside the property)
        return {"key": key, "nontrivial": False, "tags": ["ambiguous-grammar"], "failures": []}
    nL = len(L)
    K = max(len(steps) for _, steps, _ in L)
    splits = max(2, min(int(tcase["splits"]), nL))
    ratio = float(tcase["ratio"])
    failures = []
    tags = ["route:" + case["route"], "splits:%d" % splits, "starts:%d" % len(T["starts"]),
            "lang:" + ("<10" if nL < 10 else "<50" if nL < 50 else ">=50")]

    from synth.syntax.grammars.enumeration import grammar_splitter as gs
    B = build(T)
    pu = B.pu
    gwire = wire_pug(B)

    # ---- run the implementation with call-through wrappers, under a time-out
    rec = {"nodes": None, "trace": [], "groups": [], "frags": []}
    names = ["__split_nodes_until_quantity_reached__", "__apply_swap__", "__try_split_node_in_group__", "__pcfg_from__"]
    orig = {n: getattr(gs, n, None) for n in names}
    hooked = all(orig[n] is not None for n in names)

    def w_nodes(pcfg, quantity):
        r = orig[names[0]](pcfg, quantity)
        rec["nodes"] = list(r)
        return r

    def w_swap(prob_groups, group_index, swap):
        j, k, l = swap
        rec["trace"].append([Sym("swap"), int(group_index), int(j), -1 if k is None else int(k), int(l)])
        return orig[names[1]](prob_groups, group_index, swap)

    def w_try(pcfg, prob_groups, group_index):
        r = orig[names[2]](pcfg, prob_groups, group_index)
        if r:
            rec["trace"].append([Sym("split"), int(group_index)])
        return r

    def w_from(pcfg, group):
        rec["groups"].append(list(group))
        r = orig[names[3]](pcfg, group)
        rec["frags"].append(r)
        return r

    if hooked:
        for n, w in zip(names, [w_nodes, w_swap, w_try, w_from]):
            setattr(gs, n, w)
    outcome = None
    try:
        import warnings
        with warnings.catch_warnings():
            warnings.simplefilter("ignore")
            frags, ret_ratio = with_timeout(tier_to, lambda: gs.split(pu, splits, ratio))
    except SplitTimeout:
        outcome = "timeout"
    except Exception as e:  # noqa
        outcome = "exception:" + type(e).__name__
        exc_detail = repr(e)
    finally:
        if hooked:
            for n in names:
                setattr(gs, n, orig[n])
    sample = {"lang": nL, "splits": splits, "ratio": ratio, "starts": len(T["starts"]), "outcome": outcome or "returned"}

    # ---- model: node splitting (structural only when the float arithmetic is exact)
    exact = True
    if rec["nodes"] is not None:
        tagw = {}
        for q, rs in T["rules"]:
            for P, alts in rs:
                for args, w in alts:
                    tagw[(q, P, tuple(args))] = rat(w)
        sw = {s: rat(w) for s, w in T["starts"]}
        all_nodes = list(rec["nodes"]) + [n for g in rec["groups"] for n in g]
        for n in all_nodes:
            st, steps = node_key(B, n)
            p = sw[st]
            for s in steps:
                p *= tagw.get(s, 0)
            if Fraction(float(n.probability)) != p or p.denominator > (1 << 50) or p.denominator & (p.denominator - 1):
                exact = False
                break
    tags.append("exact-arith" if exact else "float-arith")
    if rec["nodes"] is not None:
        ans = M.ask([Sym("c08.nodes"), gwire, splits, 10000])
        wf, norm, mnodes = ans[0] == "1", ans[1] == "1", ans[2]
        if not wf:
            raise RuntimeError("generated grammar is not well-formed for the model: " + key[:300])
        inodes = [canon_node(M.sexp.parse(M.sexp.dump(wire_node(B, n)))) for n in rec["nodes"]]
        if exact:
            if mnodes == "none":
                failures.append(fail("corr", "node splitting: model fails, implementation returns nodes"))
            elif [canon_node(x) for x in mnodes] != inodes:
                failures.append(fail("corr", "nodes of __split_nodes_until_quantity_reached__ differ from the model",
                                     f"impl={inodes[:3]} model={[canon_node(x) for x in mnodes][:3]}"))

    # ---- oracle on the outcome
    if outcome == "timeout":
        failures.append(fail("oracle", "split does not return within the time-out", f"{tier_to}s"))
        return {"key": key, "nontrivial": True, "tags": tags + ["timeout-split"], "sample": sample, "failures": failures}
    if outcome is not None:
        failures.append(fail("oracle", "split raises " + outcome.split(":")[1], exc_detail))
        return {"key": key, "nontrivial": True, "tags": tags + [outcome], "sample": sample, "failures": failures}

    probs = {wd: v[0][2] for wd, v in words.items()}           # word (ids) -> Fraction
    # fragments: enumerate by expanding their tables
    owner = {}
    masses = []
    frag_words = []
    if len(frags) != splits:
        failures.append(fail("oracle", "number of fragments differs from the number asked", f"{len(frags)} for {splits}"))
    for fi, f in enumerate(frags):
        Lf = enum_repo(f)
        if Lf is None:
            failures.append(fail("oracle", "fragment language is larger than the language of the grammar"))
            frag_words.append(None)
            masses.append(None)
            continue
        ws = {}
        for wd, p in Lf:
            try:
                wid = tuple((B.sym_id[P], ar) for P, ar in wd)
            except KeyError:
                wid = ("foreign",) + tuple((str(P), ar) for P, ar in wd)
            ws.setdefault(wid, []).append(p)
        if not ws:
            failures.append(fail("oracle", "empty fragment"))
        if any(len(v) > 1 for v in ws.values()):
            failures.append(fail("oracle", "a fragment derives a program in two ways"))
        for wid in ws:
            owner.setdefault(wid, []).append(fi)
        frag_words.append(ws)
        masses.append(sum((probs.get(wid, Fraction(0)) for wid in ws), Fraction(0)))
    missing = [wd for wd in probs if wd not in owner]
    extra = [wd for wd in owner if wd not in probs]
    shared = [wd for wd, o in owner.items() if len(o) > 1]
    if missing:
        failures.append(fail("oracle", "a program of the grammar is in no fragment", show_word(T, missing[0])))
    if extra:
        failures.append(fail("oracle", "a fragment contains a program that is not in the grammar", str(extra[0])[:200]))
    if shared:
        failures.append(fail("oracle", "fragments are not disjoint", show_word(T, shared[0])))
    for fi, ws in enumerate(frag_words):
        if not ws or not masses[fi]:
            continue
        for wid, ps in ws.items():
            if wid in probs and abs(float(ps[0]) - float(probs[wid] / masses[fi])) > TOL:
                failures.append(fail("oracle", "probability inside a fragment is not original probability / fragment mass",
                                     f"{show_word(T, wid)}: {float(ps[0])} vs {float(probs[wid] / masses[fi])}"))
                break
    ms = [m for m in masses if m]
    if ms and len(ms) == len(masses):
        true_ratio = float(max(ms) / min(ms))
        if not abs(float(ret_ratio) - true_ratio) <= TOL * max(1.0, true_ratio):
            failures.append(fail("oracle", "returned ratio is not heaviest / lightest fragment", f"returned {float(ret_ratio)} true {true_ratio}"))
        sample["true_ratio"] = round(true_ratio, 4)
    # API observables of the fragments
    for fi, f in enumerate(frags):
        ws = frag_words[fi]
        if not ws:
            continue
        try:
            np_ = f.programs()
        except Exception as e:  # noqa
            np_ = type(e).__name__
        if np_ != len(ws):
            failures.append(fail("oracle", "programs() of a fragment differs from the number of its programs", f"{np_} vs {len(ws)}"))
        one_start = len(f.starts) == 1
        k = 0
        for wid in probs:
            if k >= 40:
                break
            k += 1
            prog = word_program([(B.sym[P], ar) for P, ar in wid])
            inside = wid in ws
            try:
                got_in = prog in f
            except Exception as e:  # noqa
                got_in = type(e).__name__
            if got_in != inside:
                failures.append(fail("oracle", "`program in fragment` disagrees with the fragment's derivations", f"{show_word(T, wid)}: {got_in}"))
                break
            if one_start and masses[fi]:
                exp = float(probs[wid] / masses[fi]) if inside else 0.0
                try:
                    got = float(f.probability(prog))
                except Exception as e:  # noqa
                    got = type(e).__name__
                if not isinstance(got, float) or abs(got - exp) > TOL:
                    failures.append(fail("oracle", "fragment.probability(program) is not original probability / fragment mass",
                                         f"{show_word(T, wid)}: {got} vs {exp}"))
                    break

    # ---- Lean spec on the implementation's actual groups
    if hooked and rec["groups"]:
        groups = rec["groups"]
        gw = [[wire_node(B, n) for n in g] for g in groups]
        ans = M.ask([Sym("c08.cover"), gwire, gw, K])
        wf, norm, valid, cover, nd, nd1, cells = ans[0] == "1", ans[1] == "1", ans[2] == "1", ans[3] == "1", int(ans[4]), int(ans[5]), ans[6]
        if nd != nL or nd1 != nL:
            raise RuntimeError(f"Lean enumerates {nd}/{nd1} derivations, the harness {nL}")
        # the harness' own reading: which node's prefix starts each derivation
        own = []
        for g in groups:
            keys = [node_key(B, n) for n in g]
            own.append(sorted(word(steps) for s, steps, _ in L for (st, pre) in keys if st == s and tuple(steps[:len(pre)]) == pre))
        lean_cells = [sorted(tuple((int(str(a)[1:]), int(b)) for a, b in wd) for wd in c) for c in cells]
        cnt = {}
        for c in own:
            for wd in c:
                cnt[wd] = cnt.get(wd, 0) + 1
        own_cover = all(cnt.get(word(steps), 0) == 1 for _, steps, _ in L)
        if lean_cells != own:
            raise RuntimeError("Lean cells and harness cells differ")
        if own_cover != cover:
            raise RuntimeError(f"Lean coverUpTo={cover} but harness cover={own_cover}")
        if not valid:
            failures.append(fail("oracle", "a node of the groups is not a derivation prefix of the grammar"))
        if not cover:
            failures.append(fail("oracle", "the groups of __split_into_nodes__ are not a prefix-free cover of the derivations",
                                 str([len(c) for c in own])))
        if any(len(g) == 0 for g in groups):
            failures.append(fail("oracle", "empty group"))
        # fragment i must be the union of the cells of group i
        for fi, g in enumerate(groups):
            if fi < len(frag_words) and frag_words[fi] is not None and sorted(frag_words[fi]) != own[fi]:
                failures.append(fail("oracle", "the language of a fragment is not the union of the cells of its group",
                                     f"group {fi}: {len(frag_words[fi])} vs {len(own[fi])}"))
                break
        # model: replay of the operation trace (exact arithmetic only) and fragment grammars
        if exact and rec["nodes"] is not None:
            ans = M.ask([Sym("c08.groups"), gwire, [wire_node(B, n) for n in rec["nodes"]], splits, rec["trace"]])
            if ans[1] == "none":
                failures.append(fail("corr", "the model cannot replay the operation trace of the balancing loop", str(rec["trace"])[:300]))
            else:
                mg = [[canon_node(x) for x in g[0]] for g in ans[1]]
                ig = [[canon_node(M.sexp.parse(M.sexp.dump(wire_node(B, n)))) for n in g] for g in groups]
                # split() drops empty groups
                mg = [g for g in mg if g]
                if mg != ig:
                    failures.append(fail("corr", "groups after the balancing loop differ from the replayed model", str(rec["trace"])[:300]))
        tags.append("trace:%s" % ("0" if not rec["trace"] else "1-3" if len(rec["trace"]) <= 3 else ">3"))
        if any(t[0] == "split" for t in rec["trace"]):
            tags.append("trace-has-split")
        if any(t[0] == "swap" and t[3] >= 0 for t in rec["trace"]):
            tags.append("trace-has-swap")
        if any(t[0] == "swap" and t[3] < 0 for t in rec["trace"]):
            tags.append("trace-has-take")
        for fi, g in enumerate(groups):
            if not g:
                continue
            ans = M.ask([Sym("c08.frag"), gwire, gw[fi], K])
            spec = sorted((tuple((int(str(a)[1:]), int(b)) for a, b in wd), rat_exact(p)) for wd, p in ans[0])
            m = sum((probs[wd] for wd in own[fi]), Fraction(0))
            mine = sorted((wd, probs[wd] / m) for wd in own[fi]) if m else None
            if mine is not None and spec != mine:
                raise RuntimeError("Lean cellSpec and the harness oracle differ")
            if ans[1] == "none":
                failures.append(fail("corr", "the model of __pcfg_from__ fails on a group of the implementation"))
                continue
            fwf, fnorm, nrules, mds, nd1 = ans[1]
            model = sorted((tuple((int(str(a)[1:]), int(b)) for a, b in wd), rat_exact(p)) for wd, p in mds)
            if int(nd1) != len(mds):
                raise RuntimeError("fuel too small for the model fragment")
            if fi < len(frag_words) and frag_words[fi] is not None:
                impl = sorted((wd, ps[0]) for wd, ps in frag_words[fi].items())
                same = len(impl) == len(model) and all(a[0] == b[0] and abs(float(a[1]) - float(b[1])) <= TOL for a, b in zip(impl, model))
                if not same:
                    failures.append(fail("corr", "fragment grammar of the implementation and of the model have different derivations/weights",
                                         f"group {fi}: impl {len(impl)} model {len(model)}"))
            same = len(spec) == len(model) and all(a[0] == b[0] and abs(float(a[1]) - float(b[1])) <= TOL for a, b in zip(spec, model))
            if (model != spec) if (exact and norm) else (not same):
                failures.append(fail("corr", "model fragment differs from the specification (cells of the group, renormalised)", f"group {fi}"))
    elif not hooked:
        tags.append("not-hooked")

    nontrivial = nL >= 4 and splits >= 2 and any(len(g) > 1 for g in rec["groups"]) or nL >= 4 and len(frags) >= 2
    return {"key": key, "nontrivial": bool(nontrivial), "tags": tags, "sample": sample, "failures": failures}


def show_word(T, wd):
    try:
        it = iter(wd)

        def rec():
            P, ar = next(it)
            n = T["syms"][P][0]
            if ar == 0:
                return n
            return "(" + " ".join([n] + [rec() for _ in range(ar)]) + ")"
        return rec()
    except Exception:
        return str(wd)[:200]


# =========================================================================== shrinking
def shrink(case):
    c0 = to_table_case(case)
    if c0 is None:
        return
    if case["route"] != "table":
        yield c0
    T = c0["tables"]
    if c0["splits"] > 2:
        yield dict(c0, splits=c0["splits"] - 1)
    # drop a start symbol (its weight goes to the first remaining one)
    if len(T["starts"]) > 1:
        for i in range(len(T["starts"])):
            st = [list(x) for j, x in enumerate(T["starts"]) if j != i]
            w = Fraction(*st[0][1]) + Fraction(*T["starts"][i][1])
            st[0][1] = [w.numerator, w.denominator]
            T2 = clean_tables(dict(T, starts=st))
            if T2 is not None:
                yield dict(c0, tables=T2)
    # drop one alternative (its weight goes to the first remaining alternative of the non-terminal)
    for ri, (q, rs) in enumerate(T["rules"]):
        flat = [(pi, ai) for pi, (P, alts) in enumerate(rs) for ai in range(len(alts))]
        if len(flat) < 2:
            continue
        for (pi, ai) in flat:
            nrs = [[P, [[list(a), list(w)] for a, w in alts]] for P, alts in rs]
            w = Fraction(*nrs[pi][1][ai][1])
            del nrs[pi][1][ai]
            nrs = [r for r in nrs if r[1]]
            w0 = Fraction(*nrs[0][1][0][1]) + w
            nrs[0][1][0][1] = [w0.numerator, w0.denominator]
            rules = [e if j != ri else [q, nrs] for j, e in enumerate(T["rules"])]
            T2 = clean_tables(dict(T, rules=rules))
            if T2 is not None:
                yield dict(c0, tables=T2)
    if c0["ratio"] != 1.1:
        yield dict(c0, ratio=1.1)


# =========================================================================== corpus
def corpus():
    plus = {"nts": ["t0"] * 5, "syms": [["+", 2], ["1", 0], ["0", 0]]}
    # the witness of DESIGN §5: grammar +,1,0 of depth 3
    out = []
    for splits in (2, 3, 4, 5, 6):
        out.append({"route": "cfg", "prims": [["+", ["->", "int", ["->", "int", "int"]]], ["1", "int"], ["0", "int"]],
                    "request": "int", "depth": 3, "ngram": 2, "wmode": "random", "wseed": 5, "splits": splits, "ratio": 1.1})
        out.append({"route": "cfg", "prims": [["+", ["->", "int", ["->", "int", "int"]]], ["1", "int"], ["0", "int"]],
                    "request": "int", "depth": 3, "ngram": 2, "wmode": "uniform", "wseed": 5, "splits": splits, "ratio": 1.1})
    # minimised past failures (tables)
    # two start symbols that are never derived (IndexError in the old __create_starts__)
    out.append({"route": "table", "splits": 2, "ratio": 1.1, "tables": {
        "nts": ["t0", "t0"], "syms": [["a", 0], ["b", 0]],
        "starts": [[0, [1, 2]], [1, [1, 2]]],
        "rules": [[0, [[0, [[[], [1, 1]]]]]], [1, [[1, [[[], [1, 1]]]]]]]}})
    # S -> f(A, B) | c ; A -> a | b ; B -> a | b   with A = B shared: conflation of path and free copies
    out.append({"route": "table", "splits": 3, "ratio": 1.05, "tables": {
        "nts": ["t0", "t0"], "syms": [["f", 2], ["a", 0], ["b", 0]],
        "starts": [[0, [1, 1]]],
        "rules": [[0, [[0, [[[1, 1], [3, 4]]]], [1, [[[], [1, 4]]]]]], [1, [[1, [[[], [1, 2]]]], [2, [[[], [1, 2]]]]]]]}})
    del plus
    return out
