"""Shared machinery of the bee-search parts (c02_bee, c03_bee, c12_bee).

impl    : synth.syntax.grammars.enumeration.bee_search (BeeSearch, enumerate_prob_grammar) on CFGs built
          with the real constructors (CFG.depth_constraint, CFG.infinite); rule order, weights /
          integer costs, threshold, filter and merge history chosen by the case
model   : PS.Bee (lean/PS/Model/Enum/BeeSearch.lean) through the driver op bee.run (lean/PS/Drv/C93.lean)
oracle  : the language and the integer cost of every program by exhaustive expansion of the rule
          table (written here: no enumerator / membership / probability code of synth), the
          discretised cost of a rule recomputed with decimal logarithms
The cost table the enumerator works on is read from the implementation (en.G.probabilities: the result
of its own float expression int(-np.log(p) * 10**threshold)) and handed to the model as integers.
Symbols and non-terminal contexts are numbered by Python equality for the wire.
"""
import itertools
import json
import random
from decimal import Decimal, getcontext
from fractions import Fraction

from harness import enumhs as E
from harness import enumhs_rec as R
from harness.sexp import Sym

MAX_LANG = {"quick": 400, "thorough": 1500}
MAX_WORK = {"quick": 40000, "thorough": 250000}
FUEL = 100000000
ROUND_CAP = 20000
BANK_CAP = 6000
TIME_CAP = 8.0
CL_CAP = 1500          # values in the global cost list beyond which a run is cut (unaffordable for the differential run)

show, of_prog, subterms, tsize = E.show, E.of_prog, E.subterms, E.tsize


# --------------------------------------------------------------------------- case generation
CHAIN_DSLS = [
    # single-rule non-terminals: the uniform probability is 1, the integer cost 0 (finding C02-F6)
    [["g", ["->", "a", "b"]], ["h", ["->", "c", "a"]], ["k", "c"]],
    [["isz", ["->", "int", "bool"]], ["+", ["->", "int", ["->", "int", "int"]]], ["1", "int"], ["0", "int"]],
    [["f", ["->", "t", "t"]], ["g", ["->", "t", "t"]], ["c", "t"]],
    [["f", ["->", "t", "t"]], ["c", "t"], ["d", "t"]],
    [["p", ["->", "a", ["->", "b", "c"]]], ["x", "a"], ["y", "a"], ["u", "b"], ["w", ["->", "a", "b"]]],
]


def gen_build(rng, tier):
    r = rng.random()
    if r < 0.22:
        d = rng.randrange(len(CHAIN_DSLS))
        prims = CHAIN_DSLS[d]
        ret = prims[0][1]
        while not isinstance(ret, str):
            ret = ret[2]
        return {"src": "prims", "prims": prims, "forbidden": [], "request": rng.choice([ret, ["->", "int", ret]]) if d != 1 else "bool",
                "kind": "cfg", "max_depth": rng.choice([2, 3, 4, 5]), "min_var": 1, "n_gram": rng.choice([2, 2, 1])}
    b = E.gen_build(rng, tier, "det")
    b.pop("max_size", None)
    b.update(kind="cfg", max_depth=rng.choice([2, 3, 3, 3, 4]), min_var=rng.choice([0, 1, 1]), n_gram=rng.choice([2, 2, 2, 1, 3]))
    return b


def gen_costs(rng):
    r = rng.random()
    if r < 0.6:
        # through enumerate_prob_grammar(ProbDetGrammar(g, weights), threshold)
        return {"mode": "prob", "weights": rng.choice(["uniform1", "uniform1", "uniform", "dyadic", "dyadic", "skewed", "ties", "pow2", "float"]),
                "wseed": rng.randrange(1 << 30), "threshold": rng.choice([0, 1, 1, 2, 2, 2, 3, 4])}
    # BeeSearch(ProbDetGrammar(g, integer costs)) directly
    return {"mode": "int", "kind": rng.choice(["small", "small", "ties", "wide", "huge", "zero-leaf", "zero-any"]), "cseed": rng.randrange(1 << 30)}


def gen_levels(rng, tier):
    """small unary grammars whose weights span many orders of magnitude: the run passes more than 1000 (threshold 3: more
    than 5000) EMPTY cost levels before the last program (unary rules of cost 1, a leaf of probability 1e-5 … 1e-7)"""
    prims = [["f", ["->", "t", "t"]], ["c", "t"], ["d", "t"]]
    if rng.random() < 0.5:
        prims.insert(1, ["g", ["->", "t", "t"]])
    case = {"family": "fin", "levels": True,
            "build": {"src": "prims", "prims": prims, "forbidden": [], "request": rng.choice(["t", ["->", "int", "t"]]), "kind": "cfg",
                      "max_depth": rng.choice([2, 3, 3, 4, 5]), "min_var": 1, "n_gram": rng.choice([2, 2, 1])},
            "order": rng.choice(["built", "reversed", "shuffled"]), "oseed": rng.randrange(1 << 30),
            "costs": {"mode": "prob", "weights": "skew-levels", "wseed": rng.randrange(1 << 30), "threshold": rng.choice([2, 2, 2, 3])},
            "filter": None, "merges": [], "prefix": None, "fseed": None, "tier": tier}
    if case["costs"]["threshold"] == 3:
        case["build"]["max_depth"] = min(case["build"]["max_depth"], 3)      # > 5000 levels: keep the model run short
    return case


def gen_case(rng, i, tier):
    if rng.random() < 0.07:
        return gen_levels(rng, tier)
    case = {
        "family": "fin",
        "build": gen_build(rng, tier),
        "order": rng.choice(["built", "built", "reversed", "shuffled", "shuffled"]),
        "oseed": rng.randrange(1 << 30),
        "costs": gen_costs(rng),
        "filter": None,
        "merges": [],
        "prefix": None,
        "fseed": rng.randrange(1 << 30) if rng.random() < 0.3 else None,
        "tier": tier,
    }
    return case


def gen_rec(rng, tier):
    return {"family": "rec", "dsl": rng.randrange(len(R.DSLS)), "n_gram": rng.choice([1, 1, 2]),
            "order": rng.choice(["built", "reversed", "shuffled"]), "oseed": rng.randrange(1 << 30),
            "costs": rng.choice([{"mode": "prob", "weights": rng.choice(["dyadic", "pow2", "skewed", "ties"]), "wseed": rng.randrange(1 << 30), "threshold": rng.choice([0, 1, 1, 2])},
                                 {"mode": "int", "kind": rng.choice(["small", "ties", "wide"]), "cseed": rng.randrange(1 << 30)}]),
            "filter": None, "merges": [], "prefix": rng.choice([5, 13, 30, 50, 80, 120]), "fseed": None, "tier": tier}


def gen_filter(rng):
    return E.gen_filter(rng)


def gen_merges(rng):
    """[position, index, "yielded" | "any"]: at `position` yielded programs merge the index-th yielded
    program (mod count) / the index-th program of the language (mod size, possibly not yielded yet)"""
    return sorted([rng.choice([0, 0, 1, 2, 3, 5, 8, 13, 21, 40]), rng.randrange(1 << 16), rng.choice(["yielded", "yielded", "any"])]
                  for _ in range(rng.choice([1, 1, 2, 3])))


# --------------------------------------------------------------------------- grammar, weights, costs
def build_grammar(case):
    if case["family"] == "rec":
        from synth.syntax.dsl import DSL
        from synth.syntax.grammars.cfg import CFG
        dsl = DSL({n: R._ty(t) for n, t in R.DSLS[case["dsl"]].items()})
        return CFG.infinite(dsl, R._ty("t0"), n_gram=case["n_gram"])
    return E.build_grammar(dict(case["build"]))


def pick_weight(rng, mode, n):
    if mode == "uniform1":
        return Fraction(1, n)                  # ProbDetGrammar.uniform: 1 for a single rule
    if mode == "float":
        return Fraction(rng.random() * 0.98 + 0.01)
    return E.pick_weight(rng, mode, n)


def pick_cost(rng, kind, nargs):
    if kind == "small":
        return rng.randint(1, 4)
    if kind == "ties":
        return rng.choice([1, 2])
    if kind == "wide":
        return rng.choice([1, 2, 3, 7, 20, 50, 101])
    if kind == "huge":
        return rng.choice([1, 10, 1000, 10 ** 6, 10 ** 9 + 7, 10 ** 12])
    if kind == "zero-leaf":
        return rng.choice([0, 0, 1, 2, 3]) if nargs == 0 else rng.randint(1, 3)
    return rng.choice([0, 0, 1, 2])               # zero-any: region of finding C02-F6


def independent_cost(p, threshold):
    """int(-log p * 10**threshold) recomputed with 60-digit decimal logarithms: the set of integers the
    float expression may legitimately produce (two when -log p * 10**k is within 1e-9 of an integer)"""
    getcontext().prec = 60
    x = -(Decimal(p.numerator) / Decimal(p.denominator)).ln() * (Decimal(10) ** threshold)
    lo, hi = x * (1 - Decimal("1e-12")) - Decimal("1e-12"), x * (1 + Decimal("1e-12")) + Decimal("1e-12")
    return {int(lo), int(hi)} if lo >= 0 else {0, int(hi)}


# --------------------------------------------------------------------------- oracle
def nt_of(a):
    return (a[0], (a[1], None))


def expand_cost(g, cost, limit, every=None):
    """[(program tuple, integer cost)] of the (finite) language from g.start by top-down expansion"""
    memo = {}
    dangling = []

    def go(S):
        if S in memo:
            if memo[S] is None:
                raise RecursionError("cyclic rule table")
            return memo[S]
        memo[S] = None
        out = []
        for P, (args, _) in g.rules[S].items():
            partial = [((), cost[S][P])]
            for a in args:
                nS = nt_of(a)
                if nS not in g.rules:
                    dangling.append(nS)
                    partial = []
                    break
                nxt = []
                for kids, w in partial:
                    for sub, w2 in go(nS):
                        nxt.append((kids + (sub,), w + w2))
                        if len(nxt) > 4 * limit:
                            raise E.TooLarge()
                partial = nxt
            for kids, w in partial:
                out.append(((P, kids), w))
            if len(out) > limit:
                raise E.TooLarge()
        memo[S] = out
        return out
    res = go(g.start)
    if dangling:
        raise E.Dangling()
    if every is not None:
        every.update({S: v for S, v in memo.items() if v is not None})
    return res


def below(g, cost, S0, bound, limit):
    """all programs from S0 of cost <= bound on a (possibly recursive) rule table whose rules with
    arguments all cost >= 1; raises E.TooLarge"""
    count = [0]
    memo = {}

    def go(S, bound):
        key = (S, bound)
        if key in memo:
            return memo[key]
        res = []
        for P, (args, _) in g.rules[S].items():
            w = cost[S][P]
            if w > bound:
                continue
            partial = [((), w)]
            for a in args:
                nS = nt_of(a)
                nxt = []
                for kids, ww in partial:
                    for sub, w2 in go(nS, bound - ww):
                        if ww + w2 <= bound:
                            nxt.append((kids + (sub,), ww + w2))
                            count[0] += 1
                            if count[0] > limit:
                                raise E.TooLarge()
                partial = nxt
            res.extend(((P, kids), ww) for kids, ww in partial)
        memo[key] = res
        return res
    return go(S0, bound)


def cost_of(g, cost, t, S):
    """cost of program t from S by walking its derivation (None when not derivable)"""
    P, kids = t
    if S not in g.rules or P not in g.rules[S]:
        return None
    args, _ = g.rules[S][P]
    if len(args) != len(kids):
        return None
    w = cost[S][P]
    for a, k in zip(args, kids):
        q = cost_of(g, cost, k, nt_of(a))
        if q is None:
            return None
        w += q
    return w


def cost_closure(g, cost, cmax, cap):
    """the values bee search may append to its global cost list below cmax (every rule applied to every
    tuple of values, whatever the non-terminal): used only to ESTIMATE the work of a case"""
    vals = set()
    rules = [(len(args), cost[S][P]) for S, rs in g.rules.items() for P, (args, _) in rs.items()]
    changed = True
    while changed and len(vals) <= cap:
        changed = False
        sv = sorted(vals)
        for n, w in rules:
            if n == 0:
                new = {w} if w <= cmax else set()
            else:
                new = set()
                for combo in itertools.combinations_with_replacement(sv if n == 1 else sv[:150] if n == 2 else sv[:40] if n == 3 else sv[:12], n):
                    c = w + sum(combo)
                    if c <= cmax:
                        new.add(c)
            if not new <= vals:
                vals |= new
                changed = True
    return vals


def work_estimate(g, cost, cmax):
    n = len(cost_closure(g, cost, cmax, 400))
    if n > 400:
        return 10 ** 12, n          # every value up to cmax is appended to the cost list, one round each
    return sum((n + 1) ** len(args) for rs in g.rules.values() for args, _ in rs.values()), n


def contains(t, o):
    return any(s == o for s in subterms(t))


# --------------------------------------------------------------------------- wire
class Wire(E.Wire):
    def nt(self, S):
        return [str(S[0]), self.ctx(S[1][0])]

    def cfg(self, g, cost):
        entries = []
        for S, rs in g.rules.items():
            rl = []
            for P, (args, _) in rs.items():
                rl.append([self.sym(P), [[str(a[0]), self.ctx(a[1])] for a in args], int(cost[S][P])])
            entries.append([self.nt(S), rl])
        return [Sym("cfg"), self.nt(g.start), entries]


class Limit(Exception):
    """raised inside the implementation's loop by the harness' instrumentation of _next_cheapest_"""


def instrument(en, cost_bound, round_cap, cl_cap=None):
    """bound the run: stop when the cheapest queued cost exceeds cost_bound (every program of the finite
    language costs less) or after round_cap rounds"""
    import time
    orig = en._next_cheapest_
    st = {"rounds": 0, "over": 0, "t0": time.time()}

    def wrapped():
        nts, c = orig()
        st["rounds"] += 1
        if c is not None and cost_bound is not None and c > cost_bound:
            st["over"] += 1         # the enumerator is shown ONE cost above the bound (a repaired loop stops there)
        if st["rounds"] > round_cap or st["over"] > 1:
            # past every program of the language: it should have stopped; the round cap alone (no cost bound: recursive
            # grammar, or merges on a unary grammar) only means the run is unaffordable: inconclusive
            st["reason"] = "bound" if (st["over"] > 1 or cost_bound is not None) else "budget"
            raise Limit()
        if len(en._cost_list) > (cl_cap or CL_CAP) or (st["rounds"] % 4 == 0 and (en.programs_in_banks() > BANK_CAP or time.time() - st["t0"] > (TIME_CAP if (cl_cap or 0) < 40000 else 60.0))):
            st["reason"] = "budget"         # unaffordable for the differential run: inconclusive, not a failure
            raise Limit()
        return nts, c
    en._next_cheapest_ = wrapped
    return st


def run_script(en, plan, lang_progs, limit):
    """plan: [("take", k) | ("merge", j, mode)] -> (steps, concrete script, error, cut)
    steps: [([program tuples], finished)], cut = the harness' bound stopped the run"""
    it = en.generator()
    yielded = []
    steps = []
    script = []
    err = None
    cut = False
    try:
        for act in plan:
            if act[0] == "merge":
                pool = yielded if act[2] == "yielded" else lang_progs
                if not pool:
                    continue
                other = pool[act[1] % len(pool)]
                if act[2] != "yielded":
                    other = E.to_prog(other)
                rep = yielded[0] if yielded else other
                en.merge_program(rep, other)
                script.append(("merge", of_prog(other), str(other.type)))
                continue
            k = act[1]
            ys = []
            fin = False
            script.append(["take", 0])
            try:
                for _ in range(k):
                    try:
                        p = next(it)
                    except StopIteration:
                        fin = True
                        break
                    ys.append(p)
                    yielded.append(p)
                    script[-1][1] = len(ys)
                    if len(yielded) > limit:
                        raise E.TooLarge()
            finally:
                if fin:
                    script[-1][1] = len(ys) + 1
                script[-1] = tuple(script[-1])
                steps.append(([of_prog(p) for p in ys], fin))
            if fin:
                break
    except Limit:
        cut = True
    except E.TooLarge:
        err = "TooLarge"
    except RecursionError:
        err = "RecursionError"
    except Exception as e:  # noqa: the exception class is the observable
        if type(e).__name__ in ("CaseTimeout", "TimeoutError"):
            raise               # the runner's wall-clock limit is not an observable of the implementation
        err = type(e).__name__
    return steps, script, err, cut, it


def plan_of(case, n_expected):
    plan = []
    done = 0
    for pos, j, mode in sorted(case.get("merges") or []):
        if pos > done:
            plan.append(("take", pos - done))
            done = pos
        plan.append(("merge", j, mode))
    if case.get("prefix"):
        if case["prefix"] > done:
            plan.append(("take", case["prefix"] - done))
    else:
        plan.append(("take", 10 ** 9))
    return plan


def tables_of(en, it, wire):
    """the internal tables of the enumerator object and the frame of its generator, canonical"""
    P = lambda p: show(of_prog(p))  # noqa
    fl = it.gi_frame.f_locals if it is not None and it.gi_frame is not None else None
    return {
        "cost_list": [int(c) for c in en._cost_list],
        "bank": [[wire.nt(S), [[int(ci), [P(p) for p in ps]] for ci, ps in b.items()]] for S, b in en._bank.items()],
        "queued": [[wire.nt(S), [[int(el.cost), [int(x) for x in el.combination], wire.sym(el.P)] for el in h]] for S, h in en._prog_queued.items()],
        "delayed": [[wire.nt(S), [[[int(x) for x in ic], wire.sym(Pp), None if chk is None else int(chk)] for ic, Pp, chk in els]]
                    for S, els in en._delayed.items()],
        "deleted": sorted(P(p) for p in en._deleted),
        "max_index": [[wire.nt(S), int(v)] for S, v in en._max_index.items()],
        "has_merged": bool(en._has_merged),
        "progs": None if fl is None or "progs" not in fl else int(fl["progs"]),
        "failed": None if fl is None or "failed" not in fl else int(fl["failed"]),
    }


def tables_of_model(ans, wire):
    _, _msteps, cl, bank, queued, delayed, deleted, maxi, merged, progs, failed, _phase = ans[:12]
    P = lambda w: show(wire.unprog(w))  # noqa
    nt = lambda w: [str(w[0]), int(w[1])]  # noqa
    return {
        "cost_list": [int(c) for c in cl],
        "bank": [[nt(e[0]), [[int(b[0]), [P(p) for p in b[1]]] for b in e[1]]] for e in bank],
        "queued": [[nt(e[0]), [[int(h[0]), [int(x) for x in h[1]], int(h[2])] for h in e[1]]] for e in queued],
        "delayed": [[nt(e[0]), [[[int(x) for x in d[0]], int(d[1]), None if d[2] == "none" else int(d[2])] for d in e[1]]] for e in delayed],
        "deleted": sorted(P(p) for p in deleted),
        "max_index": [[nt(e[0]), int(e[1])] for e in maxi],
        "has_merged": merged == "1",
        "progs": int(progs),
        "failed": int(failed),
    }


# --------------------------------------------------------------------------- one case
def nonterminal_with_args_cost0(g, cost):
    """decidable classifier of finding C02-F6 / C03-F8 / C12-F9: a rule WITH ARGUMENTS has integer cost 0
    (= the negation of the hypothesis PS.Bee.posArgCosts of the completeness theorems)"""
    return any(len(args) > 0 and cost[S][P] <= 0 for S, rs in g.rules.items() for P, (args, _) in rs.items())


def mutate(rng, t, syms):
    """a program tuple near t (probably outside the language)"""
    P, kids = t
    r = rng.random()
    if kids and r < 0.3:
        return (P, kids[:-1])
    if r < 0.6:
        return (rng.choice(syms), kids)
    if kids:
        j = rng.randrange(len(kids))
        return (P, kids[:j] + (mutate(rng, kids[j], syms),) + kids[j + 1:])
    return (P, ((P, ()),))


def run_case(case, M, tier="quick"):
    """-> dict(trivial=…) or dict with the oracle's language, the implementation run, the model run,
    the correspondence failures (corr) and the harness' bookkeeping"""
    from synth.syntax.grammars.tagged_det_grammar import ProbDetGrammar
    from synth.syntax.grammars.enumeration.bee_search import BeeSearch, enumerate_prob_grammar
    rec = case["family"] == "rec"
    b = dict(case.get("build") or {})
    g = build_grammar(case) if rec else E.build_grammar(b)
    if g is None:
        return {"trivial": "constructor:" + b.get("_error", "?")}
    if g.start not in g.rules or not g.rules[g.start]:
        return {"trivial": "empty"}
    E.reorder_rules(g, case["order"], case["oseed"])
    limit = MAX_LANG[tier]
    cs = dict(case["costs"])
    nprog = g.programs()
    weights = None
    # ---- the cost table, by the implementation's own expression
    for attempt in range(6):
        if cs["mode"] == "prob":
            rng = random.Random(cs["wseed"])
            if cs["weights"] == "skew-levels":
                # unary rules: probability 0.99 / 0.999 (integer cost 1); leaves: 1/2, or 1e-5 … 1e-7 for the last one
                big = Fraction(99, 100) if cs["threshold"] <= 2 else Fraction(999, 1000)
                weights = {}
                for S, rs in g.rules.items():
                    leaves = [P for P, rl in rs.items() if not rl[0]]
                    weights[S] = {P: (big if rl[0] else Fraction(1, 2)) for P, rl in rs.items()}
                    if len(leaves) >= 2:
                        weights[S][leaves[-1]] = Fraction(1, 10 ** rng.choice([5, 6, 7]))
            else:
                weights = {S: {P: pick_weight(rng, cs["weights"], len(rs)) for P in rs} for S, rs in g.rules.items()}
            pcfg = ProbDetGrammar(g, {S: {P: float(w) for P, w in ws.items()} for S, ws in weights.items()})
            thr = cs["threshold"]

            def fresh(pcfg=pcfg, thr=thr):
                return enumerate_prob_grammar(pcfg, thr)
        else:
            rng = random.Random(cs["cseed"])
            table = {S: {P: pick_cost(rng, cs["kind"], len(rl[0])) for P, rl in rs.items()} for S, rs in g.rules.items()}
            pcfg = ProbDetGrammar(g, table)

            def fresh(pcfg=pcfg):
                return BeeSearch(pcfg)
        en = fresh()
        cost = {S: {P: c for P, c in d.items()} for S, d in en.G.probabilities.items()}
        if any(not isinstance(c, int) for d in cost.values() for c in d.values()):
            cost = {S: {P: int(c) for P, c in d.items()} for S, d in cost.items()}
        if rec:
            lang = None
            break
        try:
            every = {}
            lang = expand_cost(g, cost, limit, every)
        except E.TooLarge:
            if b.get("max_depth", 1) > 1:
                b["max_depth"] -= 1
                g = E.build_grammar(b)
                if g is None or g.start not in g.rules:
                    return {"trivial": "too-large"}
                E.reorder_rules(g, case["order"], case["oseed"])
                nprog = g.programs()
                continue
            return {"trivial": "too-large"}
        except RecursionError:
            return {"trivial": "cyclic"}
        except E.Dangling:
            return {"trivial": "dangling-rule(grammar not clean)"}
        cmax = max(c for _, c in lang)
        if case.get("levels") and all(len(args) <= 1 for rs in g.rules.values() for args, _ in rs.values()):
            break           # unary grammar: thousands of cost levels are affordable, that is the point of the family
        work, nvals = work_estimate(g, cost, cmax)
        if work <= MAX_WORK[tier]:
            break
        # too slow for a differential run (bee search appends every reachable value to its cost list):
        # coarser costs, then a shallower grammar
        if cs["mode"] == "prob" and cs["threshold"] > 0:
            cs["threshold"] -= 1
        elif cs["mode"] == "int" and cs["kind"] not in ("ties", "zero-any"):
            cs["kind"] = "ties"
        elif b.get("max_depth", 1) > 1:
            b["max_depth"] -= 1
            g = E.build_grammar(b)
            if g is None or g.start not in g.rules:
                return {"trivial": "too-slow"}
            E.reorder_rules(g, case["order"], case["oseed"])
            nprog = g.programs()
        else:
            return {"trivial": "too-slow"}
    else:
        return {"trivial": "too-slow"}
    zero = nonterminal_with_args_cost0(g, cost)
    out = {"g": g, "cost": cost, "weights": weights, "costs": cs, "lang": lang, "nprog": nprog, "zero": zero, "rec": rec,
           "depth": b.get("max_depth"), "corr": [], "model": None}
    # ---- independent check of the discretisation
    out["disc"] = []
    if cs["mode"] == "prob":
        for S, ws in weights.items():
            for P, w in ws.items():
                ok = independent_cost(Fraction(float(w)), cs["threshold"])
                if cost[S].get(P) not in ok:
                    out["disc"].append(f"{P}: p={float(w)} threshold={cs['threshold']}: cost {cost[S].get(P)} not in {sorted(ok)}")
    # ---- filter, plan
    lang_sorted = sorted(show(p) for p, _ in lang) if lang is not None else []
    pred = E.make_filter(case.get("filter"), lang_sorted)
    out["pred"] = pred
    if pred is not None:
        en.filter = E.HFilter(pred)
    lang_progs = sorted((p for p, _ in lang), key=show) if lang is not None else []
    plan = plan_of(case, len(lang_progs))
    unary = all(len(args) <= 1 for rs in g.rules.values() for args, _ in rs.values())
    import inspect as _inspect
    fixed_loop = "max_cost" in _inspect.getsource(BeeSearch.generator)
    if rec or (case.get("merges") and unary and not fixed_loop):
        cost_bound = None       # after a merge the loop stops after 1000 unproductive rounds: affordable on unary grammars
    else:
        cost_bound = max(c for _, c in lang)
    # ---- first run: bounded by the cost of the most expensive program (+ round cap)
    maxar = max([len(args) for rs in g.rules.values() for args, _ in rs.values()] + [1])
    cl_cap = min(CL_CAP, int((4 * MAX_WORK[tier]) ** (1.0 / maxar)) + 1)
    if case.get("levels") and maxar <= 1:
        cl_cap = 40000
    st = instrument(en, cost_bound, (5000 if rec else 60000) if cost_bound is None else ROUND_CAP, cl_cap)
    steps, script, err, cut, it = run_script(en, plan, lang_progs, 4 * limit + 10)
    if rec:
        # no a-priori work estimate on a recursive grammar: halve the prefix until the run is affordable for the model
        pre = case["prefix"]
        while pre > 3 and (cut or sum((len(en._cost_list) + 1) ** len(args) for rs in g.rules.values() for args, _ in rs.values()) > MAX_WORK[tier]):
            pre //= 2
            en = fresh()
            st = instrument(en, None, 5000, cl_cap)
            plan = [("take", pre)]
            steps, script, err, cut, it = run_script(en, plan, lang_progs, 4 * limit + 10)
        out["prefix"] = pre
    out.update(steps=steps, script=script, err=err, cut=cut, rounds=st["rounds"], en=en, budget_cut=bool(cut and st.get("reason") == "budget"))
    # ---- second run, not cut: exactly the programs of the first one; tables at the last suspension
    en2 = fresh()
    if pred is not None:
        en2.filter = E.HFilter(pred)
    plan2 = [a if a[0] == "merge" else ("take", a[1]) for a in script]
    it2 = en2.generator()
    yielded2 = []
    ok2 = True
    try:
        for a in plan2:
            if a[0] == "merge":
                other = E.to_prog(a[1])
                en2.merge_program(yielded2[0] if yielded2 else other, other)
            else:
                for _ in range(a[1]):
                    try:
                        yielded2.append(next(it2))
                    except StopIteration:
                        break
    except Exception as e:  # noqa
        if type(e).__name__ in ("CaseTimeout", "TimeoutError"):
            raise
        ok2 = False
    wire = Wire()
    gw = wire.cfg(g, cost)
    # the filter is asked about the programs of EVERY non-terminal
    rejected = list({p: 0 for ps in every.values() for p, _ in ps if not pred(p)}) if (lang is not None and pred is not None) else []
    scriptw = [[Sym("take"), a[1]] if a[0] == "take" else [Sym("merge"), wire.prog(a[1]), a[2]] for a in script]
    # probes for the specification: members and near misses
    prng = random.Random(case.get("oseed", 0))
    syms = [P for rs in g.rules.values() for P in rs]
    members = [p for p, _ in lang] if lang is not None else [p for ys, _ in steps for p in ys]
    if len(members) > 120:
        members = prng.sample(members, 120)
    probes = members + [mutate(prng, p, syms) for p in members[:40]]
    # which variant of the generator loop does the tree implement? (proposed repair of C12-F11: stop at the maximal cost)
    import inspect
    fixed = "max_cost" in inspect.getsource(BeeSearch.generator)
    out["fixed"] = fixed
    maxc = Sym("none") if (lang is None or not fixed) else int(max(c for _, c in lang))
    ans = M.ask([Sym("bee.run"), gw, [wire.prog(p) for p in rejected], scriptw, FUEL, int(nprog), [wire.prog(p) for p in probes], fixed, maxc])
    corr = out["corr"]
    out["wire"] = wire
    if ans[0] == "undef":
        if err is None:
            corr.append(("model undefined (fuel or uncaught exception) where the implementation runs", str(ans[1:])))
        return out
    if err is not None:
        if err != "TooLarge":
            corr.append(("implementation raises where the model runs", err))
        return out
    msteps = ans[1]
    m_steps = [([show(wire.unprog(p)) for p in ys], fin == "1") for ys, fin in msteps]
    i_steps = [([show(p) for p in ys], fin) for ys, fin in steps]
    out["model"] = m_steps
    if m_steps != i_steps:
        fi, fm = sum((s[0] for s in i_steps), []), sum((s[0] for s in m_steps), [])
        d = next((k for k, (a, c) in enumerate(zip(fi, fm)) if a != c), None)
        corr.append(("yielded sequence differs from the model",
                     f"first difference at position {d}: impl {fi[d:d+3] if d is not None else [(len(x[0]), x[1]) for x in i_steps]} "
                     f"model {fm[d:d+3] if d is not None else [(len(x[0]), x[1]) for x in m_steps]}"))
    elif ok2:
        ti, tm = tables_of(en2, it2, wire), tables_of_model(ans, wire)
        for k in ("cost_list", "bank", "queued", "delayed", "deleted", "max_index", "has_merged", "progs", "failed"):
            if k in ("progs", "failed") and ti[k] is None:
                continue
            if ti[k] != tm[k]:
                corr.append((f"internal table {k} differs from the model", f"impl {str(ti[k])[:160]} model {str(tm[k])[:160]}"))
    else:
        corr.append(("the implementation is not deterministic (second run raised)", ""))
    # ---- specification outputs on the probes (harness error when the Lean spec and the oracle disagree)
    spec = ans[12]
    for p, (mem, c) in zip(probes, spec):
        oc = cost_of(g, cost, p, g.start)
        if (mem == "1") != (oc is not None) or (oc is not None and int(c) != oc):
            raise RuntimeError(f"Lean specification and harness oracle disagree on {show(p)}: spec {(mem, c)} oracle {oc}")
    hyps = ans[13]
    out["hyps"] = {"hasCosts": hyps[0] == "1", "nonneg": hyps[1] == "1", "posArg": hyps[2] == "1"}
    # the decidable hypotheses of the order / no-duplicates / coverage theorems hold on every real rule table (a dict)
    names = ["nonnegW", "dictOK", "initFrontOK", "initCoverOK"]
    for nm, v in zip(names, hyps[3:7]):
        out["hyps"][nm] = v == "1"
    if len(hyps) >= 7 and not all(out["hyps"][nm] for nm in names[1:]):
        raise RuntimeError(f"a decidable hypothesis of the bee theorems fails on a real rule table: {out['hyps']}")
    if out["hyps"]["posArg"] == zero:
        raise RuntimeError("Lean hypothesis posArgCosts and the harness classifier disagree")
    return out


def flat(steps):
    return [p for ys, _ in steps for p in ys]


def costs_of_yielded(r):
    """oracle cost of every yielded program (None outside the language)"""
    if r["lang"] is not None:
        table = {show(p): c for p, c in r["lang"]}
        return [table.get(show(p)) for p in flat(r["steps"])]
    return [cost_of(r["g"], r["cost"], p, r["g"].start) for p in flat(r["steps"])]


FINDING_IDS = {"C02": {"zero": "C02-F6"}, "C03": {"zero": "C03-F8"}, "C12": {"zero": "C12-F9", "merge": "C12-F10", "stop": "C12-F11"}}


def base_tags(case, r):
    cs = r["costs"]
    tags = [case["family"], "order:" + case["order"], "costs:" + cs["mode"],
            ("weights:" + cs["weights"] + "/threshold:" + str(cs["threshold"])) if cs["mode"] == "prob" else "intcosts:" + cs["kind"]]
    if r["lang"] is not None:
        n = len(r["lang"])
        tags.append("lang<10" if n < 10 else "lang<100" if n < 100 else "lang<1000" if n < 1000 else "lang>=1000")
    tags.append("zero-cost-rule-with-arguments(C02-F6 region)" if r["zero"] else "positive-costs")
    tags.append("impl:stops-at-max-cost(C12-F11 repaired)" if r.get("fixed") else "impl:stops-on-program-count(as is)")
    empty = r.get("rounds", 0) - len(flat(r["steps"]))
    if case.get("levels"):
        tags.append("skew-levels-family")
    if empty > 5000:
        tags.append("empty-levels>5000")
    elif empty > 1000:
        tags.append("empty-levels>1000")
    if r.get("budget_cut"):
        tags.append("inconclusive:run-cut-by-time/size-budget")
    elif r.get("cut"):
        tags.append("run-cut-by-harness-bound")
    return tags


def key_of(case):
    return json.dumps(case, sort_keys=True)


def sample_of(case, r):
    ys = [show(p) for p in flat(r["steps"])]
    return {"family": case["family"], "costs": r["costs"], "order": case["order"], "language_size": None if r["lang"] is None else len(r["lang"]),
            "yielded": len(ys), "first": ys[:5], "filter": case.get("filter"), "merges": case.get("merges"), "rounds": r.get("rounds"),
            "cost_list_len": len(r["en"]._cost_list)}


def ntie_groups(lang):
    c = {}
    for _, w in lang:
        c[w] = c.get(w, 0) + 1
    return sum(1 for v in c.values() if v > 1), len(c)


def shrink_case(case):
    import copy
    if case.get("merges"):
        for j in range(len(case["merges"])):
            c = copy.deepcopy(case)
            del c["merges"][j]
            yield c
    if case.get("filter"):
        c = copy.deepcopy(case)
        c["filter"] = None
        yield c
    if case["family"] == "rec":
        if case.get("prefix", 0) > 3:
            c = copy.deepcopy(case)
            c["prefix"] = case["prefix"] // 2
            yield c
        return
    b = case["build"]
    if b["src"] == "prims":
        for j in range(len(b["prims"])):
            c = copy.deepcopy(case)
            del c["build"]["prims"][j]
            names = {n for n, _ in c["build"]["prims"]}
            c["build"]["forbidden"] = [[a, k, [x for x in v if x in names]] for a, k, v in b.get("forbidden", []) if a in names]
            yield c
        if b.get("forbidden"):
            c = copy.deepcopy(case)
            c["build"]["forbidden"] = []
            yield c
    if b.get("max_depth", 0) > 1:
        c = copy.deepcopy(case)
        c["build"]["max_depth"] -= 1
        yield c
    if case["order"] != "built":
        c = copy.deepcopy(case)
        c["order"] = "built"
        yield c
    cs = case["costs"]
    if cs["mode"] == "prob":
        if cs["threshold"] > 0:
            c = copy.deepcopy(case)
            c["costs"]["threshold"] -= 1
            yield c
        if cs["weights"] not in ("uniform", "uniform1"):
            c = copy.deepcopy(case)
            c["costs"]["weights"] = "uniform"
            yield c
    elif cs["kind"] != "ties":
        c = copy.deepcopy(case)
        c["costs"]["kind"] = "ties"
        yield c
