"""Independent oracles written from the English statements of the properties.
Nothing here imports `synth`.  Types are harness tuple types ("int", ("->", a, b), ("list", t));
terms are (head, [args]) with head = ("P", name, ty) | ("V", i, ty) | ("C", ty, value-or-"")."""
import itertools


def ends_with(t, target):
    """argument types [a1..ak] if t = a1 -> .. -> ak -> target (k >= 0), else None"""
    args = []
    while True:
        if t == target:
            return args
        if not isinstance(t, str) and t[0] == "->":
            args.append(t[1])
            t = t[2]
        else:
            return None


def args_ret(t):
    args = []
    while not isinstance(t, str) and t[0] == "->":
        args.append(t[1])
        t = t[2]
    return args, t


def ty_str(t):
    if isinstance(t, str):
        return t
    if t[0] == "->":
        return "(" + ty_str(t[1]) + " -> " + ty_str(t[2]) + ")"
    if t[0] == "list":
        return ty_str(t[1]) + " list"
    return str(t)


def term_str(t):
    h, args = t
    if h[0] == "P":
        hs = h[1]
    elif h[0] == "V":
        hs = f"var{h[1]}"
    else:
        hs = h[2] if h[2] != "" else "<" + ty_str(h[1]) + ">"
    if not args:
        return hs
    return "(" + " ".join([hs] + [term_str(a) for a in args]) + ")"


class TypedTerms:
    """the well-typed applicative terms of the C01 statement"""

    def __init__(self, prims, forbidden, request, max_depth, min_var, const_types, recursive, see_parent=True):
        self.prims = list(prims)              # [(name, ty)]
        self.forbidden = forbidden            # {(name, i): set(names)}
        self.request = request
        self.args, self.ret = args_ret(request)
        self.max_depth = max_depth
        self.min_var = min_var
        self.const_types = list(const_types)
        self.recursive = recursive
        self.see_parent = see_parent
        self._memo = {}
        self._cnt = {}

    def forb(self, parent):
        if parent is None or not self.see_parent:
            return frozenset(self.forbidden.get(("", 0), ()))
        h, i = parent
        if h[0] == "P":
            return frozenset(self.forbidden.get((h[1], i), ()))
        return frozenset(self.forbidden.get(("", 0), ()))

    def heads(self, level, forb, ty):
        """[(head, argtypes)] : leaves have argtypes == []"""
        out = []
        if level >= self.max_depth:
            return out
        if level >= self.min_var:
            for i, a in enumerate(self.args):
                if a == ty:
                    out.append((("V", i, a), []))
            if ty in self.const_types:
                out.append((("C", ty, ""), []))
        for n, t in self.prims:
            if n not in forb and t == ty:
                out.append((("P", n, t), []))
        if level + 1 < self.max_depth:
            for n, t in self.prims:
                if n in forb:
                    continue
                a = ends_with(t, ty)
                if a:
                    out.append((("P", n, t), a))
            if level >= self.min_var:
                for i, t in enumerate(self.args):
                    a = ends_with(t, ty)
                    if a:
                        out.append((("V", i, t), a))
            if self.recursive:
                # calling the program itself; with a request without arguments this is the
                # bare symbol @self
                a = ends_with(self.request, ty)
                if a is not None:
                    out.append((("P", "@self", self.request), a))
        return out

    def count(self, level=0, parent=None, ty=None):
        ty = self.ret if ty is None else ty
        key = (level, self.forb(parent), ty)
        if key in self._cnt:
            return self._cnt[key]
        total = 0
        for h, a in self.heads(level, key[1], ty):
            local = 1
            for i, at in enumerate(a):
                local *= self.count(level + 1, (h, i), at)
                if local == 0:
                    break
            total += local
        self._cnt[key] = total
        return total

    def terms(self, level=0, parent=None, ty=None):
        ty = self.ret if ty is None else ty
        key = (level, self.forb(parent), ty)
        if key in self._memo:
            return self._memo[key]
        out = []
        for h, a in self.heads(level, key[1], ty):
            if not a:
                out.append((h, []))
            else:
                subs = [self.terms(level + 1, (h, i), at) for i, at in enumerate(a)]
                for combo in itertools.product(*subs):
                    out.append((h, list(combo)))
        self._memo[key] = out
        return out

    def member(self, t, level=0, parent=None, ty=None):
        ty = self.ret if ty is None else ty
        h, args = t
        for hh, a in self.heads(level, self.forb(parent), ty):
            if hh == h and len(a) == len(args):
                if all(self.member(x, level + 1, (h, i), at) for i, (x, at) in enumerate(zip(args, a))):
                    return True
        return False
