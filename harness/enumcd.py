"""Shared machinery of the constant-delay parts (c02_cd, c03_cd, c12_cd).

impl    : synth.syntax.grammars.enumeration.constant_delay (enumerate_prob_grammar -> CDSearch) and
          constant_delay_queue (CDQueue) on grammars built with the real constructors
          (CFG.depth_constraint on random DSLs / arithmetic DSLs / the test-suite DSL, CFG.infinite),
          probabilities, precision, k and rule order chosen by the case
model   : PS.CD (lean/PS/Model/Enum/CDQueue.lean, ConstantDelay.lean) through the driver ops cd.run /
          cd.queue (lean/PS/Drv/C95.lean).  The model runs with IEEE doubles (bit-exact comparison of
          every table, floats compared by their 64 bits) and with exact rationals (the arithmetic of the
          order theorems); a difference between the two runs is a float-rounding effect (tag, finding C03-F5).
oracle  : the language with the integer cost (sum of the discretised rule costs) and the exact
          probability (Fraction product) of every program by exhaustive expansion of the rule table,
          written here; no enumerator / membership / probability code of synth.
The integer cost table is the one the implementation computes (-int(np.log(p) * 1 / precision), trusted
float expression); the oracle re-derives it with math.log and accepts a difference of at most 1.
"""
import itertools
import json
import math
import random
import struct
from fractions import Fraction

from harness import enumhs as E
from harness.sexp import Sym

MAX_LANG = {"quick": 1200, "thorough": 4000}
FUEL = 100000000
SLACK = 16          # the slack of the pinned tests (tests/.../test_constant_delay.py: 16 x precision)

KS = [1, 2, 3, 4, 5, 5, 10, 10, 16, 64]
PRECISIONS = [1.0, 0.5, 0.1, 0.1, 1e-2, 1e-2, 1e-3, 1e-4, 1e-5]


# --------------------------------------------------------------------------- case generation
def gen_case(rng, i, tier):
    b = E.gen_build(rng, tier, "det")
    if b.get("kind") != "cfg":
        b = {k: v for k, v in b.items() if k not in ("max_size",)}
        b.update(kind="cfg", max_depth=rng.choice([2, 3, 3, 4]), min_var=rng.choice([0, 1, 1]), n_gram=rng.choice([2, 2, 1]))
    case = {
        "family": "cd",
        "build": b,
        "order": rng.choice(["built", "built", "reversed", "shuffled", "shuffled"]),
        "oseed": rng.randrange(1 << 30),
        "weights": rng.choice(["uniform", "random", "random", "random", "skewed", "ties", "magnitudes", "pow2"]),
        "wseed": rng.randrange(1 << 30),
        "k": rng.choice(KS),
        "precision": rng.choice(PRECISIONS),
        "filter": None,
        "merges": [],
        "tier": tier,
    }
    fit_size(case, tier)
    return case


def fit_size(case, tier):
    b = case["build"]
    limit = MAX_LANG[tier]
    for _ in range(4):
        n = E.lang_size(b, limit)
        if n is None:
            return
        if n > limit and b["max_depth"] > 1:
            b["max_depth"] -= 1
        elif n < 8 and b["max_depth"] < 4:
            b["max_depth"] += 1
            m = E.lang_size(b, limit)
            if m is None or m > limit:
                b["max_depth"] -= 1
                return
        else:
            return


REC_DSLS = [
    {"+": ["->", "int", ["->", "int", "int"]], "1": "int", "2": "int"},
    {"F": ["->", "t1", ["->", "t1", "t0"]], "b": "t0", "g": ["->", "t0", "t1"], "c": "t1"},
    {"F": ["->", "t1", ["->", "t1", "t0"]], "b": "t0", "g": ["->", "t0", "t1"], "c": "t1", "h": ["->", "t1", "t0"]},
    {"f": ["->", "int", "int"], "+": ["->", "int", ["->", "int", "int"]], "0": "int"},
    {"T": ["->", "int", ["->", "int", ["->", "int", "int"]]], "s": ["->", "int", "int"], "0": "int", "1": "int"},
]


def gen_rec(rng, tier):
    d = rng.randrange(len(REC_DSLS))
    return {"family": "cd-rec", "dsl": d, "request": rng.choice(["int", ["->", "int", "int"]]) if d in (0, 3, 4) else "t0",
            "n_gram": rng.choice([1, 1, 2]), "weights": rng.choice(["random", "random", "skewed", "ties", "pow2"]),
            "wseed": rng.randrange(1 << 30), "k": rng.choice(KS), "precision": rng.choice([1.0, 0.5, 0.1, 1e-2, 1e-3, 1e-4]),
            "take": rng.choice([5, 13, 50, 100, 200, 400] + ([1000, 3000] if tier == "thorough" else [])),
            "order": rng.choice(["built", "reversed", "shuffled"]), "oseed": rng.randrange(1 << 30), "filter": None, "merges": [], "tier": tier}


def _ty(t):
    from synth.syntax.type_system import Arrow, PrimitiveType
    if isinstance(t, str):
        return PrimitiveType(t)
    return Arrow(_ty(t[1]), _ty(t[2]))


def build(case):
    """-> CFG or None"""
    if case["family"] == "cd-rec":
        from synth.syntax.dsl import DSL
        from synth.syntax.grammars.cfg import CFG
        dsl = DSL({n: _ty(t) for n, t in REC_DSLS[case["dsl"]].items()})
        g = CFG.infinite(dsl, _ty(case["request"]), n_gram=case["n_gram"])
    else:
        g = E.build_grammar(dict(case["build"]))
        if g is None:
            return None
    if g.start not in g.rules or not g.rules[g.start]:
        return None
    E.reorder_rules(g, case["order"], case["oseed"])
    return g


def pick_probs(rng, mode, rs):
    """probabilities of the rules of one non-terminal (floats in (0, 1])"""
    n = len(rs)
    if mode == "uniform":
        return [1.0 / n] * n
    if mode == "random":
        w = [rng.random() + 0.02 for _ in range(n)]
        s = sum(w)
        return [x / s for x in w]
    if mode == "skewed":
        w = [rng.choice([1, 1, 1, 60, 200, 2]) for _ in range(n)]
        s = sum(w)
        return [x / s for x in w]
    if mode == "ties":
        return [rng.choice([0.5, 0.25]) for _ in range(n)]
    if mode == "magnitudes":
        return [10.0 ** (-rng.choice([0, 0, 1, 2, 3, 5, 8]) * rng.random()) for _ in range(n)]
    return [1.0 / (1 << rng.randint(0, 4)) for _ in range(n)]   # pow2 (1.0 allowed: cost 0)


def probabilities(case, g):
    rng = random.Random(case["wseed"])
    out = {}
    for S, rs in g.rules.items():
        ps = pick_probs(rng, case["weights"], rs)
        out[S] = {P: p for P, p in zip(rs, ps)}
    return out


# --------------------------------------------------------------------------- oracle: language, integer cost, probability
def arg_nt(a):
    return (a[0], (a[1], None))


def expand(g, costs, probs, limit):
    """[(program tuple, integer cost, Fraction probability)] derivable from g.start (finite grammars)"""
    memo = {}

    def go(S):
        if S in memo:
            if memo[S] is None:
                raise RecursionError("cyclic rule table")
            return memo[S]
        memo[S] = None
        out = []
        for P, (args, _) in g.rules[S].items():
            subs = []
            for a in args:
                nS = arg_nt(a)
                if nS not in g.rules:
                    raise E.Dangling()
                subs.append(go(nS))
            n = 1
            for s in subs:
                n *= len(s)
            if n + len(out) > limit:
                raise E.TooLarge()
            c0, p0 = costs[S][P], Fraction(probs[S][P])
            for combo in itertools.product(*subs):
                c, p = c0, p0
                for _, cc, pp in combo:
                    c += cc
                    p *= pp
                out.append(((P, tuple(k for k, _, _ in combo)), c, p))
        memo[S] = out
        return out
    return go(g.start)


def cost_of(g, costs, t, S):
    """integer cost of program t from S by walking its derivation (None when not derivable)"""
    P, kids = t
    if S not in g.rules or P not in g.rules[S]:
        return None
    args, _ = g.rules[S][P]
    if len(args) != len(kids):
        return None
    c = costs[S][P]
    for a, k in zip(args, kids):
        q = cost_of(g, costs, k, arg_nt(a))
        if q is None:
            return None
        c += q
    return c


def below(g, costs, S, bound, limit):
    """all programs from S of integer cost <= bound (recursive grammars; every cycle of the grammar must
    go through a positive cost, which the caller checks by the limit); raises E.TooLarge"""
    count = [0]
    mins = min_costs(g, costs)

    def go(S, bound):
        res = []
        for P, (args, _) in g.rules[S].items():
            c0 = costs[S][P]
            rest = sum(mins[arg_nt(a)] for a in args)
            if c0 + rest > bound:
                continue
            partial = [((), c0)]
            for j, a in enumerate(args):
                nS = arg_nt(a)
                later = sum(mins[arg_nt(x)] for x in args[j + 1:])
                nxt = []
                for kids, cc in partial:
                    for sub, c2 in go(nS, bound - cc - later):
                        nxt.append((kids + (sub,), cc + c2))
                        count[0] += 1
                        if count[0] > limit:
                            raise E.TooLarge()
                partial = nxt
            for kids, cc in partial:
                res.append(((P, kids), cc))
        return res
    return go(S, bound)


def min_costs(g, costs):
    INF = float("inf")
    m = {S: INF for S in g.rules}
    changed = True
    while changed:
        changed = False
        for S, rs in g.rules.items():
            for P, (args, _) in rs.items():
                v = costs[S][P] + sum(m.get(arg_nt(a), INF) for a in args)
                if v < m[S]:
                    m[S] = v
                    changed = True
    return m


def zero_cycle(g, costs):
    """some cycle of the rule graph goes through rules of cost 0 only (the set of programs below a cost
    bound may then be infinite)"""
    succ = {S: {arg_nt(a) for P, (args, _) in rs.items() if costs[S][P] == 0 for a in args} for S, rs in g.rules.items()}
    for S0 in g.rules:
        seen, todo = set(), list(succ[S0])
        while todo:
            x = todo.pop()
            if x == S0:
                return True
            if x in seen or x not in succ:
                continue
            seen.add(x)
            todo.extend(succ[x])
    return False


def recursive(g):
    succ = {S: {arg_nt(a) for args, _ in rs.values() for a in args} for S, rs in g.rules.items()}
    for S0 in g.rules:
        seen, todo = set(), list(succ[S0])
        while todo:
            x = todo.pop()
            if x == S0:
                return True
            if x in seen or x not in succ:
                continue
            seen.add(x)
            todo.extend(succ[x])
    return False


# --------------------------------------------------------------------------- wire
def fbits(x):
    return struct.unpack(">Q", struct.pack(">d", float(x)))[0]


class Wire:
    def __init__(self, g):
        self.sym = E.Ids()
        self.ty = E.Ids()
        self.nt = {S: i for i, S in enumerate(g.rules)}
        self.nts = list(g.rules)

    def prog(self, t):
        return [self.sym(t[0])] + [self.prog(k) for k in t[1]]

    def unprog(self, w):
        return (self.sym.rev[int(w[0])], tuple(self.unprog(k) for k in w[1:]))

    def gram(self, g, costs):
        entries = []
        for S, rs in g.rules.items():
            entries.append([self.nt[S], self.ty(S[0]),
                            [[self.sym(P), [self.nt[arg_nt(a)] for a in args], int(costs[S][P])] for P, (args, _) in rs.items()]])
        return [self.nt[g.start], entries]


def dump_cell(c):
    n, v = c[0], c[1]
    if v is None:
        return ["cell", int(n), "none"] if n != 0 else 0
    if isinstance(v, list):
        return [int(n), [dump_cell(x) for x in v]]
    return [int(n), fbits(v.cost), [list(map(int, cb)) for cb in v.combinations]] if n == 1 else ["cell", int(n), "ct"]


def dump_queue(q):
    return [fbits(q.maxi), int(q.k), "none" if q.mini is None else fbits(q.mini), int(q.translation), int(q.nelements), int(q.n),
            "none" if q.start is None else fbits(q.start), [dump_cell(c) for c in q.cells]]


def norm(x):
    """parsed driver answer -> comparable nested lists of ints / strings"""
    if isinstance(x, list):
        return [norm(y) for y in x]
    s = str(x)
    if s.lstrip("-").isdigit():
        return int(s)
    return s


def dump_impl(en, g, wire):
    """the tables of the CDSearch object in the shape of the driver's report"""
    nt = wire.nt
    argk = lambda a: [nt[x] for x in a]
    ids = {}
    for S, b in en._bank_nt.items():
        for ci, l in b.items():
            ids[id(l)] = [nt[S], int(ci)]
    show = lambda p: wire.prog(E.of_prog(p))
    return [
        [[nt[S], [[fbits(d.cost), int(d.combination), wire.sym(d.P)] for d in h]] for S, h in en._queue_nt.items()],
        [[nt[S], [fbits(c) for c in l]] for S, l in en._cost_lists_nt.items()],
        [[nt[S], [[int(ci), [show(p) for p in l]] for ci, l in b.items()]] for S, b in en._bank_nt.items()],
        [[argk(a), dump_queue(q)] for a, q in en._queue_derivation.items()],
        [[argk(a), [fbits(c) for c in l]] for a, l in en._cost_lists_derivation.items()],
        [[argk(a), [[int(ci), [[ids.get(id(pool), "none") for pool in poss] for poss in l]] for ci, l in b.items()]] for a, b in en._bank_derivation.items()],
        [[nt[S], sorted(int(x) for x in l)] for S, l in en._empties_nt.items()],
        [[argk(a), sorted(int(x) for x in l)] for a, l in en._empties_derivation.items()],
        sorted(json.dumps(show(p)) for p in en._deleted),
    ]


def norm_model(ans, wire):
    """the Float report of cd.run in the same shape"""
    m = norm(ans)
    _, out, qnt, cnt, bnt, qder, cder, bder, ent, eder, deleted = m
    ent = [[S, sorted(l)] for S, l in ent]
    eder = [[a, sorted(l)] for a, l in eder]
    return out, [qnt, cnt, bnt, qder, cder, bder, ent, eder, sorted(json.dumps(p) for p in deleted)]


TABLES = ["heaps _queue_nt", "cost lists _cost_lists_nt", "banks _bank_nt", "derivation queues (CDQueue fields and cells)",
          "derivation cost lists", "derivation banks (aliased pools)", "_empties_nt", "_empties_derivation", "_deleted"]


# --------------------------------------------------------------------------- filters / scripts
def plan_of(case, n_lang):
    plan = []
    done = 0
    for pos, j in sorted(case.get("merges") or []):
        pos = min(pos, n_lang) if n_lang is not None else pos
        if pos > done:
            plan.append(("take", pos - done))
            done = pos
        plan.append(("merge", j))
    plan.append(("take", case.get("take") or 1000000))
    return plan


def run_script(en, plan, limit):
    it = en.generator()
    yielded, steps, script = [], [], []
    err = None
    try:
        for act in plan:
            if act[0] == "merge":
                if not yielded:
                    continue
                other = yielded[act[1] % len(yielded)]
                en.merge_program(yielded[0], other)
                script.append(("merge", E.of_prog(other), other.type))
                continue
            ys, fin = [], False
            script.append(("take", act[1]))
            for _ in range(act[1]):
                try:
                    p = next(it)
                except StopIteration:
                    fin = True
                    break
                ys.append(p)
                yielded.append(p)
                if len(yielded) > limit:
                    raise E.TooLarge()
            steps.append(([E.of_prog(p) for p in ys], fin))
    except E.TooLarge:
        err = "TooLarge"
    except RecursionError:
        err = "RecursionError"
    except Exception as e:  # noqa: the exception class is the observable
        err = type(e).__name__
    return steps, script, err


# --------------------------------------------------------------------------- one case
def impl_flags():
    """which of the proposed repairs the implementation under test contains (read from its source): the
    model has a switch for each (Env.fixM, Arith.mulFirst)"""
    import inspect
    from synth.syntax.grammars.enumeration.constant_delay import CDSearch
    from synth.syntax.grammars.enumeration.constant_delay_queue import CDQueue
    fix_m = "max(1, int(self.M))" in inspect.getsource(CDSearch.__init__)
    mul_first = "int(cost * self.k / maxi)" in inspect.getsource(CDQueue.__push__)
    return fix_m, mul_first


def run_case(case, M, tier="quick"):
    """_run_case, except that programs nested deeper than the recursion limit of the wire code
    (recursive grammars with a nearly free unary rule: f(f(f(...)))) make the case inconclusive"""
    try:
        return _run_case(case, M, tier)
    except RecursionError:
        return {"trivial": "programs-too-deep-for-the-wire"}


def _run_case(case, M, tier="quick"):
    from synth.syntax.grammars.tagged_det_grammar import ProbDetGrammar
    from synth.syntax.grammars.enumeration.constant_delay import enumerate_prob_grammar
    g = build(case)
    if g is None:
        return {"trivial": "empty-or-refused"}
    rec = case["family"] == "cd-rec"
    probs = probabilities(case, g)
    pcfg = ProbDetGrammar(g, {S: dict(ps) for S, ps in probs.items()})
    k, precision = case["k"], case["precision"]

    def fresh():
        return enumerate_prob_grammar(pcfg, k, precision)
    en = fresh()
    costs = {S: {P: int(c) for P, c in ps.items()} for S, ps in en.G.probabilities.items()}
    # the cost table against the statement's formula (trusted float expression, tolerance 1)
    table_bad = [(str(S), str(P), costs[S][P], -math.log(probs[S][P]) / precision) for S in costs for P in costs[S]
                 if abs(costs[S][P] - math.floor(-math.log(probs[S][P]) / precision + 1e-9)) > 1]
    limit = MAX_LANG[tier]
    lang = None
    if not rec:
        try:
            lang = expand(g, costs, probs, limit)
        except E.TooLarge:
            return {"trivial": "too-large"}
        except RecursionError:
            return {"trivial": "cyclic"}
        except E.Dangling:
            return {"trivial": "dangling-rule(grammar not clean)"}
    lang_sorted = sorted(E.show(p) for p, _, _ in lang) if lang is not None else []
    pred = E.make_filter(case.get("filter"), lang_sorted) if case.get("filter") else None
    if pred is not None:
        en.filter = E.HFilter(pred)
    plan = plan_of(case, len(lang) if lang is not None else None)
    steps, script, err = run_script(en, plan, (4 * limit + 10) if not rec else 100000)
    wire = Wire(g)
    gw = wire.gram(g, costs)
    ys = [p for st in steps for p in st[0]]
    if pred is None:
        rejected = []
    elif lang is not None:
        # every (sub)program the filter can be asked about: sub-terms of the language
        cand = {}
        for p, _, _ in lang:
            for s in E.subterms(p):
                cand[E.show(s)] = s
        rejected = [s for s in cand.values() if not pred(s)]
    else:
        rejected = []
    scriptw = [[Sym("take"), a[1]] if a[0] == "take" else [Sym("merge"), wire.prog(a[1]), wire.ty(a[2])] for a in script]
    fix_m, mul_first = impl_flags()
    ans = M.ask([Sym("cd.run"), gw, k, [wire.prog(p) for p in rejected], scriptw, FUEL, fix_m, mul_first])
    rf, rr, na = ans
    corr = []
    out = {"g": g, "costs": costs, "probs": probs, "lang": lang, "steps": steps, "script": script, "err": err, "pred": pred,
           "en": en, "wire": wire, "corr": corr, "rejected": rejected, "fresh": fresh, "rec": rec, "table_bad": table_bad,
           "float_exact": None, "ys": ys, "assert_only": rf[0] == "undef" and str(na) == "ok", "fix_m": fix_m, "M": [(q.maxi, q.k) for q in en._queue_derivation.values()]}
    if rf[0] == "undef":
        if err is None:
            corr.append(("model undefined (fuel or uncaught exception) where the implementation runs", ""))
        return out
    if err is not None:
        corr.append(("implementation raises where the model runs", err))
        return out
    msteps, mtables = norm_model(rf, wire)
    i_steps = [[[wire.prog(p) for p in st[0]], 1 if st[1] else 0] for st in steps]
    if msteps != i_steps:
        fi = [E.show(p) for st in steps for p in st[0]]
        fm = [E.show(wire.unprog(p)) for st in msteps for p in st[0]]
        d = next((j for j, (a, c) in enumerate(zip(fi, fm)) if a != c), None)
        corr.append(("yielded sequence differs from the model",
                     f"first difference at position {d}: impl {fi[d:d+3] if d is not None else len(fi)} model {fm[d:d+3] if d is not None else len(fm)}"))
    itables = dump_impl(en, g, wire)
    for name, a, c in zip(TABLES, itables, mtables):
        if a != c:
            j = next((j for j, (x, y) in enumerate(zip(a, c)) if x != y), None)
            corr.append((f"table differs from the model: {name}", f"entry {j}: impl {str(a[j])[:160] if j is not None else len(a)} model {str(c[j])[:160] if j is not None else len(c)}"))
    # exact-rational run of the same model: float rounding visible?
    if rr[0] == "ok":
        r_steps = norm(rr[1])
        out["float_exact"] = (r_steps == msteps)
        out["rat_steps"] = r_steps
    else:
        out["float_exact"] = False
        out["rat_steps"] = None
    return out


FINDING_IDS = {"C02": {"zerodiv": "C02-F4", "assert": "C02-F5"},
               "C03": {"float": "C03-F5", "zerodiv": "C03-F6", "assert": "C03-F7"},
               "C12": {"merge": "C12-F5", "filter": "C12-F6", "zerodiv": "C12-F7", "assert": "C12-F8"}}


def equal_costs(r):
    """decidable classifier of the ZeroDivisionError finding: all discretised rule costs are equal and
    some rule has arguments (then int(self.M) = 0 and the first push divides by maxi = 0)"""
    cs = {c for row in r["costs"].values() for c in row.values()}
    return len(cs) == 1 and any(args for rs in r["g"].rules.values() for args, _ in rs.values())


def raise_finding(r, pid):
    """decidable classifiers (functions of the case through the MODEL only) of the two findings that make
    the enumerator raise: all costs equal (ZeroDivisionError), and `the model is undefined with the
    assert of CDQueue.push and defined without it` (AssertionError: the bound M of __compute_bounds__ is
    smaller than the spread of a derivation queue)"""
    if equal_costs(r) and not r.get("fix_m"):
        return FINDING_IDS[pid]["zerodiv"]
    if r.get("assert_only"):
        return FINDING_IDS[pid]["assert"]
    return None


def flat(steps):
    return [p for ys, _ in steps for p in ys]


def base_tags(case, r):
    tags = ["grammar:" + ("infinite" if r["rec"] else "depth"), "weights:" + case["weights"], "order:" + case["order"], f"k:{case['k']}",
            f"precision:{case['precision']}"]
    big = any(m > 1001 for m, _ in r["M"])
    tags.append("queue:M>1000(user k)" if big else "queue:unit-width(M<=1000)")
    if r["lang"] is not None:
        n = len(r["lang"])
        tags.append("lang<10" if n < 10 else "lang<100" if n < 100 else "lang<1000" if n < 1000 else "lang>=1000")
    if r["float_exact"] is True:
        tags.append("float==rational")
    elif r["float_exact"] is False:
        tags.append("float!=rational(rounding visible)")
    return tags


def key_of(case):
    return json.dumps(case, sort_keys=True)


def sample_of(case, r):
    ys = [E.show(p) for p in r["ys"]]
    return {"grammar": case.get("build", {}).get("kind", "infinite"), "k": case["k"], "precision": case["precision"], "weights": case["weights"],
            "order": case["order"], "language_size": len(r["lang"]) if r["lang"] is not None else None, "yielded": len(ys), "first": ys[:5],
            "filter": case.get("filter"), "merges": case.get("merges"), "queues": r["M"][:3]}


def shrink_case(case):
    import copy
    if case["family"] == "cd-rec":
        for t in (5, 13, 50, 100):
            if t < case["take"]:
                c = copy.deepcopy(case)
                c["take"] = t
                yield c
        return
    for c in E.shrink_case(dict(case, enum={"kind": "heap", "threshold": "0"})):
        c.pop("enum", None)
        yield c
    for kk in (1, 5):
        if case["k"] != kk:
            c = copy.deepcopy(case)
            c["k"] = kk
            yield c
    if case["precision"] != 0.1:
        c = copy.deepcopy(case)
        c["precision"] = 0.1
        yield c
