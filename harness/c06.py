"""C06 — turning an automaton into a grammar preserves the language and is unambiguous.

A case is a reduced, acyclic deterministic bottom-up tree automaton over a typed alphabet of
derivable programs (primitives / variables), given concretely (rule table + final states, states
are nested Python values: types, ints, strings, tuples), a list of n-gram widths and a list of
extra programs.  It is built
  * by hand (random layered automata; the states are then re-shaped into plain `(type, x)`,
    1-tuples, pairs, class tuples, nested products), optionally pushed through the REAL
    `read_product` / `reduce` / `minimise`, or
  * by the real sharpening pipeline `add_dfta_constraints` on a small CFG with 0-2 constraints
    and an optional sketch (so that every state shape the library produces occurs).
For every case
  impl   : `UCFG.from_DFTA(dfta, clean=False)`, `UCFG.from_DFTA(dfta)` (with `clean()`),
           `UCFG.from_DFTA_with_ngrams(dfta, n)`; `program in g`,
           `len(g.reduce_derivations(...))`, `g.derive_all(...)`, `g.programs()`, `__d2state__`
  model  : lean/PS/Model/UcfgFromDfta.lean + Ucfg.lean through the driver (`c06.case`): the same
           tables, membership, numbers of derivations, `programs`, `clean`, `__d2state__` images,
           plus the Lean SPEC (`DFTA.accepts`) and the decidable hypotheses of the theorems
  oracle : this file's own bottom-up run of the automaton (`orun`), own count of accepted trees,
           own trimming / ranking (premise: reduced and acyclic) — no synth code.
Failures: oracle = the property fails on the implementation (a program accepted by the automaton
is not in the grammar or vice versa, not exactly one derivation, wrong programs()); corr = the
implementation and the model differ on a table / image / count.
"""
import json
import os

from harness.sexp import Sym

CASE_TIMEOUT = {"quick": 90, "thorough": 180}
FINDING = "C06-F1"
MAX_MEMBERS = 160
CLEAN_FUEL = 6000
NGRAM_FUEL = 30000


# ------------------------------------------------------------------ JSON <-> python <-> wire
def L(x):
    """JSON round trip: tuples -> lists"""
    return [L(y) for y in x] if isinstance(x, (list, tuple)) else x


def ty_repo(t):
    from harness import wire
    return wire.tt_repo(t)


def ty_json(t):
    from harness import wire
    return L(wire.repo_tt(t))


def sym_repo(s):
    from synth.syntax.program import Primitive, Variable
    if s[0] == "P":
        return Primitive(s[1], ty_repo(s[2]))
    return Variable(int(s[1]), ty_repo(s[2]))


def sym_json(p):
    from synth.syntax.program import Primitive
    if isinstance(p, Primitive):
        return ["P", p.primitive, ty_json(p.type)]
    return ["V", p.variable, ty_json(p.type)]


def val_py(v):
    """JSON state -> python value"""
    if isinstance(v, list):
        if v[0] == "T":
            return ty_repo(v[1])
        if v[0] == "s":
            return str(v[1])
        return tuple(val_py(x) for x in v[1:])
    return int(v)


def val_json(q):
    from synth.syntax.type_system import Type
    if isinstance(q, Type):
        return ["T", ty_json(q)]
    if isinstance(q, tuple):
        return ["t"] + [val_json(x) for x in q]
    if isinstance(q, str):
        return ["s", q]
    if isinstance(q, bool) or not isinstance(q, int):
        raise ValueError(f"state component not supported: {q!r}")
    return int(q)


def tyw(t):
    from harness import wire
    return wire.tt_wire(t)


def symw(s):
    return [Sym(s[0]), s[1], tyw(s[2])]


def valw(v):
    """JSON state -> wire"""
    if isinstance(v, list):
        if v[0] == "T":
            return [Sym("T"), tyw(v[1])]
        if v[0] == "s":
            return str(v[1])
        return [Sym("t")] + [valw(x) for x in v[1:]]
    return int(v)


def treew(t):
    return [Sym("A"), symw(t[0])] + [treew(k) for k in t[1]]


def tree_prog(t):
    from synth.syntax.program import Function
    h = sym_repo(t[0])
    if not t[1]:
        return h
    return Function(h, [tree_prog(k) for k in t[1]])


def tree_str(t):
    h = t[0][1] if t[0][0] == "P" else f"var{t[0][1]}"
    return str(h) if not t[1] else "(" + " ".join([str(h)] + [tree_str(k) for k in t[1]]) + ")"


def K(x):
    return json.dumps(x, sort_keys=True)


def norm(x):
    """what the driver's answer looks like after parsing: nested lists of str"""
    from harness import sexp
    return sexp.parse(sexp.dump(x))


# ------------------------------------------------------------------ independent oracle
class Oracle:
    """the automaton as plain tables keyed by canonical JSON text"""

    def __init__(self, rules, finals):
        self.table = {}
        self.rules = []
        for s, args, d in rules:
            key = (K(s), tuple(K(a) for a in args))
            self.table[key] = K(d)
            self.rules.append((s, [K(a) for a in args], K(d)))
        self.finals = set(K(q) for q in finals)
        self.memo = {}

    def run(self, t):
        k = K(t)
        r = self.memo.get(k, 0)
        if r != 0:
            return r
        qs = []
        out = None
        for kid in t[1]:
            q = self.run(kid)
            if q is None:
                break
            qs.append(q)
        else:
            out = self.table.get((K(t[0]), tuple(qs)))
        self.memo[k] = out
        return out

    def accepts(self, t):
        q = self.run(t)
        return q is not None and q in self.finals

    def reach(self):
        r = set()
        ch = True
        while ch:
            ch = False
            for s, args, d in self.rules:
                if d not in r and all(a in r for a in args):
                    r.add(d)
                    ch = True
        return r

    def useful(self):
        r = self.reach()
        u = set(q for q in self.finals if q in r)
        ch = True
        while ch:
            ch = False
            for s, args, d in self.rules:
                if d in u and all(a in r for a in args):
                    for a in args:
                        if a not in u:
                            u.add(a)
                            ch = True
        return r, u

    def reduced(self):
        r, u = self.useful()
        return all(d in u and all(a in r for a in args) for s, args, d in self.rules) and all(q in u for q in self.finals)

    def ranks(self):
        """longest-path rank of every state; None when there is a cycle"""
        states = set(d for _, _, d in self.rules) | set(a for _, args, _ in self.rules for a in args) | self.finals
        rank = {q: 0 for q in states}
        for it in range(len(states) + 2):
            ch = False
            for s, args, d in self.rules:
                v = 1 + max([rank[a] for a in args], default=0)
                if v > rank[d]:
                    rank[d] = v
                    ch = True
            if not ch:
                return rank
        return None

    def counts(self, rank):
        """number of trees read into each state (deterministic table: one run per tree)"""
        cnt = {q: 0 for q in rank}
        for q in sorted(rank, key=lambda x: rank[x]):
            n = 0
            for s, args, d in self.rules:
                if d == q:
                    p = 1
                    for a in args:
                        p *= cnt[a]
                    n += p
            cnt[q] = n
        return cnt


def enumerate_members(rules, finals, rank, cnt, rng, cap):
    """trees read into the final states: all of them when few, else a random sample"""
    by_dst = {}
    for s, args, d in rules:
        by_dst.setdefault(K(d), []).append((s, [K(a) for a in args]))
    fin = sorted(set(K(q) for q in finals))
    total = sum(cnt[q] for q in fin)
    from itertools import product
    if total <= cap:
        trees = {}

        def all_into(q):
            if q in trees:
                return trees[q]
            out = []
            for s, args in by_dst.get(q, []):
                for kids in product(*[all_into(a) for a in args]):
                    out.append([s, list(kids)])
            trees[q] = out
            return out
        res = []
        for q in fin:
            res += all_into(q)
        return res, total, True

    def sample(q):
        opts = by_dst[q]
        w = []
        for s, args in opts:
            p = 1
            for a in args:
                p *= cnt[a]
            w.append(p)
        s, args = rng.choices(opts, weights=w)[0]
        return [s, [sample(a) for a in args]]
    res = {}
    wf = [cnt[q] for q in fin]
    for _ in range(cap * 3):
        t = sample(rng.choices(fin, weights=wf)[0])
        res[K(t)] = t
        if len(res) >= cap:
            break
    return list(res.values()), total, False


def subtrees(t, acc):
    acc.append(t)
    for k in t[1]:
        subtrees(k, acc)


def replace_at(t, path, new):
    if not path:
        return new
    kids = list(t[1])
    kids[path[0]] = replace_at(kids[path[0]], path[1:], new)
    return [t[0], kids]


def paths(t, pre=()):
    yield pre
    for i, k in enumerate(t[1]):
        yield from paths(k, pre + (i,))


def neighbours(rng, members, alphabet, n):
    pool = []
    for t in members[:60]:
        subtrees(t, pool)
    out = {}
    if not members:
        return []
    for _ in range(n * 3):
        t = rng.choice(members)
        ps = list(paths(t))
        p = rng.choice(ps)
        kind = rng.randrange(5)
        sub = t
        for i in p:
            sub = sub[1][i]
        if kind == 0 and pool:
            new = replace_at(t, p, rng.choice(pool))
        elif kind == 1 and len(sub[1]) >= 2:
            ks = list(sub[1])
            i, j = rng.sample(range(len(ks)), 2)
            ks[i], ks[j] = ks[j], ks[i]
            new = replace_at(t, p, [sub[0], ks])
        elif kind == 2:
            ks = list(sub[1])
            if ks and rng.random() < 0.5:
                ks.pop()
            elif pool:
                ks.append(rng.choice(pool))
            new = replace_at(t, p, [sub[0], ks])
        elif kind == 3:
            new = replace_at(t, p, [rng.choice(alphabet), list(sub[1])])
        else:
            new = replace_at(t, p, rng.choice(members)) if p else rng.choice(pool)
        if sum(1 for _ in paths(new)) <= 60:
            out[K(new)] = new
        if len(out) >= n:
            break
    return list(out.values())


# ------------------------------------------------------------------ generation: hand-built automata
TYPES = ["int", "bool", ["list", "int"]]


def arrow(args, r):
    for a in reversed(args):
        r = ["->", a, r]
    return r


def gen_hand(rng, big):
    """a layered (hence acyclic) deterministic automaton over a typed alphabet, then trimmed"""
    ntypes = rng.choice([1, 1, 2, 2, 3])
    types = TYPES[:ntypes]
    alphabet = []
    names = iter("abcdefghijklmnop")
    for t in types:
        for _ in range(rng.choice([1, 2, 2, 3])):
            alphabet.append(["P", next(names), t])
    if rng.random() < 0.4:
        alphabet.append(["V", 0, types[0]])
    if rng.random() < 0.15 and ntypes > 1:
        alphabet.append(["V", 1, types[1]])
    nfun = rng.randint(2, 5)
    for _ in range(nfun):
        ar = rng.choice([1, 1, 2, 2, 2, 3])
        args = [rng.choice(types) for _ in range(ar)]
        alphabet.append(["P", next(names), arrow(args, rng.choice(types))])
    nlev = rng.randint(2, 4)
    states = []            # (type, level, id)
    for lev in range(nlev):
        for t in types:
            for _ in range(rng.choice([1, 2, 2, 3] if lev else [1, 2])):
                states.append((K(t), lev, len(states)))
    rules = {}
    from itertools import product
    for s in alphabet:
        args_t, ret = [], s[2]
        while isinstance(ret, list) and ret[0] == "->":
            args_t.append(ret[1])
            ret = ret[2]
        if not args_t:
            cands = [q for q in states if q[0] == K(ret) and q[1] == 0]
            if cands:
                rules[(K(s), ())] = (s, [], rng.choice(cands))
            continue
        pools = [[q for q in states if q[0] == K(a)] for a in args_t]
        keys = list(product(*pools))
        rng.shuffle(keys)
        dens = rng.uniform(0.4, 1.0) if len(args_t) < 3 else rng.uniform(0.1, 0.4)
        for key in keys[: 60 if big else 40]:
            if rng.random() > dens:
                continue
            lev = max(q[1] for q in key) + 1
            cands = [q for q in states if q[0] == K(ret) and q[1] >= lev]
            if cands:
                rules[(K(s), tuple(q[2] for q in key))] = (s, list(key), rng.choice(cands))
    top = [q for q in states if any(d == q for _, _, d in rules.values())]
    if not top:
        return None
    nfin = rng.choice([1, 1, 2, 2, 3, 4])
    pref = [q for q in top if q[0] == K(types[0])] or top
    finals = rng.sample(pref, min(nfin, len(pref))) if rng.random() < 0.8 else rng.sample(top, min(nfin, len(top)))

    def st(q):
        return ["t", ["T", json.loads(q[0])], q[2]]
    rl = [[s, [st(a) for a in args], st(d)] for s, args, d in rules.values()]
    rng.shuffle(rl)
    return trim(rl, [st(q) for q in finals]), alphabet


def trim(rules, finals):
    o = Oracle(rules, finals)
    r, u = o.useful()
    rl = [[s, args, d] for s, args, d in rules if K(d) in u and all(K(a) in r for a in args)]
    fin = []
    for q in finals:
        if K(q) in u and K(q) not in [K(x) for x in fin]:
            fin.append(q)
    return rl, fin


SHAPES = ["plain", "plain", "tuple-x", "str-x", "one", "cls2", "pair", "one-pair", "pair-cls", "nest3", "pipeline-like", "mixed"]


def reshape(rng, rules, finals, shape):
    """rename the states injectively into one of the shapes the library produces"""
    states = {}
    for s, args, d in rules:
        for q in args + [d]:
            states.setdefault(K(q), q)
    for q in finals:
        states.setdefault(K(q), q)
    ids = {k: i for i, k in enumerate(sorted(states))}

    def plain(q, x):
        return ["t", q[1], x]

    def mk(k, sh):
        q = states[k]
        i = ids[k]
        if sh == "plain":
            return q
        if sh == "tuple-x":
            return plain(q, ["t", i // 2, i % 2])
        if sh == "str-x":
            return plain(q, ["s", "q%d" % i])
        if sh == "one":
            return ["t", q]
        if sh == "cls2":
            return ["t", q, plain(q, 100 + i)]
        if sh == "pair":
            return ["t", q, plain(q, i % 2)]
        if sh == "one-pair":
            return ["t", ["t", q, plain(q, 7)]]
        if sh == "pair-cls":
            return ["t", ["t", q], ["t", plain(q, 0), plain(q, 1)]]
        if sh == "nest3":
            return ["t", ["t", ["t", ["t", q], ["t", plain(q, 0)]]], ["t", plain(q, i % 3)]]
        if sh == "pipeline-like":   # ((( (cls, cls), ), cls),)
            return ["t", ["t", ["t", ["t", ["t", q], ["t", plain(q, ["t", 0, i % 2])]]], ["t", plain(q, 0)]]]
        raise ValueError(sh)

    def ren(k):
        if shape == "mixed":
            return mk(k, ["plain", "one", "cls2", "pair"][ids[k] % 4])
        return mk(k, shape)
    m = {k: ren(k) for k in states}
    if len(set(K(v) for v in m.values())) != len(m):
        raise RuntimeError("reshape is not injective")
    return [[s, [m[K(a)] for a in args], m[K(d)]] for s, args, d in rules], [m[K(q)] for q in finals]


def to_dfta(rules, finals):
    from synth.syntax.automata.tree_automaton import DFTA
    return DFTA({(sym_repo(s), tuple(val_py(a) for a in args)): val_py(d) for s, args, d in rules},
                set(val_py(q) for q in finals))


def from_dfta(d):
    rules = [[sym_json(P), [val_json(a) for a in args], val_json(dst)] for (P, args), dst in d.rules.items()]
    finals = sorted((val_json(q) for q in d.finals), key=K)
    return rules, finals


def alphabet_of(rules):
    seen = {}
    for s, _, _ in rules:
        seen.setdefault(K(s), s)
    return list(seen.values())


# ------------------------------------------------------------------ generation: the real pipeline
PIPE = [
    ({"+": "int -> int -> int", "-": "int -> int -> int", "1": "int", "0": "int", "neg": "int -> int"},
     ["int", "int -> int"],
     ["(+ 1 _)", "(+ ^+ _)", "(- _ ^0)", "(neg ^neg)", "(+ _ ^1,0)", "(- #(1)<=1 _)", "(- _ #(1)>=1)", "(+ >^neg _)",
      "(neg >0)", "(+ (- _ 1) _)", "(- ^- ^-)", "(+ ^- _)", "(neg ^+,-)", "(+ _ (neg _))", "(- (+ 1 _) _)"],
     ["(+ _ _)", "(- 1 _)", "(+ #(1)<=2 _)", "(neg _)"], ["(neg ^var0)", "(+ var0 _)", "(- _ ^var0)"]),
    ({"and": "bool -> bool -> bool", "not": "bool -> bool", "lt": "int -> int -> bool", "1": "int", "0": "int",
      "true": "bool", "ite": "bool -> int -> int -> int"},
     ["bool", "int", "int -> bool"],
     ["(and ^and _)", "(not ^not)", "(lt _ ^0)", "(ite ^true _ _)", "(and _ ^true)", "(lt ^1 _)", "(not ^true)",
      "(ite _ ^ite ^ite)", "(and (not _) _)", "(lt #(1)<=1 _)", "(and >lt _)"],
     ["(and _ _)", "(not _)", "(lt 1 _)", "(ite _ 1 _)"], ["(lt ^var0 _)", "(lt var0 _)"]),
]


def gen_pipeline(rng, big):
    from synth.syntax.dsl import DSL
    from synth.syntax.grammars.cfg import CFG
    from synth.syntax.type_helper import auto_type
    from synth.filter.constraints.dfta_constraints import add_dfta_constraints
    syntax, treqs, pool, sketches, varpool = rng.choice(PIPE)
    treq = rng.choice(treqs)
    if "->" in treq:
        pool = pool + varpool
    k = rng.choice([0, 1, 1, 2, 2, 2, 3])
    cs = rng.sample(pool, k)
    sk = rng.choice(sketches) if rng.random() < 0.35 else None
    depth = rng.choice([2, 3, 3]) if not big else rng.choice([2, 3, 3, 3])
    if ("ite" in syntax and depth == 3 and not big) or (k >= 3 and not big):
        depth = 2
    dsl = DSL(auto_type(dict(syntax)))
    cfg = CFG.depth_constraint(dsl, auto_type(treq), depth)
    d = add_dfta_constraints(cfg, cs, sk, progress=False)
    if not d.finals or len(d.rules) > (900 if big else 450):
        return None
    rules, finals = from_dfta(d)
    return rules, finals, [f"pipeline.c{k}" + ("+sketch" if sk else ""), f"pipeline.depth{depth}"]


def gen_realops(rng, big):
    """hand-built automata pushed through the real read_product / reduce / minimise"""
    best = None
    want_big = rng.random() < 0.7
    for _ in range(10):
        g = gen_hand(rng, False)
        if g is None or not g[0][0]:
            continue
        (rules, finals), alphabet = g
        A = to_dfta(rules, finals)
        op = rng.choice(["minimise", "product", "product-minimise", "product-minimise"])
        if op != "minimise":
            # a second automaton over the same table with other final states
            dsts = []
            for s, args, d in rules:
                if K(d) not in [K(x) for x in dsts]:
                    dsts.append(d)
            fin2 = rng.sample(dsts, min(len(dsts), rng.randint(1, 3)))
            r2, f2 = trim(rules, fin2)
            if not r2:
                continue
            r2, f2 = reshape(rng, r2, f2, rng.choice(["plain", "tuple-x"]))
            B = to_dfta(r2, f2)
            A = A.read_product(B)
            A.reduce()
            if not A.finals or not A.rules:
                continue
        if op != "product":
            A = A.minimise()
        rules, finals = from_dfta(A)
        if rules and finals:
            o = Oracle(rules, finals)
            cn = o.counts(o.ranks())
            n = sum(cn[q] for q in set(K(q) for q in finals))
            if n > 20000:
                continue
            if best is None or n > best[0]:
                best = (n, (rules, finals, ["realops." + op]))
            if n >= 10 or not want_big:
                break
    return best[1] if best else None


class GenTimeout(Exception):
    pass


def _gen_alarm(signum, frame):
    raise GenTimeout()


def gen(rng, i, tier):
    import signal
    big = tier == "thorough"
    r = rng.random()
    got = None
    tags = []
    old = signal.signal(signal.SIGALRM, _gen_alarm)
    signal.alarm(20 if big else 8)         # the real pipeline can take minutes on some constraint sets
    try:
        if r < 0.40:
            got = gen_pipeline(rng, big)
        elif r < 0.55:
            got = gen_realops(rng, big)
    except BaseException as e:  # a generator that fails falls back to the hand-built stream
        if isinstance(e, KeyboardInterrupt):
            raise
        tags.append("gen-exc." + type(e).__name__)
        got = None
    finally:
        signal.alarm(0)
        signal.signal(signal.SIGALRM, old)
    if got is not None:
        rules, finals, t2 = got
        tags += t2
    else:
        want_big = rng.random() < 0.75      # mostly languages of at least 10 programs
        best, best_n = None, -1
        for _ in range(20):
            g = gen_hand(rng, big)
            if g is None or not g[0][0] or not g[0][1]:
                continue
            o = Oracle(g[0][0], g[0][1])
            rk = o.ranks()
            cn = o.counts(rk)
            n = sum(cn[q] for q in set(K(q) for q in g[0][1]))
            if n > 20000:
                continue
            if n > best_n:
                best, best_n = g, n
            if not want_big or n >= 10:
                best = g
                break
        g = best
        if g is None:
            g = (([[["P", "a", "int"], [], ["t", ["T", "int"], 0]]], [["t", ["T", "int"], 0]]), None)
        (rules, finals), _ = g
        shape = rng.choice(SHAPES)
        rules, finals = reshape(rng, rules, finals, shape)
        tags.append("hand." + shape)
    widths = rng.sample([0, 1, 2, 2, 3, 9], rng.choice([1, 1, 2]))
    if rng.random() < 0.1:
        widths.append(-1)
    return {"rules": rules, "finals": finals, "ngrams": sorted(set(widths)), "tseed": rng.randrange(10 ** 9),
            "gen": tags}


def shrink(case):
    if len(case["ngrams"]) > 0:
        c = dict(case)
        c["ngrams"] = []
        yield c
    for j in range(len(case["finals"])):
        if len(case["finals"]) > 1:
            c = dict(case)
            r, f = trim(case["rules"], case["finals"][:j] + case["finals"][j + 1:])
            if r and f:
                c["rules"], c["finals"] = r, f
                yield c
    n = len(case["rules"])
    step = max(1, n // 12)
    for j in range(0, n, step):
        c = dict(case)
        r, f = trim(case["rules"][:j] + case["rules"][j + step:], case["finals"])
        if r and f and len(r) < n:
            c["rules"], c["finals"] = r, f
            yield c


# ------------------------------------------------------------------ check
_NONCE = [0]
_FIXED = [None]
_LISTED = [None]


def ask(M, req):
    _NONCE[0] += 1
    n = str(_NONCE[0])
    ans = M.ask(req + [int(n)])
    for _ in range(4):
        if isinstance(ans, list) and ans and ans[-1] == n:
            return ans
        ans = M.sexp.parse(M.p.stdout.readline().rstrip("\n"))
    raise RuntimeError("model driver out of step with the harness")


def repo_is_fixed():
    """which `__d2state__` does the tree under test have?  probed on the witness of C06-F1:
    as it is   -> (int, ((int, 0), 0))      repaired -> (int, ((1, 0), 0))"""
    if _FIXED[0] is None:
        from synth.syntax.grammars.u_cfg import __d2state__
        from synth.syntax.type_system import INT
        q = ((((INT, 1), (INT, 0)),), (INT, 0))
        try:
            _FIXED[0] = __d2state__(q) == (INT, ((1, 0), 0))
        except Exception:
            _FIXED[0] = False
    return _FIXED[0]


def finding_listed():
    """is C06-F1 an OPEN entry of known_findings.json?  (until the integrator lists it, inputs in
    its region are only tagged: a `finding` that run.py does not know would be a VIOLATION)"""
    if _LISTED[0] is None:
        p = os.path.join(os.path.dirname(os.path.dirname(os.path.abspath(__file__))), "known_findings.json")
        try:
            ks = json.load(open(p))["findings"]
            st = [k.get("status") for k in ks if k.get("id") == FINDING]
            _LISTED[0] = st[0] if st else "unlisted"
        except Exception:
            _LISTED[0] = "unlisted"
    return _LISTED[0]


def enc_nt_plain(nt):
    from harness import wire
    return [wire.ty_wire(nt[0]), valw(val_json(nt[1]))]


def enc_nt_ngram(nt):
    from harness import wire
    return [wire.ty_wire(nt[0]), wire.ctx_wire(nt[1][0]), valw(val_json(nt[1][1]))]


def enc_table(g, enc):
    from harness import wire
    return [[enc(S), [[wire.sym_wire(P), [[enc(a) for a in alt] for alt in alts]] for P, alts in row.items()]]
            for S, row in g.rules.items()]


def nder(g, p):
    return len(g.reduce_derivations(lambda v, S, P, a: v, 0, p))


def nder_all(g, p):
    return sum(len(g.derive_all(g.start_information(), S, p)) for S in g.starts)


def grammar_cyclic(g):
    """does a non-terminal of the grammar reach itself?  (then clean() and programs() do not
    return: only possible when __d2state__ merged states of an acyclic automaton)"""
    succ = {S: set(a for alts in row.values() for alt in alts for a in alt) for S, row in g.rules.items()}
    state = {}
    for root in succ:
        if root in state:
            continue
        stack = [(root, iter(succ.get(root, ())))]
        state[root] = 1
        while stack:
            node, it = stack[-1]
            for nx in it:
                if state.get(nx) == 1:
                    return True
                if nx not in state:
                    state[nx] = 1
                    stack.append((nx, iter(succ.get(nx, ()))))
                    break
            else:
                state[node] = 2
                stack.pop()
    return False


def first_diff(a, b):
    for j, (x, y) in enumerate(zip(a, b)):
        if x != y:
            return j
    return min(len(a), len(b))


def _passthrough(e):
    """the per-case time limit of run.py is an exception raised by a signal handler: never swallow it"""
    if type(e).__name__ in ("CaseTimeout", "GenTimeout", "TimeoutError", "KeyboardInterrupt"):
        raise e


def check(case, M):
    import random
    from synth.syntax.grammars.u_cfg import UCFG, __d2state__
    rules = L(case["rules"])
    finals = L(case["finals"])
    widths = [int(n) for n in case.get("ngrams", [])]
    rng = random.Random(case.get("tseed", 0))
    tags = list(case.get("gen", []))
    failures = []
    fixed = repo_is_fixed()
    tags.append("d2state.repaired" if fixed else "d2state.as-is")

    # ---- own oracle: premise, members, count
    O = Oracle(rules, finals)
    rank = O.ranks()
    acyclic = rank is not None
    reduced = O.reduced()
    premise = acyclic and reduced and bool(finals)
    if not premise:
        tags.append("premise-false")
    alphabet = alphabet_of(rules)
    members, total = [], None
    if acyclic:
        cnt = O.counts(rank)
        members, total, complete = enumerate_members(rules, finals, rank, cnt, rng, MAX_MEMBERS)
        tags.append("members.all" if complete else "members.sampled")
    nb = neighbours(rng, members, alphabet, 70) if members else []
    leaves = [[s, []] for s in alphabet]
    trees = []
    seen = set()
    for t in members + nb + leaves + L(case.get("trees", [])):
        if K(t) not in seen:
            seen.add(K(t))
            trees.append(t)
    depth = max(rank.values()) if acyclic and rank else 0

    # ---- implementation
    dfta = to_dfta(rules, finals)
    sts = {}
    for s, args, d in rules:
        for q in args + [d]:
            sts.setdefault(K(q), q)
    for q in finals:
        sts.setdefault(K(q), q)
    impl_d2 = {}
    for k, q in sts.items():
        try:
            nt = __d2state__(val_py(q))
            impl_d2[k] = norm(enc_nt_plain(nt))
        except Exception as e:
            _passthrough(e)
            impl_d2[k] = "none"
    if len(set(K(v) for v in impl_d2.values())) < len(impl_d2):
        # states merged (finding C06-F1): the grammar can be wildly ambiguous, and enumerating all
        # derivations of a large program takes exponential time: keep the small programs
        small = [t for t in trees if sum(1 for _ in paths(t)) <= 7]
        trees = [t for t in small if O.accepts(t)][:40] + [t for t in small if not O.accepts(t)][:40]
        tags.append("impl.d2state-merges")
    obits = [O.accepts(t) for t in trees]
    progs = [tree_prog(t) for t in trees]
    jobs = [("plain", None)] + [("ngram", n) for n in widths]
    impl = []
    for kind, n in list(jobs):
        if kind == "ngram" and impl and impl[0].get("cyclic") and not 0 <= n <= 3:
            # __d2state__ merged states into a cyclic grammar: unbounded / long contexts never end
            jobs.remove((kind, n))
            tags.append("ngram.skipped-cyclic")
            continue
        try:
            g = UCFG.from_DFTA(dfta, clean=False) if kind == "plain" else UCFG.from_DFTA_with_ngrams(dfta, n)
        except Exception as e:
            _passthrough(e)
            impl.append({"exc": type(e).__name__})
            continue
        enc = enc_nt_plain if kind == "plain" else enc_nt_ngram
        order = [K(norm(enc(s))) for s in g.starts]           # iteration order of the set `starts`
        rec = {"g": g, "enc": enc, "order": order, "starts": sorted(order), "table": norm(enc_table(g, enc))}
        try:
            rec["in"] = [p in g for p in progs]
            rec["nd"] = [nder(g, p) for p in progs]
            rec["nda"] = [nder_all(g, p) if ob else None for p, ob in zip(progs, obits)]
        except Exception as e:
            _passthrough(e)
            rec["exc2"] = type(e).__name__ + ": " + str(e)[:100]
        rec["cyclic"] = grammar_cyclic(g)
        try:
            rec["programs"] = g.programs()
        except RecursionError:
            rec["programs"] = None              # the model: out of fuel
        except Exception as e:
            _passthrough(e)
            rec["exc2"] = type(e).__name__ + ": " + str(e)[:100]
        if kind == "plain" and not rec["cyclic"]:
            try:
                gc = UCFG.from_DFTA(dfta)                          # clean=True, the default
                rec["clean"] = {"table": norm(enc_table(gc, enc)), "starts": sorted(K(norm(enc(s))) for s in gc.starts),
                                "in": [p in gc for p in progs], "programs": gc.programs()}
            except Exception as e:
                _passthrough(e)
                rec["clean"] = {"exc": type(e).__name__}
        impl.append(rec)

    # ---- model + Lean spec
    def fin_order(rec, kind, n):
        """final states ordered so that their non-terminals come in the set's iteration order"""
        if rec is None or "order" not in rec:
            return finals
        from synth.syntax.grammars.grammar import NGram
        pos = {k: j for j, k in enumerate(rec["order"])}

        def key(q):
            nt = __d2state__(val_py(q))
            if kind == "ngram":
                nt = (nt[0], (NGram(n), nt[1]))
            return pos.get(K(norm(rec["enc"](nt))), 10 ** 6)
        return sorted(finals, key=key)
    wjobs = []
    for (kind, n), rec in zip(jobs, impl):
        fo = [valw(q) for q in fin_order(rec if "g" in rec else None, kind, n)]
        wjobs.append([Sym("plain"), fo] if kind == "plain" else [Sym("ngram"), n, NGRAM_FUEL, fo])
    wrules = [[[symw(s), [valw(a) for a in args]], valw(d)] for s, args, d in rules]
    cyc = any(rec.get("cyclic") for rec in impl)
    if cyc:
        tags.append("grammar-cyclic")
    ans = ask(M, [Sym("c06.case"), bool(fixed), wrules, wjobs, [treew(t) for t in trees], 0 if cyc else CLEAN_FUEL])
    _, hyp, md2, mjobs, sbits, _nonce = ans
    h_det, h_def, h_inj, h_acyc = [x == "1" for x in hyp]
    spec_bits = [c == "1" for c in str(sbits)]
    if spec_bits != obits:
        raise RuntimeError("Lean spec (DFTA.accepts) and the harness' own run disagree")
    if h_acyc != acyclic:
        raise RuntimeError("Lean acyclicB and the harness' own ranking disagree")
    if not h_det:
        raise RuntimeError("the rule table sent has duplicate keys")
    in_region = not (h_def and h_inj)          # hypothesis of the `_partial` theorems fails: finding C06-F1
    if in_region:
        tags.append("hyp.d2state-merges" if h_def else "hyp.d2state-undefined")
    else:
        tags.append("hyp.holds")

    def fail(kind, what, detail):
        f = {"kind": kind, "what": what, "detail": detail}
        if kind == "oracle" and in_region and not fixed:
            st = finding_listed()
            if st == "open":
                f["finding"] = FINDING
            elif st == "unlisted":
                tags.append("pending-finding." + FINDING)
                return                      # proposed_findings/C06.json: not yet listed by the integrator
        failures.append(f)

    # ---- correspondence: __d2state__
    model_d2 = {K(x[0]): x[1] for x in md2}
    for k, q in sts.items():
        mk = model_d2.get(K(norm(valw(q))))
        if mk != impl_d2[k]:
            fail("corr", "__d2state__ differs from the model", f"state {q}: impl {impl_d2[k]} model {mk}")
            break

    for (kind, n), rec, mj in zip(jobs, impl, mjobs):
        name = "from_DFTA" if kind == "plain" else f"from_DFTA_with_ngrams[{n}]"
        if "g" not in rec:
            if mj[0] != "none":
                fail("oracle" if premise else "corr", f"{name} raised", f"{rec['exc']}; the model returns a grammar")
            else:
                tags.append("raises-as-model")
            continue
        if mj[0] == "none":
            fail("corr", f"{name}: the model returns no grammar", "fuel exhausted or __d2state__ undefined")
            continue
        mg, mcont, mnd, mprog = mj[1], mj[2], mj[3], mj[4]
        m_in = [c == "1" for c in str(mcont)]
        m_nd = [int(x) for x in mnd]
        m_prog = None if mprog == "none" else int(mprog)
        # theorems (hypotheses evaluated by the driver): model = spec
        if not in_region:
            if m_in != spec_bits:
                raise RuntimeError(f"{name}: Lean model membership differs from the spec (contradicts theorem C06_lang)")
            if m_nd != [1 if b else 0 for b in spec_bits]:
                raise RuntimeError(f"{name}: Lean model derivation counts differ from the spec (contradicts C06_unambiguous)")
            if acyclic and reduced and total is not None and m_prog != total:
                raise RuntimeError(f"{name}: Lean model programs() = {m_prog}, accepted trees = {total} (contradicts C06_count)")
        if "exc2" in rec:
            fail("oracle", f"{name}: membership / derivations / programs raised", rec["exc2"])
            continue
        # ---- oracle: the property on the implementation
        if premise:
            if rec["in"] != obits:
                j = first_diff(rec["in"], obits)
                fail("oracle", f"{name}: grammar membership differs from the automaton",
                     f"program {tree_str(trees[j])}: in grammar = {rec['in'][j]}, accepted by the automaton = {obits[j]}")
            want = [1 if b else 0 for b in obits]
            if rec["nd"] != want:
                j = first_diff(rec["nd"], want)
                fail("oracle", f"{name}: not exactly one derivation per accepted program",
                     f"program {tree_str(trees[j])}: {rec['nd'][j]} derivations (reduce_derivations), accepted = {obits[j]}")
            bad = [j for j, x in enumerate(rec["nda"]) if x is not None and x != 1]
            if bad:
                fail("oracle", f"{name}: derive_all does not find exactly one derivation of an accepted program",
                     f"program {tree_str(trees[bad[0]])}: {rec['nda'][bad[0]]} derivations")
            if rec["programs"] != total:
                fail("oracle", f"{name}: programs() is not the number of accepted programs",
                     f"programs() = {rec['programs']}, the automaton accepts {total}")
        # ---- correspondence with the model
        mstarts = sorted(K(x) for x in mg[0])
        if rec["starts"] != mstarts:
            fail("corr", f"{name}: start symbols differ from the model", f"impl {rec['starts'][:3]} model {mstarts[:3]}")
        elif rec["table"] != mg[1]:
            it, mt = rec["table"], mg[1]
            if sorted(map(K, it)) == sorted(map(K, mt)):
                fail("corr", f"{name}: rule table in another order than the model", f"{len(it)} rows")
            else:
                j = first_diff(it, mt)
                fail("corr", f"{name}: rule table differs from the model",
                     f"row {j}: impl {K(it[j])[:300] if j < len(it) else None} model {K(mt[j])[:300] if j < len(mt) else None}")
        if rec["in"] != m_in:
            j = first_diff(rec["in"], m_in)
            fail("corr", f"{name}: membership differs from the model", f"program {tree_str(trees[j])}: impl {rec['in'][j]}")
        if rec["nd"] != m_nd:
            j = first_diff(rec["nd"], m_nd)
            fail("corr", f"{name}: number of derivations differs from the model",
                 f"program {tree_str(trees[j])}: impl {rec['nd'][j]} model {m_nd[j]}")
        if rec["programs"] != m_prog:
            fail("corr", f"{name}: programs() differs from the model", f"impl {rec['programs']} model {m_prog}")
        # ---- clean()
        if kind == "plain":
            mc = mj[5]
            ic = rec.get("clean")
            if ic is None:
                tags.append("clean.skipped-cyclic")
            elif "exc" in ic:
                if mc[0] != "none":
                    fail("oracle" if premise else "corr", "from_DFTA with clean() raised", ic["exc"])
            elif mc[0] == "none":
                tags.append("clean.model-out-of-fuel")
            else:
                if premise and ic["in"] != obits:
                    j = first_diff(ic["in"], obits)
                    fail("oracle", "clean() changes the language",
                         f"program {tree_str(trees[j])}: in cleaned grammar = {ic['in'][j]}, accepted = {obits[j]}")
                if premise and ic["programs"] != total:
                    fail("oracle", "programs() after clean() is not the number of accepted programs",
                         f"programs() = {ic['programs']}, the automaton accepts {total}")
                if ic["starts"] != sorted(K(x) for x in mc[1][0]):
                    fail("corr", "clean(): start symbols differ from the model", f"impl {ic['starts'][:3]}")
                if ic["table"] != mc[1][1]:
                    fail("corr", "clean(): rule table differs from the model", f"{len(ic['table'])} vs {len(mc[1][1])} rows")
                if ic["in"] != [c == "1" for c in str(mc[2])]:
                    fail("corr", "clean(): membership differs from the model", "")
                if ic["programs"] != (None if mc[3] == "none" else int(mc[3])):
                    fail("corr", "clean(): programs() differs from the model", f"impl {ic['programs']} model {mc[3]}")
                if len(ic["table"]) < len(rec["table"]):
                    tags.append("clean.removes")

    nstates = len(sts)
    n_rej = sum(1 for b in obits if not b)
    nontrivial = bool(premise and total is not None and total >= 3 and depth >= 2 and n_rej >= 1 and nstates >= 2)
    tags.append("states<%d" % (10 ** len(str(nstates))))
    tags.append("finals.%d" % min(len(finals), 4))
    tags.append("depth.%d" % min(depth, 6))
    tags.append("L<%d" % (10 ** len(str(total))) if total is not None else "L.cyclic")
    for n in widths:
        tags.append("ngram.%d" % n)
    key = K([rules, finals, widths])
    return {"key": key, "nontrivial": nontrivial, "tags": sorted(set(tags)), "failures": failures,
            "sample": {"rules": len(rules), "states": nstates, "finals": len(finals), "accepted": total, "depth": depth,
                       "ngrams": widths, "trees_compared": len(trees), "rejected_among_them": n_rej,
                       "gen": case.get("gen", []), "a_final_state": finals[0] if finals else None}}


def corpus():
    INT = ["T", "int"]

    def st(x):
        return ["t", INT, x]

    def q(x, y=0):
        return ["t", ["t", ["t", st(x), st(y)]], st(0)]
    a, b = ["P", "a", "int"], ["P", "b", "int"]
    f = ["P", "f", ["->", "int", ["->", "int", "int"]]]
    res = []
    # the witness of finding C06-F1 (theorem PS.C06.Example.finding_C06_F1): two states merged
    res.append({"rules": [[a, [], q(1)], [b, [], q(2)]], "finals": [q(1)], "ngrams": [2], "tseed": 1, "gen": ["corpus.F1"]})
    # the same with a binary letter so that the merge multiplies derivations
    res.append({"rules": [[a, [], q(1)], [b, [], q(2)], [f, [q(1), q(2)], q(3, 1)]], "finals": [q(3, 1)], "ngrams": [0, 3],
                "tseed": 2, "gen": ["corpus.F1"]})
    # plain states, several final states, alternatives for one symbol
    res.append({"rules": [[a, [], st(0)], [b, [], st(1)], [f, [st(0), st(1)], st(2)], [f, [st(1), st(0)], st(2)],
                          [f, [st(2), st(0)], st(3)]], "finals": [st(2), st(3)], "ngrams": [0, 1, 2, 9, -1], "tseed": 3,
                "gen": ["corpus.plain"]})
    return res
