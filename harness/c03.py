from harness.parts import make; make(globals(), ["c03_hs"])
