"""C03: multi-part check (parts: beap, bee, cd, hs); see harness/parts.py and the part modules."""
from harness.parts import make

make(globals(), ['c03_beap', 'c03_bee', 'c03_cd', 'c03_hs'])
