"""C13 self-test: realistic breaking / harmless edits of synth/syntax/grammars/ttcfg.py, one at a time, in a scratch
worktree of /repo; `python3 harness/c13_selftest.py [names...]` (cwd = the verification tree) prints
(exit code of ./check C13, number of violations, first replay, wall seconds) per edit and removes the worktree."""
import subprocess, sys, json, os, time
R = "/tmp/mut_c13_selftest"
HERE = os.path.dirname(os.path.dirname(os.path.abspath(__file__)))
F = R + "/synth/syntax/grammars/ttcfg.py"
MUTS = {
 "M1-size-leaf-off-by-one": [("return size + future <= max_size, (size + 1, future - 1)", "return size + future < max_size, (size + 1, future - 1)")],
 "M2-size-app-off-by-one": [("return size + nargs + future <= max_size, (size + 1, future + nargs - 1)", "return size + nargs + future <= max_size + 1, (size + 1, future + nargs - 1)")],
 "M3-product-state-of-other-not-advanced": [("(self.rules[nT1][P1][1], other.rules[nT2][P1][1]),\n                        )\n\n        return TTCFG", "(self.rules[nT1][P1][1], nT2[1][1]),\n                        )\n\n        return TTCFG")],
 "M4-clean-single-pass": [("        while clean():\n            pass\n", "        clean()\n")],
 "M5-programs-sum-instead-of-product": [("next_local[nV] += nC * cnt", "next_local[nV] += nC + cnt - 1")],
 "M6-forbidden-wrong-index": [("(last_pred[0].primitive, last_pred[1])\n                if last_pred and isinstance(last_pred[0], Primitive)\n                else (\"\", 0),\n                set(),\n            ):\n                return False, (0, 0)", "(last_pred[0].primitive, 0)\n                if last_pred and isinstance(last_pred[0], Primitive)\n                else (\"\", 0),\n                set(),\n            ):\n                return False, (0, 0)")],
 "M7-atmost-decrement-wrong-primitive": [("if str(derivation) != primitive:\n                return True, occ_left", "if str(derivation) == primitive:\n                return True, occ_left")],
 "M8-product-type-check-dropped": [("                if nT1[0] != nT2[0]:\n                    continue\n                rule = (nT1[0], ((nT1[1][0], nT2[1][0]), (nT1[1][1], nT2[1][1])))", "                rule = (nT1[0], ((nT1[1][0], nT2[1][0]), (nT1[1][1], nT2[1][1])))")],
 "M9-derive-stack-order": [("            information = args + information\n", "            information = information + args\n")],
 "M10-atmost-allows-one-more": [("return occ_left > 0, occ_left - 1", "return occ_left >= 0, occ_left - 1")],
 "M11-programs-pop-last": [("base = info.pop(0)", "base = info.pop()")],
 "M12-clean-drop-length-test": [("                        and len(new_info) >= len(info)\n", "")],
 "M13-product-zip-other-args": [("(el1[0], (el1[1], el2[1]))", "(el1[0], (el2[1], el1[1]))")] ,
 "M14-product-keeps-P1-when-P2-differs": [("                        if P1 != P2:\n                            continue\n                        new_deriv = [\n                            (el1[0], (el1[1], el2[1]))\n                            for el1, el2 in zip(\n                                self.rules[nT1][P1][0], other.rules[nT2][P1][0]\n                            )\n                        ]\n                        rules[rule][P1] = (\n                            new_deriv,\n                            (self.rules[nT1][P1][1], other.rules[nT2][P1][1]),",
   "                        new_deriv = [\n                            (el1[0], (el1[1], el2[1]))\n                            for el1, el2 in zip(\n                                self.rules[nT1][P1][0], other.rules[nT2][P2][0]\n                            )\n                        ]\n                        rules[rule][P1] = (\n                            new_deriv,\n                            (self.rules[nT1][P1][1], other.rules[nT2][P2][1]),")],
 "H1-primitives-before-variables": "special",
 "H2-clean-bfs": [("            rule, info = list_to_be_treated.pop()\n            if rule not in new_rules:\n                new_rules[rule] = set()", "            rule, info = list_to_be_treated.popleft()\n            if rule not in new_rules:\n                new_rules[rule] = set()")],
 "H3-programs-reversed-rule-order": [("            for P in self.rules[state]:\n                info, new_state = self.derive(self.start_information(), state, P)", "            for P in reversed(list(self.rules[state])):\n                info, new_state = self.derive(self.start_information(), state, P)")],
}
def sh(cmd, **kw):
    return subprocess.run(cmd, shell=True, capture_output=True, text=True, **kw)
which = sys.argv[1:] or list(MUTS)
out = {}
sh(f"git -C /repo worktree add --detach {R} HEAD")
for name in which:
    sh(f"git -C {R} checkout -q .")
    s = open(F).read()
    if MUTS[name] == "special":
        a = s.index("        # Try to add variables rules")
        b = s.index("        # DSL Primitives")
        c = s.index("    grammar: TTCFG[S, T] = TTCFG((return_type, init), rules)")
        s = s[:a] + s[b:c].rstrip("\n") + "\n" + s[a:b] + "\n" + s[c:]
    else:
        for old, new in MUTS[name]:
            assert s.count(old) >= 1, (name, old)
            s = s.replace(old, new)
    open(F, "w").write(s)
    r = sh("/venv/bin/python -c 'import synth.syntax.grammars.ttcfg'", cwd=R, env=dict(os.environ, PYTHONPATH=R))
    assert r.returncode == 0, r.stderr
    t0 = time.time()
    r = sh(f"rm -f replays/C13-0-*.json; PS_REPO={R} ./check C13", cwd=HERE)
    lines = [l for l in r.stdout.split("\n") if l.startswith("VIOLATION") or l.startswith("[C13]")]
    what = ""
    p = os.path.join(HERE, "replays", "C13-0-1.json")
    if os.path.exists(p):
        rp = json.load(open(p)); what = f"{rp['kind']}: {rp['what']} :: {str(rp['detail'])[:160]}"
    out[name] = (r.returncode, len([l for l in lines if l.startswith('VIOLATION')]), what, round(time.time() - t0, 1))
    print(name, out[name], flush=True)
sh(f"git -C /repo worktree remove --force {R}")
sh(f"rm -f {HERE}/replays/C13-0-*.json")
print(json.dumps(out, indent=1))
