"""C12, part bee — a filter or merge declarations during bee search remove only what they should.

oracle : language by exhaustive expansion; the filter is a predicate on program tuples evaluated by the
         harness; with a filter: no duplicate, nothing rejected, everything whose sub-programs are all
         accepted; after merges: exactly the not-yet-yielded accepted programs that contain no merged program;
         the enumeration stops (observed where the run is affordable: see enumbee.run_case).
"""
from harness import enumbee as B
from harness import enumhs as E

CASE_TIMEOUT = {"quick": 150, "thorough": 600}


def gen(rng, i, tier):
    c = B.gen_case(rng, i, tier)
    c["fseed"] = None
    mode = rng.choice(["filter", "filter", "merge", "merge", "both"])
    if mode in ("filter", "both"):
        c["filter"] = B.gen_filter(rng)
    if mode in ("merge", "both"):
        c["merges"] = B.gen_merges(rng)
    return c


def shrink(case):
    return B.shrink_case(case)


def check(case, M):
    tier = case.get("tier", "quick")
    r = B.run_case(case, M, tier)
    if "trivial" in r:
        return {"key": B.key_of(case), "nontrivial": False, "tags": ["trivial:" + r["trivial"]], "failures": []}
    failures = []
    merged_any = any(a[0] == "merge" for a in r["script"])
    pred = r["pred"] or (lambda t: True)
    lang = [p for p, _ in r["lang"]]
    L = {B.show(p) for p in lang}
    accepted = {B.show(p) for p in lang if pred(p)}
    strict = {B.show(p) for p in lang if all(pred(s) for s in B.subterms(p))}
    ids = B.FINDING_IDS["C12"]
    # decidable classifiers (functions of the case, its grammar, costs, filter and script only)
    zero = r["zero"]
    fixed = bool(r.get("fixed"))                            # the tree has the repair of C12-F11 (stop at the maximal cost)
    wont_stop = (not merged_any) and strict != L and not fixed      # the count G.programs() is never reached

    def fail(kind, what, detail, finding=None):
        if any(g["what"] == what for g in failures):
            return
        f = {"kind": kind, "what": what, "detail": detail}
        fid = ids["zero"] if zero else finding
        if fid:
            f["finding"] = fid
        failures.append(f)
    for what, detail in r["corr"]:
        failures.append({"kind": "corr", "what": what, "detail": detail})
    stopped = bool(r["steps"]) and r["steps"][-1][1] and not r["cut"]
    if r["err"] is not None:
        fail("oracle", "the enumerator raises instead of enumerating", r["err"])
    else:
        ys = B.flat(r["steps"])
        Y = [B.show(p) for p in ys]
        if not stopped:
            if (merged_any and not fixed) or r["budget_cut"]:
                pass            # stops only after 1000 unproductive rounds: observed on unary grammars only (tag)
            else:
                fail("oracle", "the enumerator does not stop", f"still running after {r['rounds']} rounds, cheapest queued cost above every program of the language",
                     ids["stop"] if wont_stop else None)
        if len(Y) != len(set(Y)):
            fail("oracle", "a program is yielded twice", next(y for k, y in enumerate(Y) if y in Y[:k]))
        if set(Y) - L:
            fail("oracle", "a program outside the language is yielded", str(sorted(set(Y) - L)[:3]))
        rej = sorted(y for y in set(Y) & L if y not in accepted)
        if rej:
            fail("oracle", "a program rejected by the filter is yielded", str(rej[:3]))
        if r["budget_cut"]:
            pass            # inconclusive run: only what was yielded is judged
        elif not merged_any:
            miss = sorted(strict - set(Y))
            if miss:
                fail("oracle", "a program all of whose sub-programs are accepted is never yielded", f"{len(miss)} e.g. {miss[:3]}")
        else:
            it = iter(r["steps"])
            seen = []
            merged = []
            for act in r["script"]:
                if act[0] == "take":
                    st = next(it, ([], True))
                    for p in st[0]:
                        s = B.show(p)
                        if any(B.contains(p, o) for o in merged):
                            fail("oracle", "a program containing a merged program is yielded after the merge",
                                 f"{s} contains one of {[B.show(o) for o in merged]}", ids["merge"])
                        seen.append(s)
                else:
                    merged.append(act[1])
            final_owed = {B.show(p) for p in lang if B.show(p) in strict and not any(B.contains(p, o) for o in merged)}
            miss = sorted(final_owed - set(seen)) if not r["budget_cut"] else []
            if miss:
                fail("oracle", "a program that contains no merged program is never yielded", f"{len(miss)} e.g. {miss[:3]}", ids["merge"])
    tags = B.base_tags(case, r)
    if case.get("filter"):
        tags.append("filter:" + case["filter"]["kind"])
        if accepted == strict:
            tags.append("filter-closed-on-language")
        if wont_stop:
            tags.append("filter-rejects-a-program(C12-F11 region: never stops)")
    if merged_any:
        tags.append(f"merges:{sum(1 for a in r['script'] if a[0] == 'merge')}")
        tags.append("merge:stop-observed" if stopped else "merge:stop-not-observed(run cut)")
    nrej = len(L) - len(accepted)
    nontrivial = len(lang) >= 5 and ((case.get("filter") and 0 < nrej < len(L)) or merged_any)
    return {"key": B.key_of(case), "nontrivial": bool(nontrivial), "tags": tags, "failures": failures, "sample": B.sample_of(case, r)}


def corpus():
    return [
        # the test-suite's merge: (+ 1 1) merged before the enumeration starts
        {"family": "fin", "build": {"src": "testdsl", "request": ["->", "int", "int"], "kind": "cfg", "max_depth": 3, "min_var": 1, "n_gram": 2},
         "order": "built", "oseed": 0, "costs": {"mode": "prob", "weights": "uniform1", "wseed": 0, "threshold": 2}, "filter": None, "merges": [[8, 7, "yielded"]], "prefix": None, "fseed": None},
        {"family": "fin", "build": {"src": "testdsl", "request": ["->", "int", "int"], "kind": "cfg", "max_depth": 3, "min_var": 1, "n_gram": 2},
         "order": "built", "oseed": 0, "costs": {"mode": "prob", "weights": "dyadic", "wseed": 5, "threshold": 1}, "filter": {"kind": "even"}, "merges": [], "prefix": None, "fseed": None},
        {"family": "fin", "build": {"src": "prims", "prims": B.CHAIN_DSLS[2], "forbidden": [], "request": "t", "kind": "cfg", "max_depth": 4, "min_var": 1, "n_gram": 2},
         "order": "built", "oseed": 0, "costs": {"mode": "int", "kind": "small", "cseed": 2}, "filter": None, "merges": [[3, 1, "yielded"]], "prefix": None, "fseed": None},
    ]
