#!/venv/bin/python
"""Entry point of every check:   ./check Cxx [--tier quick|thorough] [--replay FILE]

Pipeline (DESIGN.md §2.2):
  0. build the Lean library, the property's theorems and the model driver
  1. proof stage: theorems of PS/Props/Cxx.lean build, `#print axioms` audit, source grep
  2. correspondence + oracle stage: worker processes (several PYTHONHASHSEEDs) generate
     cases from VERIF_SEED, run the implementation (/repo working tree, in-process) and the
     Lean model driver on the same lines, compare, and evaluate the property oracle
  3. decision: known findings -> KNOWN-FINDING lines; anything else -> VIOLATION line + replay
  4. evidence/Cxx.json
Exit codes: 0 property held on everything explored; 1 violation; 2 infrastructure error.
"""
import argparse
import importlib
import json
import os
import random
import re
import signal
import subprocess
import sys
import time
import traceback

HERE = os.path.dirname(os.path.abspath(__file__))
VERIF = os.path.dirname(HERE)
LEAN = os.path.join(VERIF, "lean")
REPO = os.environ.get("PS_REPO", "/repo")
GUARD = "PROGSYNTH_VERIF"
ALLOWED_AXIOMS = {"propext", "Classical.choice", "Quot.sound"}
FORBIDDEN = re.compile(r"\bsorry\b|\badmit\b|^\s*axiom\s|native_decide|bv_decide|implemented_by|\bunsafe\s|maxHeartbeats\s+0")

sys.path.insert(0, VERIF)


# --------------------------------------------------------------------------- Lean side
def sh(cmd, cwd=None, timeout=None):
    p = subprocess.run(cmd, cwd=cwd, stdout=subprocess.PIPE, stderr=subprocess.STDOUT, text=True, timeout=timeout)
    return p.returncode, p.stdout


def lean_env():
    return dict(os.environ)


def build_lean(pid):
    """returns (driver_ok, props_ok, log)"""
    sh([sys.executable, os.path.join(VERIF, "tools", "gen_lean_roots.py")])
    rc, out = sh(["lake", "build", "PS", "psdriver"], cwd=LEAN, timeout=3600)
    if rc != 0:
        return False, False, out
    rc2, out2 = sh(["lake", "build"] + [f"PS.Props.{f[:-5]}" for f in prop_files(pid)], cwd=LEAN, timeout=3600)
    return True, rc2 == 0, out + out2


def strip_comments(src):
    # remove /- ... -/ (nested not handled beyond one level; good enough for a grep) and -- ...
    out = []
    depth = 0
    i = 0
    n = len(src)
    while i < n:
        if src.startswith("/-", i):
            depth += 1
            i += 2
        elif src.startswith("-/", i) and depth > 0:
            depth -= 1
            i += 2
        elif depth > 0:
            if src[i] == "\n":
                out.append("\n")
            i += 1
        elif src.startswith("--", i):
            while i < n and src[i] != "\n":
                i += 1
        else:
            out.append(src[i])
            i += 1
    return "".join(out)


def lean_sources():
    res = []
    for root, _, files in os.walk(os.path.join(LEAN, "PS")):
        for f in files:
            if f.endswith(".lean"):
                res.append(os.path.join(root, f))
    res.append(os.path.join(LEAN, "Driver.lean"))
    return sorted(res)


def grep_forbidden():
    hits = []
    for path in lean_sources():
        src = strip_comments(open(path).read())
        for ln, line in enumerate(src.split("\n"), 1):
            if FORBIDDEN.search(line):
                # `partial def` in driver glue is not in FORBIDDEN; `unsafe ` is.
                hits.append(f"{os.path.relpath(path, LEAN)}:{ln}: {line.strip()[:120]}")
    return hits


def prop_files(pid):
    """PS/Props/Cxx.lean and its parts PS/Props/Cxx_<Part>.lean"""
    d = os.path.join(LEAN, "PS", "Props")
    return sorted(f for f in os.listdir(d) if re.fullmatch(rf"{pid}(_\w+)?\.lean", f))


def theorems_of(pid):
    names = []
    for fn in prop_files(pid):
        src = strip_comments(open(os.path.join(LEAN, "PS", "Props", fn)).read())
        # track namespaces (simple stack)
        stack = []
        for line in src.split("\n"):
            m = re.match(r"^\s*namespace\s+(\S+)", line)
            if m:
                stack.append(m.group(1))
                continue
            m = re.match(r"^\s*end\s+(\S+)", line)
            if m and stack and stack[-1].split(".")[-1] == m.group(1).split(".")[-1]:
                stack.pop()
                continue
            m = re.match(r"^\s*(?:@\[[^\]]*\]\s*)?(?:protected\s+|private\s+)?theorem\s+(\S+)", line)
            if m:
                names.append(".".join(stack + [m.group(1)]))
    return names


def audit(pid):
    """#print axioms for every theorem of the property file; returns dict name -> axioms list (or None)."""
    names = theorems_of(pid)
    d = os.path.join(LEAN, ".audit")
    os.makedirs(d, exist_ok=True)
    path = os.path.join(d, f"{pid}.lean")
    with open(path, "w") as f:
        for fn in prop_files(pid):
            f.write(f"import PS.Props.{fn[:-5]}\n")
        for n in names:
            f.write(f"#print axioms {n}\n")
    rc, out = sh(["lake", "env", "lean", path], cwd=LEAN, timeout=3600)
    res = {}
    # outputs: "'name' depends on axioms: [a, b]"  or "'name' does not depend on any axioms"
    for m in re.finditer(r"'([^']+)' depends on axioms: \[([^\]]*)\]", out, re.S):
        res[m.group(1)] = [a.strip() for a in m.group(2).replace("\n", " ").split(",") if a.strip()]
    for m in re.finditer(r"'([^']+)' does not depend on any axioms", out):
        res[m.group(1)] = []
    return names, res, rc, out


# --------------------------------------------------------------------------- model handle
class Model:
    """persistent psdriver process; ask(line) -> parsed answer"""

    def __init__(self):
        from harness import sexp
        self.sexp = sexp
        exe = os.path.join(LEAN, ".lake", "build", "bin", "psdriver")
        self.p = subprocess.Popen([exe], stdin=subprocess.PIPE, stdout=subprocess.PIPE, text=True, bufsize=1)
        self.lines = 0

    def ask_raw(self, line):
        assert "\n" not in line
        self.p.stdin.write(line + "\n")
        self.p.stdin.flush()
        self.lines += 1
        ans = self.p.stdout.readline()
        if not ans:
            raise RuntimeError("psdriver died on: " + line[:300])
        return ans.rstrip("\n")

    def ask(self, req):
        line = req if isinstance(req, str) else self.sexp.dump(req)
        ans = self.sexp.parse(self.ask_raw(line))
        if isinstance(ans, list) and ans and ans[0] == "error":
            raise RuntimeError(f"model driver rejected request: {ans} :: {line[:400]}")
        return ans

    def close(self):
        try:
            self.p.stdin.close()
            self.p.wait(timeout=5)
        except Exception:
            self.p.kill()

    def restart(self):
        lines = self.lines
        try:
            self.p.kill()
            self.p.wait(timeout=5)
        except Exception:
            pass
        self.__init__()
        self.lines = lines


class CaseTimeout(Exception):
    pass


def _alarm(signum, frame):
    raise CaseTimeout()


# --------------------------------------------------------------------------- worker
def load_module(pid):
    if REPO not in sys.path:
        sys.path.insert(0, REPO)
    os.environ[GUARD] = "1"
    return importlib.import_module(f"harness.{pid.lower()}")


def run_one(mod, case, M, limit):
    """runs mod.check on one case with a wall-clock limit; returns result dict"""
    signal.signal(signal.SIGALRM, _alarm)
    signal.alarm(limit)
    try:
        r = mod.check(case, M)
    except CaseTimeout:
        r = {"key": json.dumps(case, sort_keys=True, default=str)[:200], "nontrivial": False, "tags": ["timeout"], "failures": [], "timeout": True}
        M.restart()      # the pipe may hold an unread answer
    finally:
        signal.alarm(0)
    return r


def shrink_case(mod, case, M, limit, failure_sig):
    """greedy shrinking with mod.shrink(case) -> iterable of smaller cases; keeps the same failure signature"""
    if not hasattr(mod, "shrink"):
        return case
    t0 = time.time()
    cur = case
    improved = True
    while improved and time.time() - t0 < 60:
        improved = False
        for cand in mod.shrink(cur):
            try:
                r = run_one(mod, cand, M, limit)
            except Exception:
                continue
            if any(sig(f) == failure_sig for f in r.get("failures", [])):
                cur = cand
                improved = True
                break
    return cur


def sig(f):
    return (f.get("kind"), f.get("what"), f.get("finding"))


def worker_main(args):
    pid = args.pid
    mod = load_module(pid)
    M = Model()
    rng = random.Random(f"{args.seed}/{pid}/{args.wid}")
    limit = getattr(mod, "CASE_TIMEOUT", {"quick": 60, "thorough": 300})[args.tier]
    res = {"evaluations": 0, "keys": [], "tags": {}, "failures": [], "samples": [], "timeouts": 0, "model_lines": 0,
           "hashseed": os.environ.get("PYTHONHASHSEED", "random")}
    deadline = time.time() + args.budget
    hard_deadline = deadline + 2 * args.budget
    min_cases = max(5, args.n // 10)
    shrink_budget = [45.0]
    cases = []
    if args.wid == 0 and hasattr(mod, "corpus"):
        cases += [("corpus", c) for c in mod.corpus()]
    i = 0
    while True:
        if cases:
            origin, case = cases.pop(0)
        else:
            # the budget ends the generation, but not before a minimum share of the cases was run (a cold start —
            # first import of the library from a cold disk cache — must not leave a run with a handful of cases)
            if i >= args.n or (time.time() > deadline and (i >= min_cases or time.time() > hard_deadline)):
                break
            case = mod.gen(rng, i, args.tier)
            origin = "gen"
            i += 1
        try:
            r = run_one(mod, case, M, limit)
        except Exception as e:  # harness/model error: infrastructure, reported, not a violation
            res["failures"].append({"kind": "harness-error", "what": f"{type(e).__name__}: {e}", "case": case,
                                    "trace": traceback.format_exc()[-1500:]})
            try:
                M.close()
            except Exception:
                pass
            M = Model()
            continue
        res["evaluations"] += 1
        if res["evaluations"] % 200 == 0:
            res["model_lines"] = M.lines
            dump_result(res, args.out)      # a worker killed from outside still leaves what it did
        if r.get("timeout"):
            res["timeouts"] += 1
        if r.get("nontrivial"):
            res["keys"].append(r["key"])
        for t in r.get("tags", []):
            res["tags"][t] = res["tags"].get(t, 0) + 1
        if len(res["samples"]) < 3 and r.get("nontrivial"):
            res["samples"].append(r.get("sample", case))
        for f in r.get("failures", []):
            f = dict(f)
            if len(res["failures"]) < 50:
                do_shrink = f.get("kind") != "harness-error" and not f.get("finding") and shrink_budget[0] > 0
                t_s = time.time()
                small = shrink_case(mod, case, M, limit, sig(f)) if do_shrink else case
                shrink_budget[0] -= time.time() - t_s
                f["case"] = small
                f["origin"] = origin
                f["hashseed"] = res["hashseed"]
                res["failures"].append(f)
    res["model_lines"] = M.lines
    M.close()
    res["complete"] = True
    dump_result(res, args.out)


def dump_result(res, path):
    tmp = path + ".part"
    with open(tmp, "w") as fh:
        json.dump(res, fh, default=str)
    os.replace(tmp, path)


# --------------------------------------------------------------------------- main
def main():
    ap = argparse.ArgumentParser()
    ap.add_argument("pid")
    ap.add_argument("--tier", default=os.environ.get("VERIF_TIER", "quick"))
    ap.add_argument("--seed", type=int, default=int(os.environ.get("VERIF_SEED", "0") or 0))
    ap.add_argument("--replay")
    ap.add_argument("--worker", action="store_true")
    ap.add_argument("--wid", type=int, default=0)
    ap.add_argument("--n", type=int, default=0)
    ap.add_argument("--budget", type=float, default=1e9)
    ap.add_argument("--out")
    args = ap.parse_args()
    args.pid = args.pid.upper()
    if args.tier not in ("quick", "thorough"):
        args.tier = "quick"
    if args.worker:
        worker_main(args)
        return 0
    if args.replay:
        return replay_main(args)
    return check_main(args)


def replay_main(args):
    rp = json.load(open(args.replay))
    hs = str(rp.get("hashseed", "0"))
    if os.environ.get("PYTHONHASHSEED") != hs and hs != "random":
        env = dict(os.environ, PYTHONHASHSEED=hs)
        return subprocess.call([sys.executable] + sys.argv, env=env)
    ok, _, log = build_lean(args.pid)
    if not ok:
        print(log[-3000:])
        return 2
    if "case" not in rp:
        print("replay file carries no input (no-failing-input-found):", rp.get("what"))
        return 1
    mod = load_module(args.pid)
    M = Model()
    r = run_one(mod, rp["case"], M, 3600)
    M.close()
    fails = [f for f in r.get("failures", [])]
    print(json.dumps({"failures": fails}, indent=1, default=str)[:6000])
    return 1 if fails else 0


def check_main(args):
    t0 = time.time()
    pid = args.pid
    os.makedirs(os.path.join(VERIF, "evidence"), exist_ok=True)
    os.makedirs(os.path.join(VERIF, "replays"), exist_ok=True)
    meta = json.load(open(os.path.join(HERE, "meta", f"{pid}.json")))
    known = [k for k in json.load(open(os.path.join(VERIF, "known_findings.json")))["findings"] if k["property"] == pid]
    open_findings = {k["id"]: k for k in known if k.get("status") == "open"}

    # ---- 0/1 build + proof stage
    driver_ok, props_ok, log = build_lean(pid)
    if not driver_ok:
        print("lake build failed (model/driver):\n" + log[-4000:])
        return 2
    proof_problems = []
    names, axioms, arc, aout = ([], {}, 0, "")
    if not props_ok:
        proof_problems.append("PS.Props.%s does not build: %s" % (pid, log[-1500:]))
        try:
            names = theorems_of(pid)
        except Exception:
            names = []
    else:
        names, axioms, arc, aout = audit(pid)
        if arc != 0:
            proof_problems.append("axiom audit failed to run: " + aout[-800:])
        for n in names:
            ax = axioms.get(n)
            if ax is None:
                proof_problems.append(f"no axiom report for theorem {n}")
            elif not set(ax) <= ALLOWED_AXIOMS:
                proof_problems.append(f"theorem {n} depends on non-standard axioms {ax}")
    hits = grep_forbidden()
    for h in hits:
        proof_problems.append("forbidden token in Lean sources: " + h)
    obligations = len(names)
    discharged = 0 if (not props_ok) else sum(1 for n in names if axioms.get(n) is not None and set(axioms[n]) <= ALLOWED_AXIOMS)
    if args.tier == "thorough" and props_ok:
        rc, out = sh(["lake", "env", "leanchecker"] + [f"PS.Props.{f[:-5]}" for f in prop_files(pid)], cwd=LEAN, timeout=7200)
        if rc != 0:
            proof_problems.append("leanchecker rejected PS.Props.%s: %s" % (pid, out[-800:]))

    # ---- 1b drift probe (DESIGN §2.2 step 2): has the library's source changed since the models were aligned?
    # A difference never fails the check; it enlarges the correspondence / search budget.
    try:
        from harness import drift as _drift
        props = [json.loads(l) for l in open(os.path.join(VERIF, "properties.jsonl")) if l.strip()]
        anchor_files = set(next(p for p in props if p["id"] == pid)["anchors"]["files"]) | set(meta.get("anchor_files_extra", []))
        drift_anchor, drift_other = _drift.drift(REPO, os.path.join(HERE, "anchors.json"), anchor_files)
    except Exception as e:  # the probe is advisory
        drift_anchor, drift_other = [], []
    escalate = 1
    if proof_problems:
        escalate = 4
    elif drift_anchor:
        escalate = 4 if args.tier == "quick" else 2
    elif drift_other:
        escalate = 2 if args.tier == "quick" else 1

    # ---- 2 correspondence / oracle stage
    ncases = meta["cases"][args.tier]
    ncases *= escalate  # escalated failing-input search
    nw = max(1, min(16, int(meta.get("workers", 12)), ncases, (os.cpu_count() or 4)))
    per = (ncases + nw - 1) // nw
    budget = meta.get("budget_s", {"quick": 150, "thorough": 1500})[args.tier] * escalate
    tmpdir = os.path.join(VERIF, "replays", f".tmp-{pid}-{os.getpid()}")
    os.makedirs(tmpdir, exist_ok=True)
    # warm the file cache before the workers' budget clocks start: after a fresh restore the first import of the
    # library (numpy, torch) by a dozen processes at once has taken longer than a whole quick budget
    try:
        subprocess.run([sys.executable, "-c", "import synth, synth.syntax, synth.semantic, synth.filter, synth.pbe, synth.nn"],
                       env=dict(os.environ, PYTHONPATH=REPO), cwd=REPO, stdout=subprocess.DEVNULL, stderr=subprocess.DEVNULL, timeout=900)
    except Exception:
        pass
    procs = []
    hashseeds = ["0", "1", str(2 + args.seed % 1000), "random"]
    for w in range(nw):
        out = os.path.join(tmpdir, f"w{w}.json")
        env = dict(os.environ, PYTHONHASHSEED=hashseeds[w % len(hashseeds)], PS_REPO=REPO)
        env[GUARD] = "1"
        env["PYTHONPATH"] = REPO + os.pathsep + VERIF
        cmd = [sys.executable, os.path.abspath(__file__), pid, "--worker", "--wid", str(w), "--n", str(per),
               "--seed", str(args.seed), "--tier", args.tier, "--out", out, "--budget", str(budget)]
        logf = open(os.path.join(tmpdir, f"w{w}.log"), "w")
        procs.append((w, out, subprocess.Popen(cmd, env=env, stdout=logf, stderr=subprocess.STDOUT, cwd=VERIF), logf))
    results = []
    infra = []

    def launch(w, out, suffix=""):
        env = dict(os.environ, PYTHONHASHSEED=hashseeds[w % len(hashseeds)], PS_REPO=REPO)
        env[GUARD] = "1"
        env["PYTHONPATH"] = REPO + os.pathsep + VERIF
        cmd = [sys.executable, os.path.abspath(__file__), pid, "--worker", "--wid", str(w), "--n", str(per),
               "--seed", str(args.seed), "--tier", args.tier, "--out", out, "--budget", str(budget)]
        logf = open(os.path.join(tmpdir, f"w{w}{suffix}.log"), "w")
        return subprocess.Popen(cmd, env=env, stdout=logf, stderr=subprocess.STDOUT, cwd=VERIF), logf

    for w, out, p, logf in procs:
        try:
            p.wait(timeout=budget * 3 + 600)
        except subprocess.TimeoutExpired:
            p.kill()
            infra.append(f"worker {w} exceeded the time limit")
        logf.close()
        ok = os.path.exists(out) and json.load(open(out)).get("complete")
        if not ok and p.returncode not in (0, None):
            # died without finishing (killed from outside, out of memory …): run it again, alone
            first_rc = p.returncode
            p2, logf2 = launch(w, out, ".retry")
            try:
                p2.wait(timeout=budget * 3 + 600)
            except subprocess.TimeoutExpired:
                p2.kill()
            logf2.close()
            ok = os.path.exists(out) and json.load(open(out)).get("complete")
            if not ok:
                infra.append(f"worker {w} died twice (exit codes {first_rc}, {p2.returncode}): "
                             + open(os.path.join(tmpdir, f"w{w}.retry.log")).read()[-1500:])
        if os.path.exists(out):
            results.append(json.load(open(out)))
        elif not any(m.startswith(f"worker {w} ") for m in infra):
            infra.append(f"worker {w} produced no result (exit code {p.returncode}): " + open(os.path.join(tmpdir, f"w{w}.log")).read()[-1500:])
    # aggregate
    evaluations = sum(r["evaluations"] for r in results)
    keys = set(k for r in results for k in r["keys"])
    tags = {}
    for r in results:
        for t, c in r["tags"].items():
            tags[t] = tags.get(t, 0) + c
    samples = [s for r in results for s in r["samples"]][:5]
    failures = [f for r in results for f in r["failures"]]
    harness_errors = [f for f in failures if f["kind"] == "harness-error"]
    failures = [f for f in failures if f["kind"] != "harness-error"]

    # ---- 3 decision
    lines = []
    nviol = 0
    seen_findings = set()
    new = []
    for f in failures:
        fid = f.get("finding")
        if fid and fid in open_findings:
            if fid not in seen_findings:
                seen_findings.add(fid)
                lines.append(f"KNOWN-FINDING: property={pid} {fid} {open_findings[fid]['what']}")
        else:
            new.append(f)
    # oracle failures (property fails on the implementation, input in hand) first
    new.sort(key=lambda f: 0 if f["kind"] == "oracle" else 1)
    reported = set()
    for f in new:
        s = (f["kind"], f.get("what"))
        if s in reported:
            continue
        reported.add(s)
        if f["kind"] == "corr" and any(g["kind"] == "oracle" for g in new):
            continue  # the failing input is already reported
        nviol += 1
        path = os.path.join("replays", f"{pid}-{args.seed}-{nviol}.json")
        rp = {"property": pid, "seed": args.seed, "tier": args.tier, "kind": f["kind"], "what": f.get("what"),
              "detail": f.get("detail"), "hashseed": f.get("hashseed", "0"), "origin": f.get("origin")}
        if f["kind"] == "oracle":
            rp["case"] = f["case"]
            suffix = ""
        else:
            rp["case"] = f["case"]
            rp["note"] = "model and implementation differ on this input, but the property's oracle found no input on which the property itself fails; correspondence observable: %s" % f.get("what")
            suffix = " no-failing-input-found"
        json.dump(rp, open(os.path.join(VERIF, path), "w"), indent=1, default=str)
        lines.append(f"VIOLATION property={pid} replay={path}{suffix}")
    if proof_problems and not any(f["kind"] == "oracle" for f in new):
        nviol += 1
        path = os.path.join("replays", f"{pid}-{args.seed}-proof.json")
        json.dump({"property": pid, "seed": args.seed, "kind": "proof", "what": proof_problems,
                   "note": "a theorem of PS/Props/%s.lean no longer checks; escalated search over %d cases found no failing input" % (pid, evaluations)},
                  open(os.path.join(VERIF, path), "w"), indent=1)
        lines.append(f"VIOLATION property={pid} replay={path} no-failing-input-found")
    # open findings whose witness no longer reproduces are only noted
    notes = []
    for fid in open_findings:
        if fid not in seen_findings:
            notes.append(f"known finding {fid} did not reproduce in this run")

    # ---- 4 evidence
    wall = time.time() - t0
    ev = {
        "property_id": pid, "tier": args.tier, "seed": args.seed, "level": meta["level"],
        "coverage": {
            "obligations": obligations, "discharged": discharged,
            "checker_cmd": f"cd lean && lake build PS.Props.{pid} && lake env lean .audit/{pid}.lean   # #print axioms of every theorem" + (f" ; lake env leanchecker PS.Props.{pid}" if args.tier == "thorough" else ""),
            "trusted_base": meta["trusted_base"],
            "theorems": {n: axioms.get(n) for n in names},
            "evaluations": evaluations, "distinct_nontrivial": len(keys), "rule": meta["rule"], "samples": samples,
            "input_distribution": dict(sorted(tags.items())),
            "hashseeds": sorted(set(str(r["hashseed"]) for r in results)),
            "model_lines": sum(r["model_lines"] for r in results),
            "timeouts": sum(r["timeouts"] for r in results),
            "proof_problems": proof_problems, "known_findings_seen": sorted(seen_findings), "notes": notes,
            "drift": {"anchor_files_changed": drift_anchor, "other_files_changed": drift_other, "budget_factor": escalate},
            "explanation": meta.get("explanation", ""),
            "repo": REPO,
        },
        "assumptions": meta["assumptions"], "wall_s": round(wall, 2), "violations": nviol,
    }
    json.dump(ev, open(os.path.join(VERIF, "evidence", f"{pid}.json"), "w"), indent=1, default=str)
    for root, _, files in os.walk(tmpdir, topdown=False):
        for fn in files:
            os.unlink(os.path.join(root, fn))
    os.rmdir(tmpdir)

    for ln in lines:
        print(ln)
    print(f"[{pid}] tier={args.tier} seed={args.seed} theorems {discharged}/{obligations} cases={evaluations} nontrivial-distinct={len(keys)} violations={nviol} wall={wall:.1f}s")
    if harness_errors or infra:
        for f in harness_errors[:3]:
            print("HARNESS-ERROR:", f["what"], "\n", f.get("trace", "")[-800:])
        for m in infra[:3]:
            print("INFRA:", m)
        if nviol == 0:
            return 2
    return 1 if nviol else 0


if __name__ == "__main__":
    sys.exit(main())
