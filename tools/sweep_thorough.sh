#!/bin/sh
# sweep_thorough.sh [ids...] : thorough tier of the given (default: all registered) checks, seed from VERIF_SEED (default 0)
here=$(cd "$(dirname "$0")/.." && pwd); cd "$here" || exit 2
ids=${*:-$(jq -r '.checks[].property_id' MANIFEST.json)}
./setup.sh >/dev/null 2>&1 || { echo "setup failed"; exit 2; }
for id in $ids; do
  t0=$(date +%s); out=$(./check $id --tier thorough 2>&1); rc=$?; t1=$(date +%s)
  echo "thorough $id rc=$rc wall=$((t1-t0))s $(echo "$out" | tail -1 | cut -c1-160)"
  [ $rc -ne 0 ] && echo "$out" | grep -v '^KNOWN' | tail -8 | cut -c1-400
done; exit 0
