#!/venv/bin/python
"""Record the normalised-AST hash of every Python file under <repo>/synth in harness/anchors.json.
Run after the models have been (re)aligned with /repo (i.e. whenever /repo HEAD changes on purpose).
The checks compare the current tree with this record (drift probe, DESIGN §2.2 step 2): a difference
never fails a check by itself, it only enlarges the correspondence / search budget."""
import json, os, subprocess, sys
if os.path.exists("/venv/bin/python") and os.path.realpath(sys.executable) != os.path.realpath("/venv/bin/python"):
    os.execv("/venv/bin/python", ["/venv/bin/python"] + sys.argv)   # the checks run under this interpreter (tokenisation of f-strings differs between versions)
sys.path.insert(0, os.path.join(os.path.dirname(os.path.abspath(__file__)), "..", "harness"))
from drift import tree_hashes
repo = sys.argv[1] if len(sys.argv) > 1 else "/repo"
out = os.path.join(os.path.dirname(os.path.abspath(__file__)), "..", "harness", "anchors.json")
head = subprocess.run(["git", "-C", repo, "rev-parse", "--short", "HEAD"], stdout=subprocess.PIPE, text=True).stdout.strip()
json.dump({"repo_head": head, "python": list(sys.version_info[:2]), "files": tree_hashes(repo)}, open(out, "w"), indent=0, sort_keys=True)
print("anchors recorded for", head)
