#!/usr/bin/env python3
"""Regenerate MANIFEST.json from harness/meta.json (one entry per claimed property)."""
import json, os
V = os.path.dirname(os.path.dirname(os.path.abspath(__file__)))
props = [json.loads(l) for l in open(os.path.join(V, "properties.jsonl"))]
meta = {f[:-5]: json.load(open(os.path.join(V, "harness", "meta", f))) for f in sorted(os.listdir(os.path.join(V, "harness", "meta"))) if f.endswith(".json")}
na = json.load(open(os.path.join(V, "harness", "not_applicable.json"))) if os.path.exists(os.path.join(V, "harness", "not_applicable.json")) else {}
claimed = [p["id"] for p in props if p["id"] in meta]
checks = []
for pid in claimed:
    m = meta[pid]
    checks.append({
        "property_id": pid,
        "quick_cmd": f"./check {pid} --tier quick",
        "thorough_cmd": f"./check {pid} --tier thorough",
        "evidence_file": f"evidence/{pid}.json",
        "replay_cmd_template": f"./check {pid} --replay {{path}}",
        "engine": "lean-model+correspondence",
        "level_claimed": {"category": m["level"], "text": m["explanation"], "design_ref": "DESIGN.md §4 " + pid},
        "level_note": "; ".join(m["trusted_base"]) + " || assumptions: " + "; ".join(m["assumptions"]),
        "technique": m.get("technique", "Lean 4 machine-checked theorems about a hand-written executable model of the code + differential correspondence check of that model against /repo (failing-input search by an independent oracle)"),
    })
man = {
    "version": 1,
    "setup_cmd": "./setup.sh",
    "hooks": {"guard": "PROGSYNTH_VERIF",
              "enable": "checks set PROGSYNTH_VERIF=1 and import /repo's working tree in-process (PYTHONPATH=/repo); no hook commit exists: every observation uses public API, module-level functions or instance attributes",
              "baseline_off_cmd": "cd /repo && env -u PROGSYNTH_VERIF /venv/bin/python -m pytest -ra -q -p no:cacheprovider --timeout=900 --continue-on-collection-errors",
              "source_commits": [], "add_only": True},
    "engines": [{"name": "lean-model+correspondence", "path": "lean/ harness/", "serves_properties": claimed,
                 "kind_free_text": "Lean 4 library PS (executable models + theorems), compiled model driver psdriver, Python differential harness calling /repo in-process under several PYTHONHASHSEEDs"}],
    "checks": checks,
    "notes": "see DESIGN.md; known_findings.json lists repaired (fix: commits in /repo) and recorded defects",
    "not_applicable": [{"property_id": p["id"], "reason": na.get(p["id"], "check under construction (model and theorems not yet registered); see DESIGN.md §4")}
                       for p in props if p["id"] not in meta],
}
json.dump(man, open(os.path.join(V, "MANIFEST.json"), "w"), indent=1)
print("claimed:", " ".join(claimed))
