#!/bin/bash
# merge an agent branch: take their files, regenerate generated files, keep our known_findings
b=$1
cd /verif
git merge --no-commit --no-ff $b > /tmp/merge.log 2>&1
# generated / shared files: keep ours then regenerate
for f in lean/PS.lean lean/PS/Drv/All.lean MANIFEST.json known_findings.json harness/anchors.json harness/meta/C02.json harness/meta/C03.json harness/meta/C12.json harness/c02.py harness/c03.py harness/c12.py lean/PS/Props/C02.lean lean/PS/Props/C03.lean lean/PS/Props/C12.lean; do
  git checkout --ours -- $f 2>/dev/null; git add $f 2>/dev/null
done
git rm -q --cached -r evidence 2>/dev/null; git checkout -q HEAD -- evidence 2>/dev/null
python3 tools/gen_lean_roots.py; python3 tools/merge_parts_meta.py >/dev/null; git add harness/meta/C02.json harness/meta/C03.json harness/meta/C12.json harness/c02.py harness/c03.py harness/c12.py lean/PS/Props/C02.lean lean/PS/Props/C03.lean lean/PS/Props/C12.lean 2>/dev/null
git status --short | grep -E "^(UU|AA|DU|UD)" && echo "CONFLICTS REMAIN"
