#!/bin/bash
# merge an agent branch: take their files, regenerate generated files, keep our known_findings
b=$1
cd /verif
git merge --no-commit --no-ff $b > /tmp/merge.log 2>&1
# generated / shared files: keep ours then regenerate
for f in lean/PS.lean lean/PS/Drv/All.lean MANIFEST.json known_findings.json; do
  git checkout --ours -- $f 2>/dev/null; git add $f 2>/dev/null
done
git rm -q --cached -r evidence 2>/dev/null; git checkout -q HEAD -- evidence 2>/dev/null
python3 tools/gen_lean_roots.py
git status --short | grep -E "^(UU|AA|DU|UD)" && echo "CONFLICTS REMAIN"
