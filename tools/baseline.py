#!/venv/bin/python
"""Run the repository's pinned test suite (command of /root/.vp/BASELINE.json) on a tree and
report which of the 214 stable tests do not pass.   usage: baseline.py [repo_dir] [junit_out]"""
import json, os, subprocess, sys, xml.etree.ElementTree as ET
repo = sys.argv[1] if len(sys.argv) > 1 else "/repo"
out = sys.argv[2] if len(sys.argv) > 2 else "/tmp/baseline.junit.xml"
base = json.load(open("/root/.vp/BASELINE.json"))
env = dict(os.environ)
env.pop("PROGSYNTH_VERIF", None)
subprocess.run(["/venv/bin/python", "-m", "pytest", "-ra", "-q", "-p", "no:cacheprovider", "--timeout=900",
                "--continue-on-collection-errors", f"--junitxml={out}"], cwd=repo, env=env,
               stdout=subprocess.DEVNULL, stderr=subprocess.DEVNULL)
passed = set()
for tc in ET.parse(out).getroot().iter("testcase"):
    if not any(ch.tag in ("failure", "error", "skipped") for ch in tc):
        passed.add(f"{tc.get('classname')}::{tc.get('name')}")
missing = [t for t in base["stable_pass"] if t not in passed]
print(f"stable tests passing: {len(base['stable_pass']) - len(missing)}/{len(base['stable_pass'])}")
for t in missing:
    print("NOT PASSING:", t)
sys.exit(1 if missing else 0)
