#!/usr/bin/env python3
"""register_findings.py <proposed.json> [id=commit ...]
Append the findings of a builder's proposed_findings file to known_findings.json: one entry per property
(an entry with "also": {"C03": "C03-F6", …} is expanded into one entry per alias), status `open`, or `fixed`
with the commit when `id=commit` is given for the primary id. Existing ids are updated in place."""
import json, os, sys
V = os.path.dirname(os.path.dirname(os.path.abspath(__file__)))
kf_path = os.path.join(V, "known_findings.json")
kf = json.load(open(kf_path))
fixed = dict(a.split("=", 1) for a in sys.argv[2:])
byid = {f["id"]: f for f in kf["findings"]}
for f in json.load(open(sys.argv[1]))["findings"]:
    ids = [(f["property"], f["id"])] + sorted((f.get("also") or {}).items())
    for prop, fid in ids:
        e = {"id": fid, "property": prop}
        what = f["what"]
        if fid != f["id"]:
            what = f"(same defect as {f['id']}, seen through {prop}) " + what
        if f["id"] in fixed:
            e["status"] = "fixed"
            e["commit"] = fixed[f["id"]]
            e["what"] = f"fixed: property={prop} {fixed[f['id']]} " + what
        else:
            e["status"] = "open"
            e["what"] = what
            for k in ("classifier", "hyp_clause"):
                if f.get(k):
                    e[k] = f[k]
        for k in ("witness", "lean_witness", "repro"):
            if f.get(k):
                e[k] = f[k]
        if fid in byid:
            byid[fid].clear(); byid[fid].update(e)
        else:
            kf["findings"].append(e); byid[fid] = e
        print(e["status"], fid)
json.dump(kf, open(kf_path, "w"), indent=1)
