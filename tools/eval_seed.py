#!/usr/bin/env python3
"""Evaluate one seeded change:  eval_seed.py <dir with patch.diff, demo.py[, notes.md]> <property id> [name]

1. fresh scratch worktree of /repo HEAD, `git apply patch.diff`
2. demo.py on the unmodified tree must exit 0, on the changed tree must exit != 0
3. the pinned test suite must still pass on the changed tree (all 214 stable tests)
4. ./check <pid> (quick, then thorough if quick misses) against the changed tree via PS_REPO
5. copies patch/demo/notes to /verif/seeded/<name>/ with meta.json; removes the worktree
"""
import json
import os
import shutil
import subprocess
import sys
import time

src, pid = sys.argv[1], sys.argv[2]
name = sys.argv[3] if len(sys.argv) > 3 else os.path.basename(src.rstrip("/"))
V = os.path.dirname(os.path.dirname(os.path.abspath(__file__)))
wt = f"/tmp/ev_{name}"


def sh(cmd, **kw):
    p = subprocess.run(cmd, shell=isinstance(cmd, str), stdout=subprocess.PIPE, stderr=subprocess.STDOUT, text=True, **kw)
    return p.returncode, p.stdout


subprocess.run(["git", "-C", "/repo", "worktree", "remove", "--force", wt], stdout=subprocess.DEVNULL, stderr=subprocess.DEVNULL)
rc, out = sh(["git", "-C", "/repo", "worktree", "add", "--detach", wt, "HEAD"])
assert rc == 0, out
meta = {"id": name, "property": pid, "repo_head": sh(["git", "-C", "/repo", "rev-parse", "--short", "HEAD"])[1].strip(), "ran": []}
try:
    rc, out = sh(["git", "-C", wt, "apply", os.path.abspath(os.path.join(src, "patch.diff"))])
    meta["patch_applies"] = rc == 0
    if rc != 0:
        meta["error"] = out[-500:]
        raise SystemExit
    demo = os.path.abspath(os.path.join(src, "demo.py"))
    env0 = dict(os.environ, PYTHONPATH="/repo")
    env1 = dict(os.environ, PYTHONPATH=wt)
    r0, o0 = sh(["timeout", "900", "/venv/bin/python", demo], env=env0, cwd="/repo")
    r1, o1 = sh(["timeout", "900", "/venv/bin/python", demo], env=env1, cwd=wt)
    meta["demo_clean_exit"], meta["demo_changed_exit"] = r0, r1
    meta["demo_changed_output"] = o1[-600:]
    meta["ran"].append(f"PYTHONPATH=/repo python demo.py -> {r0}; PYTHONPATH=<changed> python demo.py -> {r1}")
    # PYTHONHASHSEED=0: three [cfg1] enumeration tests of the pinned suite are hash-seed flaky on the unmodified tree
    rc, out = sh(["/venv/bin/python", os.path.join(V, "tools", "baseline.py"), wt, f"/tmp/ev_{name}.xml"], env=dict(os.environ, PYTHONHASHSEED="0"))
    meta["suite_passes"] = rc == 0
    meta["suite_output"] = out[-400:]
    if rc != 0:
        # three [cfg1] enumeration tests are PYTHONHASHSEED-flaky on the UNMODIFIED tree (finding C02-F3): a change that
        # merely moves the set of failing hash seeds still "passes the existing tests"; re-run exactly those under other seeds
        flaky = {"tests.syntax.grammars.enumeration.test_heap_search::test_unicity_heapSearch[cfg1]",
                 "tests.syntax.grammars.enumeration.test_heap_search::test_unicity_bucketSearch[cfg1]",
                 "tests.syntax.grammars.enumeration.test_heap_search::test_merge[cfg1]"}
        missing = {l.split("NOT PASSING: ")[1].strip() for l in out.split("\n") if l.startswith("NOT PASSING: ")}
        if missing and missing <= flaky:
            ok_under = {}
            for t in sorted(missing):
                nodeid = "tests/syntax/grammars/enumeration/test_heap_search.py::" + t.split("::")[1]
                for hs in ("1", "2", "3", "4", "5"):
                    r, _ = sh(["/venv/bin/python", "-m", "pytest", "-q", "-p", "no:cacheprovider", "--timeout=900", nodeid], cwd=wt, env=dict(os.environ, PYTHONHASHSEED=hs))
                    if r == 0:
                        ok_under[t] = hs
                        break
            if set(ok_under) == missing:
                meta["suite_passes"] = True
                meta["suite_note"] = "hash-seed-flaky tests (flaky on the unmodified tree too) pass under PYTHONHASHSEED=" + ",".join(f"{t.split('::')[1]}:{h}" for t, h in ok_under.items())
    meta["ran"].append("PYTHONHASHSEED=0 tools/baseline.py <changed tree> (pinned suite, 214 stable tests)")
    detected = {}
    evf = os.path.join(V, "evidence", f"{pid}.json")
    ev_saved = open(evf).read() if os.path.exists(evf) else None
    before = set(os.listdir(os.path.join(V, "replays")))
    for tier in ("quick", "thorough"):
        t0 = time.time()
        env = dict(os.environ, PS_REPO=wt)
        rc, out = sh([os.path.join(V, "check"), pid, "--tier", tier], env=env, cwd=V)
        lines = [l for l in out.split("\n") if l.startswith("VIOLATION")]
        detected[tier] = {"exit": rc, "violation_lines": lines[:3], "wall_s": round(time.time() - t0, 1)}
        meta["ran"].append(f"PS_REPO=<changed> ./check {pid} --tier {tier} -> exit {rc}")
        if rc == 1:
            # keep the first replay for the record
            break
    meta["check"] = detected
    # the evidence file must describe /repo itself, not the changed tree: put it back; keep the replays with the seed
    if ev_saved is not None:
        open(evf, "w").write(ev_saved)
    os.makedirs(os.path.join(V, "seeded", name), exist_ok=True)
    for fn in sorted(set(os.listdir(os.path.join(V, "replays"))) - before):
        if fn.endswith(".json") and fn.startswith(pid + "-"):
            shutil.move(os.path.join(V, "replays", fn), os.path.join(V, "seeded", name, "replay-" + fn))
    meta["caught"] = any(d["exit"] == 1 for d in detected.values())
finally:
    dst = os.path.join(V, "seeded", name)
    os.makedirs(dst, exist_ok=True)
    for f in ("patch.diff", "demo.py", "notes.md"):
        if os.path.exists(os.path.join(src, f)) and os.path.abspath(os.path.join(src, f)) != os.path.abspath(os.path.join(dst, f)):
            shutil.copy(os.path.join(src, f), os.path.join(dst, f))
    json.dump(meta, open(os.path.join(dst, "meta.json"), "w"), indent=1)
    subprocess.run(["git", "-C", "/repo", "worktree", "remove", "--force", wt], stdout=subprocess.DEVNULL, stderr=subprocess.DEVNULL)
    print(json.dumps({k: meta.get(k) for k in ("id", "patch_applies", "demo_clean_exit", "demo_changed_exit", "suite_passes", "caught")}))
