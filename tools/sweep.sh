#!/bin/sh
# sweep.sh "<seeds>" [ids...] : run the quick tier of every registered check under several VERIF_SEEDs; report non-green runs
here=$(cd "$(dirname "$0")/.." && pwd); cd "$here" || exit 2
seeds=${1:-"1 2 3"}; shift
ids=${*:-$(jq -r '.checks[].property_id' MANIFEST.json)}
./setup.sh >/dev/null 2>&1 || { echo "setup failed"; exit 2; }
for s in $seeds; do for id in $ids; do
  t0=$(date +%s); out=$(VERIF_SEED=$s ./check $id --tier quick 2>&1); rc=$?; t1=$(date +%s)
  echo "seed=$s $id rc=$rc wall=$((t1-t0))s $(echo "$out" | tail -1 | cut -c1-160)"
  [ $rc -ne 0 ] && echo "$out" | grep -v '^KNOWN' | tail -8 | cut -c1-400
done; done; exit 0
