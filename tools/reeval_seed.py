#!/usr/bin/env python3
"""reeval_seed.py <seed id> <property id> "<what was strengthened>"
A seeded change that the check missed at first: run the (strengthened) quick tier against the changed tree again and
record the outcome in seeded/<id>/meta.json (check.quick_after_strengthening, caught_after, caught)."""
import json, os, subprocess, sys, time
sid, pid, what = sys.argv[1], sys.argv[2], sys.argv[3]
V = os.path.dirname(os.path.dirname(os.path.abspath(__file__)))
d = os.path.join(V, "seeded", sid)
meta = json.load(open(os.path.join(d, "meta.json")))
wt = f"/tmp/rev_{sid}"
subprocess.run(["git", "-C", "/repo", "worktree", "remove", "--force", wt], stdout=subprocess.DEVNULL, stderr=subprocess.DEVNULL)
assert subprocess.run(["git", "-C", "/repo", "worktree", "add", "--detach", wt, meta.get("repo_head_full", "HEAD")], stdout=subprocess.DEVNULL).returncode == 0
try:
    r = subprocess.run(["git", "-C", wt, "apply", os.path.join(d, "patch.diff")])
    if r.returncode != 0:   # the tree moved on: go back to the commit the seed was made for
        subprocess.run(["git", "-C", wt, "checkout", "-q", meta["repo_head"]], check=True)
        subprocess.run(["git", "-C", wt, "apply", os.path.join(d, "patch.diff")], check=True)
    evf = os.path.join(V, "evidence", f"{pid}.json")
    saved = open(evf).read() if os.path.exists(evf) else None
    before = set(os.listdir(os.path.join(V, "replays")))
    t0 = time.time()
    p = subprocess.run([os.path.join(V, "check"), pid, "--tier", "quick"], env=dict(os.environ, PS_REPO=wt), cwd=V, stdout=subprocess.PIPE, stderr=subprocess.STDOUT, text=True)
    nv = sum(1 for l in p.stdout.split("\n") if l.startswith("VIOLATION"))
    if saved is not None:
        open(evf, "w").write(saved)
    for fn in sorted(set(os.listdir(os.path.join(V, "replays"))) - before):
        if fn.endswith(".json") and fn.startswith(pid + "-"):
            os.replace(os.path.join(V, "replays", fn), os.path.join(d, "replay-" + fn))
    meta.setdefault("check", {})["quick_after_strengthening"] = {"exit": p.returncode, "violations": nv, "wall_s": round(time.time() - t0, 1)}
    if p.returncode == 1:
        meta["caught_after"] = what
        meta["caught"] = True
    meta.setdefault("ran", []).append(f"after strengthening: PS_REPO=<changed> ./check {pid} --tier quick -> exit {p.returncode}")
    json.dump(meta, open(os.path.join(d, "meta.json"), "w"), indent=1)
    print(sid, "exit", p.returncode, "violations", nv)
finally:
    subprocess.run(["git", "-C", "/repo", "worktree", "remove", "--force", wt], stdout=subprocess.DEVNULL, stderr=subprocess.DEVNULL)
