#!/usr/bin/env python3
"""Fill the generated tables of DESIGN.md (findings, per-property status, seeded changes)."""
import glob, json, os, re
V = os.path.dirname(os.path.dirname(os.path.abspath(__file__)))
d = open(os.path.join(V, "DESIGN.md")).read()

def put(tag, text):
    global d
    a, b = f"<!-- BEGIN:{tag} -->", f"<!-- END:{tag} -->"
    i, j = d.index(a) + len(a), d.index(b)
    d = d[:i] + "\n" + text.rstrip() + "\n" + d[j:]

k = json.load(open(os.path.join(V, "known_findings.json")))["findings"]
def short(w):
    w = re.sub(r"^(fixed|open): property=C\d+ (\w+ )?", "", w).replace("|", "\\|").replace("\n", " ")
    return w if len(w) < 260 else w[:257] + "…"
rows = ["| id | property | status | commit | what |", "|---|---|---|---|---|"]
for f in sorted(k, key=lambda f: f["id"]):
    rows.append(f"| {f['id']} | {f['property']} | {'repaired' if f['status']=='fixed' else 'recorded (open)'} | {f.get('commit','')} | {short(f['what'])} |")
nfix = sum(1 for f in k if f["status"] == "fixed")
put("findings", f"{len(k)} defects: {nfix} repaired by `fix:` commits, {len(k)-nfix} recorded.\n\n" + "\n".join(rows))

rows = ["| id | level | theorems (audited per run) | cases quick / thorough | what is proved / what is only compared |", "|---|---|---|---|---|"]
na = json.load(open(os.path.join(V, "MANIFEST.json"))).get("not_applicable", [])
for f in sorted(glob.glob(os.path.join(V, "harness", "meta", "C*.json"))):
    pid = os.path.basename(f)[:-5]
    m = json.load(open(f))
    n = 0
    for p in glob.glob(os.path.join(V, "lean", "PS", "Props", pid + "*.lean")):
        n += len(re.findall(r"^\s*theorem\s+", open(p).read(), re.M))
    e = m["explanation"].replace("|", "\\|").replace("\n", " ")
    rows.append(f"| {pid} | {m['level']} | {n} | {m['cases']['quick']} / {m['cases']['thorough']} | {e} |")
for x in na:
    rows.append(f"| {x['property_id']} | — | — | — | not claimed: {x['reason']} |")
put("status", "\n".join(rows))

rows = ["| seed | property | what the change is / what it needs to manifest | suite passes | demo (clean → changed) | caught by | note |", "|---|---|---|---|---|---|---|"]
notes = json.load(open(os.path.join(V, "seeded", "notes.json"))) if os.path.exists(os.path.join(V, "seeded", "notes.json")) else {}
for mf in sorted(glob.glob(os.path.join(V, "seeded", "*", "meta.json"))):
    m = json.load(open(mf))
    sid = m["id"]
    desc = ""
    nf = os.path.join(os.path.dirname(mf), "notes.md")
    if os.path.exists(nf):
        txt = [l.strip() for l in open(nf).read().split("\n") if l.strip() and not l.startswith("#")]
        desc = " ".join(txt)[:300].replace("|", "\\|")
    chk = m.get("check", {})
    caught = "—"
    for tier in ("quick", "thorough"):
        if chk.get(tier, {}).get("exit") == 1:
            caught = f"`./check {m['property']}` {tier} ({chk[tier]['wall_s']} s)"
            break
    note = notes.get(sid, "")
    if m.get("caught_after"):
        first = "missed at first (quick and thorough)" if caught == "—" else "caught"
        a = chk.get("quick_after_strengthening", {})
        caught = f"`./check {m['property']}` quick ({a.get('wall_s', '?')} s) after strengthening"
        note = (note + " " if note else "") + f"{first}; {m['caught_after']}"
    if caught == "—" and chk:
        caught = "**missed** (quick and thorough)"
    rows.append(f"| {sid} | {m['property']} | {desc} | {'yes' if m.get('suite_passes') else 'no'} | {m.get('demo_clean_exit')} → {m.get('demo_changed_exit')} | {caught} | {note} |")
put("seeds", "\n".join(rows))
open(os.path.join(V, "DESIGN.md"), "w").write(d)
print("tables written")
